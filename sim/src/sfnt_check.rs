//! C09 oracle: an independent structural validator for written fonts (plain byte arithmetic)
//! plus the "library can load its own output" self-load.

use std::collections::BTreeMap;

use allsorts::binary::read::ReadScope;
use allsorts::cff::CFF;
use allsorts::font_data::FontData;
use allsorts::outline::{OutlineBuilder, OutlineSink};
use allsorts::pathfinder_geometry::line_segment::LineSegment2F;
use allsorts::pathfinder_geometry::vector::Vector2F;
use allsorts::tables::glyf::GlyfTable;
use allsorts::tables::loca::LocaTable;
use allsorts::tables::{FontTableProvider, HeadTable, MaxpTable};
use allsorts::{tag, Font};

use crate::exec::{Written, WrittenKind};

type Problems = Vec<(String, String)>;

fn be16(d: &[u8], o: usize) -> Option<u16> {
    d.get(o..o + 2).map(|b| u16::from_be_bytes([b[0], b[1]]))
}
fn be32(d: &[u8], o: usize) -> Option<u32> {
    d.get(o..o + 4)
        .map(|b| u32::from_be_bytes([b[0], b[1], b[2], b[3]]))
}

fn checksum(data: &[u8]) -> u32 {
    let mut sum = 0u32;
    for chunk in data.chunks(4) {
        let mut w = [0u8; 4];
        w[..chunk.len()].copy_from_slice(chunk);
        sum = sum.wrapping_add(u32::from_be_bytes(w));
    }
    sum
}

struct NullSink(usize);
impl OutlineSink for NullSink {
    fn move_to(&mut self, _: Vector2F) {
        self.0 += 1
    }
    fn line_to(&mut self, _: Vector2F) {
        self.0 += 1
    }
    fn quadratic_curve_to(&mut self, _: Vector2F, _: Vector2F) {
        self.0 += 1
    }
    fn cubic_curve_to(&mut self, _: LineSegment2F, _: Vector2F) {
        self.0 += 1
    }
    fn close(&mut self) {
        self.0 += 1
    }
}

pub struct Table<'a> {
    pub tag: u32,
    pub checksum: u32,
    pub offset: usize,
    pub length: usize,
    pub data: &'a [u8],
}

/// Container-level validation. Returns the tables when the directory itself is usable.
pub fn validate_container<'a>(d: &'a [u8], problems: &mut Problems) -> Option<Vec<Table<'a>>> {
    let mut bad = |name: &str, msg: String| problems.push((name.to_string(), msg));
    let version = match be32(d, 0) {
        Some(v) => v,
        None => {
            bad("short-file", format!("{} bytes", d.len()));
            return None;
        }
    };
    if !(version == 0x0001_0000 || version == 0x4F54_544F || version == 0x7472_7565) {
        bad("sfnt-version", format!("{:08x}", version));
    }
    let n = usize::from(be16(d, 4)?);
    let search_range = be16(d, 6)?;
    let entry_selector = be16(d, 8)?;
    let range_shift = be16(d, 10)?;
    if n == 0 {
        bad("no-tables", "numTables = 0".into());
        return None;
    }
    let mut es = 0u32;
    while (1usize << (es + 1)) <= n {
        es += 1;
    }
    let sr = (1u32 << es) * 16;
    if u32::from(search_range) != sr
        || u32::from(entry_selector) != es
        || u32::from(range_shift) != (n as u32) * 16 - sr
    {
        bad(
            "search-fields",
            format!(
                "numTables={} searchRange={} entrySelector={} rangeShift={}",
                n, search_range, entry_selector, range_shift
            ),
        );
    }
    let dir_end = 12 + 16 * n;
    if d.len() < dir_end {
        bad("directory-truncated", format!("{} < {}", d.len(), dir_end));
        return None;
    }
    let mut tables = Vec::with_capacity(n);
    let mut prev_tag: Option<u32> = None;
    for i in 0..n {
        let r = 12 + 16 * i;
        let tag = be32(d, r)?;
        let sum = be32(d, r + 4)?;
        let offset = be32(d, r + 8)? as usize;
        let length = be32(d, r + 12)? as usize;
        if let Some(p) = prev_tag {
            if tag <= p {
                bad(
                    "directory-order",
                    format!("{:08x} after {:08x}", tag, p),
                );
            }
        }
        prev_tag = Some(tag);
        if offset % 4 != 0 {
            bad("alignment", format!("table {:08x} at {}", tag, offset));
        }
        let end = offset.checked_add(length);
        let data = match end.and_then(|e| d.get(offset..e)) {
            Some(s) => s,
            None => {
                bad(
                    "table-out-of-file",
                    format!("table {:08x} {}+{} > {}", tag, offset, length, d.len()),
                );
                return None;
            }
        };
        if offset < dir_end {
            bad("table-overlaps-directory", format!("table {:08x} at {}", tag, offset));
        }
        tables.push(Table {
            tag,
            checksum: sum,
            offset,
            length,
            data,
        });
    }
    // Non-overlap, zero padding, no gaps, file ends at the last padded table.
    let mut by_off: Vec<&Table> = tables.iter().collect();
    by_off.sort_by_key(|t| (t.offset, t.length));
    let mut cursor = dir_end;
    for t in &by_off {
        if t.offset < cursor {
            bad(
                "overlap",
                format!("table {:08x} at {} overlaps previous end {}", t.tag, t.offset, cursor),
            );
        } else if t.offset > cursor {
            bad(
                "gap",
                format!("{} unaccounted bytes before table {:08x}", t.offset - cursor, t.tag),
            );
        }
        let end = t.offset + t.length;
        let padded = (end + 3) / 4 * 4;
        match d.get(end..padded) {
            Some(pad) => {
                if pad.iter().any(|&b| b != 0) {
                    bad("padding-not-zero", format!("table {:08x}", t.tag));
                }
            }
            None => bad("padding-missing", format!("table {:08x}", t.tag)),
        }
        cursor = cursor.max(padded);
    }
    if cursor != d.len() {
        bad(
            "file-length",
            format!("file is {} bytes, tables end at {}", d.len(), cursor),
        );
    }
    // Checksums.
    for t in &tables {
        let actual = if t.tag == tag::HEAD && t.length >= 12 {
            let mut copy = t.data.to_vec();
            copy[8..12].copy_from_slice(&[0; 4]);
            checksum(&copy)
        } else {
            checksum(t.data)
        };
        if actual != t.checksum {
            bad(
                "table-checksum",
                format!("table {:08x}: directory {:08x} actual {:08x}", t.tag, t.checksum, actual),
            );
        }
    }
    match tables.iter().find(|t| t.tag == tag::HEAD) {
        Some(head) => {
            if head.length < 54 {
                bad("head-length", format!("{}", head.length));
            } else {
                if be32(head.data, 12) != Some(0x5F0F_3CF5) {
                    bad("head-magic", format!("{:?}", be32(head.data, 12)));
                }
                if checksum(d) != 0xB1B0_AFBA {
                    bad(
                        "checksum-adjustment",
                        format!("whole-file checksum {:08x}", checksum(d)),
                    );
                }
            }
        }
        None => bad("no-head", "head table missing".into()),
    }
    Some(tables)
}

fn cross_table(tables: &[Table<'_>], kind: WrittenKind, problems: &mut Problems) {
    let mut bad = |name: &str, msg: String| problems.push((name.to_string(), msg));
    let map: BTreeMap<u32, &Table> = tables.iter().map(|t| (t.tag, t)).collect();
    let get = |t: u32| map.get(&t).map(|t| t.data);
    let (Some(head), Some(maxp)) = (get(tag::HEAD), get(tag::MAXP)) else {
        bad("missing-required", "head/maxp".into());
        return;
    };
    let num_glyphs = usize::from(be16(maxp, 4).unwrap_or(0));
    let loc_format = be16(head, 50).unwrap_or(0);
    if let (Some(hhea), Some(hmtx)) = (get(tag::HHEA), get(tag::HMTX)) {
        let nhm = usize::from(be16(hhea, 34).unwrap_or(0));
        if nhm > num_glyphs {
            bad(
                "hhea-numberOfHMetrics",
                format!("{} > numGlyphs {}", nhm, num_glyphs),
            );
        } else if kind != WrittenKind::Whole {
            let want = 4 * nhm + 2 * (num_glyphs - nhm);
            if hmtx.len() != want {
                bad(
                    "hmtx-length",
                    format!("{} bytes, expected {} (nhm={} glyphs={})", hmtx.len(), want, nhm, num_glyphs),
                );
            }
        }
        if nhm == 0 && num_glyphs > 0 {
            bad("hhea-numberOfHMetrics", "0".into());
        }
    }
    if let (Some(loca), Some(glyf)) = (get(tag::LOCA), get(tag::GLYF)) {
        let mut offs: Vec<usize> = Vec::with_capacity(num_glyphs + 1);
        if loc_format == 0 {
            if loca.len() != 2 * (num_glyphs + 1) {
                bad(
                    "loca-length",
                    format!("short loca {} bytes for {} glyphs", loca.len(), num_glyphs),
                );
            }
            for c in loca.chunks_exact(2) {
                offs.push(usize::from(u16::from_be_bytes([c[0], c[1]])) * 2);
            }
        } else if loc_format == 1 {
            if loca.len() != 4 * (num_glyphs + 1) {
                bad(
                    "loca-length",
                    format!("long loca {} bytes for {} glyphs", loca.len(), num_glyphs),
                );
            }
            for c in loca.chunks_exact(4) {
                offs.push(u32::from_be_bytes([c[0], c[1], c[2], c[3]]) as usize);
            }
        } else {
            bad("indexToLocFormat", format!("{}", loc_format));
        }
        if offs.windows(2).any(|w| w[1] < w[0]) {
            bad("loca-monotone", "offsets decrease".into());
        }
        if let Some(&last) = offs.last() {
            if last != glyf.len() {
                bad(
                    "loca-end",
                    format!("last loca offset {} != glyf length {}", last, glyf.len()),
                );
            }
        }
        // Composite component ids < numGlyphs.
        for w in offs.windows(2) {
            let (s, e) = (w[0], w[1]);
            if e <= s || e > glyf.len() {
                continue;
            }
            let g = &glyf[s..e];
            if g.len() < 10 {
                bad("glyph-too-short", format!("{} bytes at {}", g.len(), s));
                continue;
            }
            let ncont = i16::from_be_bytes([g[0], g[1]]);
            if ncont < 0 {
                let mut p = 10;
                loop {
                    let (Some(flags), Some(gid)) = (be16(g, p), be16(g, p + 2)) else {
                        bad("composite-truncated", format!("glyph at {}", s));
                        break;
                    };
                    if usize::from(gid) >= num_glyphs {
                        bad(
                            "component-id",
                            format!("component {} >= numGlyphs {}", gid, num_glyphs),
                        );
                    }
                    p += 4;
                    p += if flags & 1 != 0 { 4 } else { 2 };
                    if flags & 0x8 != 0 {
                        p += 2;
                    } else if flags & 0x40 != 0 {
                        p += 4;
                    } else if flags & 0x80 != 0 {
                        p += 8;
                    }
                    if flags & 0x20 == 0 {
                        break;
                    }
                }
            }
        }
    }
    if let Some(post) = get(tag::POST) {
        if be32(post, 0) == Some(0x0003_0000) && post.len() != 32 {
            bad("post-v3-length", format!("{}", post.len()));
        }
    }
    // cmap structural rules apply where the writer generated the cmap (subsets); instance()
    // copies the source cmap verbatim.
    if kind == WrittenKind::Sfnt {
        if let Some(cmap) = get(tag::CMAP) {
            check_cmap(cmap, problems);
        }
    }
}

fn check_cmap(cmap: &[u8], problems: &mut Problems) {
    let mut bad = |name: &str, msg: String| problems.push((name.to_string(), msg));
    let n = usize::from(be16(cmap, 2).unwrap_or(0));
    let mut prev: Option<(u16, u16)> = None;
    for i in 0..n {
        let r = 4 + 8 * i;
        let (Some(pid), Some(eid), Some(off)) = (be16(cmap, r), be16(cmap, r + 2), be32(cmap, r + 4))
        else {
            bad("cmap-record-truncated", format!("record {}", i));
            return;
        };
        if let Some(p) = prev {
            if (pid, eid) < p {
                bad("cmap-record-order", format!("({},{}) after {:?}", pid, eid, p));
            }
        }
        prev = Some((pid, eid));
        let off = off as usize;
        let Some(sub) = cmap.get(off..) else {
            bad("cmap-subtable-offset", format!("{} > {}", off, cmap.len()));
            continue;
        };
        match be16(sub, 0) {
            Some(0) => {
                if be16(sub, 2) != Some(262) || sub.len() < 262 {
                    bad("cmap0-length", format!("{:?}", be16(sub, 2)));
                }
            }
            Some(4) => {
                let len = usize::from(be16(sub, 2).unwrap_or(0));
                let segx2 = usize::from(be16(sub, 6).unwrap_or(0));
                if segx2 == 0 || segx2 % 2 != 0 || len > sub.len() || 16 + 4 * segx2 > len {
                    bad("cmap4-header", format!("len={} segCountX2={}", len, segx2));
                    continue;
                }
                let seg = segx2 / 2;
                let ends = 14;
                let starts = ends + segx2 + 2;
                let deltas = starts + segx2;
                let ranges = deltas + segx2;
                let mut last_end: Option<u16> = None;
                for s in 0..seg {
                    let e = be16(sub, ends + 2 * s).unwrap();
                    let st = be16(sub, starts + 2 * s).unwrap();
                    let ro = usize::from(be16(sub, ranges + 2 * s).unwrap());
                    if st > e {
                        bad("cmap4-segment", format!("start {} > end {}", st, e));
                    }
                    if let Some(le) = last_end {
                        if e <= le || st <= le {
                            bad("cmap4-order", format!("segment {} not after {}", s, le));
                        }
                    }
                    last_end = Some(e);
                    if ro != 0 {
                        let first = ranges + 2 * s + ro;
                        let lastp = first + 2 * usize::from(e.saturating_sub(st));
                        if ro % 2 != 0 || lastp + 2 > len {
                            bad("cmap4-idRangeOffset", format!("segment {} offset {}", s, ro));
                        }
                    }
                }
                if last_end != Some(0xFFFF) {
                    bad("cmap4-final-segment", format!("{:?}", last_end));
                }
            }
            Some(12) => {
                let len = be32(sub, 4).unwrap_or(0) as usize;
                let groups = be32(sub, 12).unwrap_or(0) as usize;
                if len > sub.len() || 16 + 12 * groups != len {
                    bad("cmap12-header", format!("len={} groups={}", len, groups));
                    continue;
                }
                let mut last: Option<u32> = None;
                for g in 0..groups {
                    let s = be32(sub, 16 + 12 * g).unwrap();
                    let e = be32(sub, 20 + 12 * g).unwrap();
                    if s > e {
                        bad("cmap12-group", format!("start {} > end {}", s, e));
                    }
                    if let Some(l) = last {
                        if s <= l {
                            bad("cmap12-order", format!("group {} starts at {} <= {}", g, s, l));
                        }
                    }
                    last = Some(e);
                }
            }
            _ => {}
        }
    }
}

fn self_load(w: &Written, fault_free: bool, problems: &mut Problems) {
    let mut bad = |name: &str, msg: String| problems.push((name.to_string(), msg));
    let scope = ReadScope::new(&w.bytes);
    let fd = match scope.read::<FontData<'_>>() {
        Ok(fd) => fd,
        Err(e) => {
            bad("self-load-read", format!("{:?}", e));
            return;
        }
    };
    let provider = match fd.table_provider(0) {
        Ok(p) => p,
        Err(e) => {
            bad("self-load-provider", format!("{:?}", e));
            return;
        }
    };
    if w.kind == WrittenKind::SfntNoCmap {
        return;
    }
    let has = |t: u32| provider.has_table(t);
    if w.kind == WrittenKind::Whole && !(has(tag::CMAP) && has(tag::HHEA) && has(tag::HMTX)) {
        return;
    }
    if w.kind == WrittenKind::Whole && !fault_free {
        return;
    }
    let mut font = match Font::new(provider) {
        Ok(f) => f,
        Err(e) => {
            bad("self-load-font", format!("Font::new failed: {:?}", e));
            return;
        }
    };
    let n = font.num_glyphs();
    if let Some(g) = w.glyphs {
        if usize::from(n) < g && w.kind != WrittenKind::Whole {
            bad(
                "self-load-glyph-count",
                format!("{} glyphs requested, output has {}", g, n),
            );
        }
    }
    if font.is_variable() && w.kind == WrittenKind::Instance {
        bad("instance-still-variable", "fvar present".into());
    }
    let cap = n.min(3000);
    for g in 0..cap {
        if font.horizontal_advance(g).is_none() {
            bad("self-load-advance", format!("glyph {} of {} has no advance", g, n));
            break;
        }
    }
    let _ = font.glyph_names(&(0..cap.min(300)).collect::<Vec<u16>>());
    // Outlines.
    let p = &font.font_table_provider;
    let mut sink = NullSink(0);
    if let (Ok(Some(glyf_d)), Ok(Some(loca_d))) = (p.table_data(tag::GLYF), p.table_data(tag::LOCA)) {
        let head = p
            .table_data(tag::HEAD)
            .ok()
            .flatten()
            .and_then(|d| ReadScope::new(&d).read::<HeadTable>().ok());
        let maxp = p
            .table_data(tag::MAXP)
            .ok()
            .flatten()
            .and_then(|d| ReadScope::new(&d).read::<MaxpTable>().ok());
        if let (Some(head), Some(maxp)) = (head, maxp) {
            match ReadScope::new(&loca_d)
                .read_dep::<LocaTable<'_>>((usize::from(maxp.num_glyphs), head.index_to_loc_format))
            {
                Ok(loca) => match ReadScope::new(&glyf_d).read_dep::<GlyfTable<'_>>(&loca) {
                    Ok(mut glyf) => {
                        for g in 0..cap {
                            if let Err(e) = glyf.visit(g, &mut sink) {
                                if fault_free {
                                    bad("self-load-outline", format!("glyph {}: {:?}", g, e));
                                    break;
                                }
                            }
                        }
                    }
                    Err(e) => bad("self-load-glyf", format!("{:?}", e)),
                },
                Err(e) => bad("self-load-loca", format!("{:?}", e)),
            }
        }
    } else if let Ok(Some(cff_d)) = p.table_data(tag::CFF) {
        match ReadScope::new(&cff_d).read::<CFF<'_>>() {
            Ok(mut cff) => {
                for g in 0..cap {
                    if let Err(e) = cff.visit(g, &mut sink) {
                        if fault_free {
                            bad("self-load-outline", format!("glyph {}: {:?}", g, e));
                            break;
                        }
                    }
                }
            }
            Err(e) => bad("self-load-cff", format!("{:?}", e)),
        }
    }
}

fn bare_cff(w: &Written, fault_free: bool, problems: &mut Problems) {
    match ReadScope::new(&w.bytes).read::<CFF<'_>>() {
        Ok(mut cff) => {
            let n = w.glyphs.unwrap_or(0).min(3000) as u16;
            let mut sink = NullSink(0);
            for g in 0..n {
                if let Err(e) = cff.visit(g, &mut sink) {
                    if fault_free {
                        problems.push((
                            "self-load-outline".into(),
                            format!("bare CFF glyph {}: {:?}", g, e),
                        ));
                        break;
                    }
                }
            }
        }
        Err(e) => problems.push(("self-load-cff".into(), format!("{:?}", e))),
    }
}

/// `source_loadable`: `Font::new` succeeds on the source provider. The self-load half is a
/// statement about the writer only when the source itself is loadable (whole_font and
/// instance copy e.g. cmap through byte for byte; a source without a usable cmap cannot yield
/// an output with one).
pub fn validate(w: &Written, fault_free: bool, source_loadable: bool) -> Problems {
    let mut problems = Vec::new();
    if w.kind == WrittenKind::BareCff {
        bare_cff(w, fault_free, &mut problems);
        return problems;
    }
    let tables = validate_container(&w.bytes, &mut problems);
    if let Some(tables) = tables {
        // Cross-table relations: the property lists them for subsets and instances (and
        // WOFF2 reconstructions), not for whole_font, which copies tables verbatim; and they
        // are only asserted for fault-free sources.
        if fault_free && w.kind != WrittenKind::Whole {
            cross_table(&tables, w.kind, &mut problems);
        }
        if problems.is_empty() && source_loadable {
            self_load(w, fault_free, &mut problems);
        }
    }
    problems
}

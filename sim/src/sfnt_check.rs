//! C09 oracle: an independent structural validator for written fonts (plain byte arithmetic)
//! plus the "library can load its own output" self-load.

use std::collections::BTreeMap;

use allsorts::binary::read::ReadScope;
use allsorts::cff::CFF;
use allsorts::font_data::FontData;
use allsorts::outline::{OutlineBuilder, OutlineSink};
use allsorts::pathfinder_geometry::line_segment::LineSegment2F;
use allsorts::pathfinder_geometry::vector::Vector2F;
use allsorts::tables::glyf::GlyfTable;
use allsorts::tables::loca::LocaTable;
use allsorts::tables::{FontTableProvider, HeadTable, MaxpTable};
use allsorts::{tag, Font};

use crate::exec::{Written, WrittenKind};

type Problems = Vec<(String, String)>;

fn be16(d: &[u8], o: usize) -> Option<u16> {
    d.get(o..o + 2).map(|b| u16::from_be_bytes([b[0], b[1]]))
}
fn be32(d: &[u8], o: usize) -> Option<u32> {
    d.get(o..o + 4)
        .map(|b| u32::from_be_bytes([b[0], b[1], b[2], b[3]]))
}

fn checksum(data: &[u8]) -> u32 {
    let mut sum = 0u32;
    for chunk in data.chunks(4) {
        let mut w = [0u8; 4];
        w[..chunk.len()].copy_from_slice(chunk);
        sum = sum.wrapping_add(u32::from_be_bytes(w));
    }
    sum
}

struct NullSink(usize);
impl OutlineSink for NullSink {
    fn move_to(&mut self, _: Vector2F) {
        self.0 += 1
    }
    fn line_to(&mut self, _: Vector2F) {
        self.0 += 1
    }
    fn quadratic_curve_to(&mut self, _: Vector2F, _: Vector2F) {
        self.0 += 1
    }
    fn cubic_curve_to(&mut self, _: LineSegment2F, _: Vector2F) {
        self.0 += 1
    }
    fn close(&mut self) {
        self.0 += 1
    }
}

pub struct Table<'a> {
    pub tag: u32,
    pub checksum: u32,
    pub offset: usize,
    pub length: usize,
    pub data: &'a [u8],
}

/// Container-level validation. Returns the tables when the directory itself is usable.
pub fn validate_container<'a>(d: &'a [u8], problems: &mut Problems) -> Option<Vec<Table<'a>>> {
    let mut bad = |name: &str, msg: String| problems.push((name.to_string(), msg));
    let version = match be32(d, 0) {
        Some(v) => v,
        None => {
            bad("short-file", format!("{} bytes", d.len()));
            return None;
        }
    };
    if !(version == 0x0001_0000 || version == 0x4F54_544F || version == 0x7472_7565) {
        bad("sfnt-version", format!("{:08x}", version));
    }
    let n = usize::from(be16(d, 4)?);
    let search_range = be16(d, 6)?;
    let entry_selector = be16(d, 8)?;
    let range_shift = be16(d, 10)?;
    if n == 0 {
        bad("no-tables", "numTables = 0".into());
        return None;
    }
    let mut es = 0u32;
    while (1usize << (es + 1)) <= n {
        es += 1;
    }
    let sr = (1u32 << es) * 16;
    if u32::from(search_range) != sr
        || u32::from(entry_selector) != es
        || u32::from(range_shift) != (n as u32) * 16 - sr
    {
        bad(
            "search-fields",
            format!(
                "numTables={} searchRange={} entrySelector={} rangeShift={}",
                n, search_range, entry_selector, range_shift
            ),
        );
    }
    let dir_end = 12 + 16 * n;
    if d.len() < dir_end {
        bad("directory-truncated", format!("{} < {}", d.len(), dir_end));
        return None;
    }
    let mut tables = Vec::with_capacity(n);
    let mut prev_tag: Option<u32> = None;
    for i in 0..n {
        let r = 12 + 16 * i;
        let tag = be32(d, r)?;
        let sum = be32(d, r + 4)?;
        let offset = be32(d, r + 8)? as usize;
        let length = be32(d, r + 12)? as usize;
        if let Some(p) = prev_tag {
            if tag <= p {
                bad(
                    "directory-order",
                    format!("{:08x} after {:08x}", tag, p),
                );
            }
        }
        prev_tag = Some(tag);
        if offset % 4 != 0 {
            bad("alignment", format!("table {:08x} at {}", tag, offset));
        }
        let end = offset.checked_add(length);
        let data = match end.and_then(|e| d.get(offset..e)) {
            Some(s) => s,
            None => {
                bad(
                    "table-out-of-file",
                    format!("table {:08x} {}+{} > {}", tag, offset, length, d.len()),
                );
                return None;
            }
        };
        if offset < dir_end {
            bad("table-overlaps-directory", format!("table {:08x} at {}", tag, offset));
        }
        tables.push(Table {
            tag,
            checksum: sum,
            offset,
            length,
            data,
        });
    }
    // Non-overlap, zero padding, no gaps, file ends at the last padded table.
    let mut by_off: Vec<&Table> = tables.iter().collect();
    by_off.sort_by_key(|t| (t.offset, t.length));
    let mut cursor = dir_end;
    for t in &by_off {
        if t.offset < cursor {
            bad(
                "overlap",
                format!("table {:08x} at {} overlaps previous end {}", t.tag, t.offset, cursor),
            );
        } else if t.offset > cursor {
            bad(
                "gap",
                format!("{} unaccounted bytes before table {:08x}", t.offset - cursor, t.tag),
            );
        }
        let end = t.offset + t.length;
        let padded = (end + 3) / 4 * 4;
        match d.get(end..padded) {
            Some(pad) => {
                if pad.iter().any(|&b| b != 0) {
                    bad("padding-not-zero", format!("table {:08x}", t.tag));
                }
            }
            None => bad("padding-missing", format!("table {:08x}", t.tag)),
        }
        cursor = cursor.max(padded);
    }
    if cursor != d.len() {
        bad(
            "file-length",
            format!("file is {} bytes, tables end at {}", d.len(), cursor),
        );
    }
    // Checksums.
    for t in &tables {
        let actual = if t.tag == tag::HEAD && t.length >= 12 {
            let mut copy = t.data.to_vec();
            copy[8..12].copy_from_slice(&[0; 4]);
            checksum(&copy)
        } else {
            checksum(t.data)
        };
        if actual != t.checksum {
            bad(
                "table-checksum",
                format!("table {:08x}: directory {:08x} actual {:08x}", t.tag, t.checksum, actual),
            );
        }
    }
    match tables.iter().find(|t| t.tag == tag::HEAD) {
        Some(head) => {
            if head.length < 54 {
                bad("head-length", format!("{}", head.length));
            } else {
                if be32(head.data, 12) != Some(0x5F0F_3CF5) {
                    bad("head-magic", format!("{:?}", be32(head.data, 12)));
                }
                if checksum(d) != 0xB1B0_AFBA {
                    bad(
                        "checksum-adjustment",
                        format!("whole-file checksum {:08x}", checksum(d)),
                    );
                }
            }
        }
        None => bad("no-head", "head table missing".into()),
    }
    Some(tables)
}

/// Which relations to assert: all of them for fonts the library wrote; for tables handed out by
/// the WOFF2 provider only those between tables the decoder itself rebuilt.
#[derive(Clone, Copy)]
pub struct Relations {
    pub hmtx: bool,
    pub loca_glyf: bool,
    pub passthrough: bool,
}

const ALL_RELATIONS: Relations = Relations {
    hmtx: true,
    loca_glyf: true,
    passthrough: true,
};

fn cross_table(tables: &[Table<'_>], kind: WrittenKind, rel: Relations, problems: &mut Problems) {
    let mut bad = |name: &str, msg: String| problems.push((name.to_string(), msg));
    let map: BTreeMap<u32, &Table> = tables.iter().map(|t| (t.tag, t)).collect();
    let get = |t: u32| map.get(&t).map(|t| t.data);
    let (Some(head), Some(maxp)) = (get(tag::HEAD), get(tag::MAXP)) else {
        bad("missing-required", "head/maxp".into());
        return;
    };
    let num_glyphs = usize::from(be16(maxp, 4).unwrap_or(0));
    let loc_format = be16(head, 50).unwrap_or(0);
    if kind == WrittenKind::Instance && get(u32::from_be_bytes(*b"fvar")).is_none() {
        // a static instance: the tables that only refine `fvar` axes have nothing to refer to
        for t in [b"avar", b"cvar", b"gvar", b"HVAR", b"VVAR", b"MVAR"] {
            if get(u32::from_be_bytes(*t)).is_some() {
                bad(
                    "instance-variation-table",
                    format!("{} present in an instance that has no fvar", String::from_utf8_lossy(t)),
                );
            }
        }
    }
    if let (true, Some(hhea), Some(hmtx)) = (rel.hmtx, get(tag::HHEA), get(tag::HMTX)) {
        let nhm = usize::from(be16(hhea, 34).unwrap_or(0));
        if nhm > num_glyphs {
            bad(
                "hhea-numberOfHMetrics",
                format!("{} > numGlyphs {}", nhm, num_glyphs),
            );
        } else if kind != WrittenKind::Whole {
            let want = 4 * nhm + 2 * (num_glyphs - nhm);
            if hmtx.len() != want {
                bad(
                    "hmtx-length",
                    format!("{} bytes, expected {} (nhm={} glyphs={})", hmtx.len(), want, nhm, num_glyphs),
                );
            }
        }
        if nhm == 0 && num_glyphs > 0 {
            bad("hhea-numberOfHMetrics", "0".into());
        }
    }
    if let (true, Some(loca), Some(glyf)) = (rel.loca_glyf, get(tag::LOCA), get(tag::GLYF)) {
        let mut offs: Vec<usize> = Vec::with_capacity(num_glyphs + 1);
        if loc_format == 0 {
            if loca.len() != 2 * (num_glyphs + 1) {
                bad(
                    "loca-length",
                    format!("short loca {} bytes for {} glyphs", loca.len(), num_glyphs),
                );
            }
            for c in loca.chunks_exact(2) {
                offs.push(usize::from(u16::from_be_bytes([c[0], c[1]])) * 2);
            }
        } else if loc_format == 1 {
            if loca.len() != 4 * (num_glyphs + 1) {
                bad(
                    "loca-length",
                    format!("long loca {} bytes for {} glyphs", loca.len(), num_glyphs),
                );
            }
            for c in loca.chunks_exact(4) {
                offs.push(u32::from_be_bytes([c[0], c[1], c[2], c[3]]) as usize);
            }
        } else {
            bad("indexToLocFormat", format!("{}", loc_format));
        }
        if offs.windows(2).any(|w| w[1] < w[0]) {
            bad("loca-monotone", "offsets decrease".into());
        }
        if let Some(&last) = offs.last() {
            if last != glyf.len() {
                bad(
                    "loca-end",
                    format!("last loca offset {} != glyf length {}", last, glyf.len()),
                );
            }
        }
        // Composite component ids < numGlyphs.
        for w in offs.windows(2) {
            let (s, e) = (w[0], w[1]);
            if e <= s || e > glyf.len() {
                continue;
            }
            let g = &glyf[s..e];
            if g.len() < 10 {
                bad("glyph-too-short", format!("{} bytes at {}", g.len(), s));
                continue;
            }
            let ncont = i16::from_be_bytes([g[0], g[1]]);
            if ncont < 0 {
                let mut p = 10;
                loop {
                    let (Some(flags), Some(gid)) = (be16(g, p), be16(g, p + 2)) else {
                        bad("composite-truncated", format!("glyph at {}", s));
                        break;
                    };
                    if usize::from(gid) >= num_glyphs {
                        bad(
                            "component-id",
                            format!("component {} >= numGlyphs {}", gid, num_glyphs),
                        );
                    }
                    p += 4;
                    p += if flags & 1 != 0 { 4 } else { 2 };
                    if flags & 0x8 != 0 {
                        p += 2;
                    } else if flags & 0x40 != 0 {
                        p += 4;
                    } else if flags & 0x80 != 0 {
                        p += 8;
                    }
                    if flags & 0x20 == 0 {
                        break;
                    }
                }
            }
        }
    }
    if !rel.passthrough {
        return;
    }
    if let Some(post) = get(tag::POST) {
        if be32(post, 0) == Some(0x0003_0000) && post.len() != 32 {
            bad("post-v3-length", format!("{}", post.len()));
        }
    }
    // cmap structural rules apply where the writer generated the cmap (subsets); instance()
    // copies the source cmap verbatim.
    if kind == WrittenKind::Sfnt {
        if let Some(cmap) = get(tag::CMAP) {
            check_cmap(cmap, problems);
            check_cmap_glyph_ids(cmap, num_glyphs, problems);
        }
    }
    if let Some(post) = get(tag::POST) {
        check_post_v2(post, num_glyphs, problems);
    }
    if let Some(cff) = get(tag::CFF) {
        check_cff_counts(cff, Some(num_glyphs), problems);
    }
}

/// post version 2.0: numberOfGlyphs equals maxp.numGlyphs, every glyphNameIndex refers to a
/// standard name or to a Pascal string that is inside the table.
fn check_post_v2(post: &[u8], num_glyphs: usize, problems: &mut Problems) {
    let mut bad = |name: &str, msg: String| problems.push((name.to_string(), msg));
    match be32(post, 0) {
        // version 1.0 names the 258 standard Macintosh glyphs in their standard order and
        // nothing else; version 2.5 (deprecated) has one offset byte per glyph
        Some(0x0001_0000) => {
            if num_glyphs != 258 {
                bad("post-v1-numGlyphs", format!("post version 1.0 in a font of {} glyphs", num_glyphs));
            }
            return;
        }
        Some(0x0002_5000) => {
            match be16(post, 32).map(usize::from) {
                Some(n) if n == num_glyphs && post.len() >= 34 + n => {}
                n => bad("post-v25-shape", format!("post 2.5 of {} bytes says {:?} glyphs, maxp {}", post.len(), n, num_glyphs)),
            }
            return;
        }
        Some(0x0002_0000) => {}
        _ => return,
    }
    let Some(n) = be16(post, 32).map(usize::from) else {
        bad("post-v2-truncated", format!("{} bytes", post.len()));
        return;
    };
    if n != num_glyphs {
        bad("post-v2-numGlyphs", format!("post says {} glyphs, maxp {}", n, num_glyphs));
    }
    let names_start = 34 + 2 * n;
    if post.len() < names_start {
        bad("post-v2-truncated", format!("{} bytes for {} glyphs", post.len(), n));
        return;
    }
    // count the Pascal strings
    let mut p = names_start;
    let mut names = 0usize;
    while p < post.len() {
        let l = usize::from(post[p]);
        if p + 1 + l > post.len() {
            bad("post-v2-name-overrun", format!("string at {} of length {} leaves the table ({})", p, l, post.len()));
            return;
        }
        p += 1 + l;
        names += 1;
    }
    for g in 0..n {
        let idx = usize::from(be16(post, 34 + 2 * g).unwrap_or(0));
        if idx >= 258 && idx - 258 >= names {
            bad("post-v2-name-index", format!("glyph {} uses name index {} but only {} custom names are stored", g, idx, names));
            return;
        }
    }
}

/// Every glyph id a generated cmap subtable (formats 0, 4, 6, 12) can return is < numGlyphs.
fn check_cmap_glyph_ids(cmap: &[u8], num_glyphs: usize, problems: &mut Problems) {
    let mut bad = |name: &str, msg: String| problems.push((name.to_string(), msg));
    let n = usize::from(be16(cmap, 2).unwrap_or(0));
    for i in 0..n {
        let r = 4 + 8 * i;
        let Some(off) = be32(cmap, r + 4) else { return };
        let Some(sub) = cmap.get(off as usize..) else { continue };
        match be16(sub, 0) {
            Some(0) => {
                for c in 0..256usize {
                    if let Some(&g) = sub.get(6 + c) {
                        if usize::from(g) >= num_glyphs {
                            bad("cmap-glyph-id", format!("format 0 maps {} to glyph {} >= {}", c, g, num_glyphs));
                            return;
                        }
                    }
                }
            }
            Some(4) => {
                let len = usize::from(be16(sub, 2).unwrap_or(0)).min(sub.len());
                let segx2 = usize::from(be16(sub, 6).unwrap_or(0));
                if segx2 == 0 || 16 + 4 * segx2 > len {
                    continue;
                }
                let seg = segx2 / 2;
                let (ends, starts) = (14, 14 + segx2 + 2);
                let (deltas, ranges) = (starts + segx2, starts + 2 * segx2);
                for s in 0..seg {
                    let (Some(e), Some(st), Some(d), Some(ro)) = (
                        be16(sub, ends + 2 * s),
                        be16(sub, starts + 2 * s),
                        be16(sub, deltas + 2 * s),
                        be16(sub, ranges + 2 * s),
                    ) else {
                        break;
                    };
                    if st > e || (st == 0xFFFF && e == 0xFFFF) {
                        continue;
                    }
                    for c in st..=e {
                        let g = if ro == 0 {
                            c.wrapping_add(d)
                        } else {
                            let p = ranges + 2 * s + usize::from(ro) + 2 * usize::from(c - st);
                            if p + 2 > len {
                                break;
                            }
                            match be16(sub, p) {
                                Some(0) | None => 0,
                                Some(v) => v.wrapping_add(d),
                            }
                        };
                        if usize::from(g) >= num_glyphs {
                            bad("cmap-glyph-id", format!("format 4 maps U+{:04X} to glyph {} >= {}", c, g, num_glyphs));
                            return;
                        }
                        if c == 0xFFFF {
                            break;
                        }
                    }
                }
            }
            Some(6) => {
                let count = usize::from(be16(sub, 8).unwrap_or(0));
                for k in 0..count {
                    if let Some(g) = be16(sub, 10 + 2 * k) {
                        if usize::from(g) >= num_glyphs {
                            bad("cmap-glyph-id", format!("format 6 entry {} is glyph {} >= {}", k, g, num_glyphs));
                            return;
                        }
                    }
                }
            }
            Some(12) => {
                let groups = be32(sub, 12).unwrap_or(0) as usize;
                for g in 0..groups {
                    let (Some(s), Some(e), Some(gid)) =
                        (be32(sub, 16 + 12 * g), be32(sub, 20 + 12 * g), be32(sub, 24 + 12 * g))
                    else {
                        break;
                    };
                    if e >= s && (gid as u64 + u64::from(e - s)) >= num_glyphs as u64 {
                        bad("cmap-glyph-id", format!("format 12 group {}..{} maps up to glyph {} >= {}", s, e, gid as u64 + u64::from(e - s), num_glyphs));
                        return;
                    }
                }
            }
            _ => {}
        }
    }
}

// ---- minimal independent CFF reader: just enough to count what must agree

pub(crate) struct CffIndex {
    pub count: usize,
    /// absolute offset of the first byte after the INDEX
    pub end: usize,
    /// absolute [start, end) of each object
    pub objs: Vec<(usize, usize)>,
}

pub(crate) fn cff_index(d: &[u8], at: usize) -> Option<CffIndex> {
    let count = usize::from(be16(d, at)?);
    if count == 0 {
        return Some(CffIndex { count, end: at + 2, objs: Vec::new() });
    }
    let off_size = usize::from(*d.get(at + 2)?);
    if !(1..=4).contains(&off_size) {
        return None;
    }
    let offs_at = at + 3;
    let data_at = offs_at + (count + 1) * off_size - 1; // offsets are 1-based
    let read = |i: usize| -> Option<usize> {
        let b = d.get(offs_at + i * off_size..offs_at + (i + 1) * off_size)?;
        Some(b.iter().fold(0usize, |a, &x| (a << 8) | usize::from(x)))
    };
    let mut objs = Vec::with_capacity(count.min(70000));
    let mut prev = read(0)?;
    for i in 1..=count {
        let o = read(i)?;
        if o < prev {
            return None;
        }
        objs.push((data_at + prev, data_at + o));
        prev = o;
    }
    let end = data_at + prev;
    if end > d.len() {
        return None;
    }
    Some(CffIndex { count, end, objs })
}

/// Operators of a DICT with their integer operands (reals are skipped as 0).
pub(crate) fn cff_dict(d: &[u8]) -> Vec<(u16, Vec<i64>)> {
    let mut out = Vec::new();
    let mut ops: Vec<i64> = Vec::new();
    let mut i = 0;
    while i < d.len() {
        let b = d[i];
        match b {
            0..=21 => {
                let op = if b == 12 {
                    i += 1;
                    0x0c00 | u16::from(*d.get(i).unwrap_or(&0))
                } else {
                    u16::from(b)
                };
                out.push((op, std::mem::take(&mut ops)));
                i += 1;
            }
            28 => {
                ops.push(i64::from(i16::from_be_bytes([*d.get(i + 1).unwrap_or(&0), *d.get(i + 2).unwrap_or(&0)])));
                i += 3;
            }
            29 => {
                let mut v = [0u8; 4];
                for k in 0..4 {
                    v[k] = *d.get(i + 1 + k).unwrap_or(&0);
                }
                ops.push(i64::from(i32::from_be_bytes(v)));
                i += 5;
            }
            30 => {
                i += 1;
                while i < d.len() {
                    let n = d[i];
                    i += 1;
                    if n & 0x0f == 0x0f || n >> 4 == 0x0f {
                        break;
                    }
                }
                ops.push(0);
            }
            32..=246 => {
                ops.push(i64::from(b) - 139);
                i += 1;
            }
            247..=250 => {
                ops.push((i64::from(b) - 247) * 256 + i64::from(*d.get(i + 1).unwrap_or(&0)) + 108);
                i += 2;
            }
            251..=254 => {
                ops.push(-(i64::from(b) - 251) * 256 - i64::from(*d.get(i + 1).unwrap_or(&0)) - 108);
                i += 2;
            }
            _ => {
                i += 1;
            }
        }
    }
    out
}

/// CharStrings count agrees with maxp (when given); charset and FDSelect cover exactly the
/// CharStrings. Plain byte arithmetic, independent of allsorts' CFF code.
pub fn check_cff_counts(cff: &[u8], num_glyphs: Option<usize>, problems: &mut Problems) -> Option<usize> {
    let mut bad = |name: &str, msg: String| problems.push((name.to_string(), msg));
    let hdr = usize::from(*cff.get(2)?);
    if cff.first() != Some(&1) {
        return None;
    }
    let names = match cff_index(cff, hdr) {
        Some(i) => i,
        None => {
            bad("cff-name-index", "unreadable".into());
            return None;
        }
    };
    let tops = match cff_index(cff, names.end) {
        Some(i) => i,
        None => {
            bad("cff-top-dict-index", "unreadable".into());
            return None;
        }
    };
    if tops.count != names.count || tops.count == 0 {
        bad("cff-font-count", format!("{} names, {} top dicts", names.count, tops.count));
        return None;
    }
    let (s, e) = tops.objs[0];
    let dict = cff_dict(cff.get(s..e)?);
    let find = |op: u16| dict.iter().find(|(o, _)| *o == op).and_then(|(_, v)| v.last().copied());
    let cs_off = match find(17) {
        Some(o) if o > 0 => o as usize,
        _ => {
            bad("cff-no-charstrings", "Top DICT has no CharStrings offset".into());
            return None;
        }
    };
    let cs = match cff_index(cff, cs_off) {
        Some(i) => i,
        None => {
            bad("cff-charstrings-index", format!("unreadable at {}", cs_off));
            return None;
        }
    };
    if let Some(n) = num_glyphs {
        if cs.count != n {
            bad("cff-glyph-count", format!("CharStrings has {} entries, maxp.numGlyphs is {}", cs.count, n));
        }
    }
    let n = cs.count;
    // charset
    if let Some(off) = find(15) {
        if off > 2 && n > 0 {
            let off = off as usize;
            match cff.get(off) {
                Some(0) => {
                    if off + 1 + 2 * (n - 1) > cff.len() {
                        bad("cff-charset", format!("format 0 charset needs {} SIDs but leaves the table", n - 1));
                    }
                }
                Some(f @ (1 | 2)) => {
                    let rec = if *f == 1 { 3 } else { 4 };
                    let mut covered = 0usize;
                    let mut p = off + 1;
                    while covered < n - 1 {
                        let left = if rec == 3 {
                            cff.get(p + 2).map(|&b| usize::from(b))
                        } else {
                            be16(cff, p + 2).map(usize::from)
                        };
                        match left {
                            Some(l) => covered += l + 1,
                            None => {
                                bad("cff-charset", format!("format {} charset covers {} of {} glyphs", f, covered, n - 1));
                                break;
                            }
                        }
                        p += rec;
                    }
                    if covered > n - 1 {
                        bad("cff-charset", format!("format {} charset covers {} glyphs, CharStrings has {}", f, covered + 1, n));
                    }
                }
                other => bad("cff-charset", format!("format {:?} at {}", other, off)),
            }
        }
    }
    // FDSelect (CID-keyed)
    if let Some(off) = find(0x0c25) {
        let off = off as usize;
        match cff.get(off) {
            Some(0) => {
                if off + 1 + n > cff.len() {
                    bad("cff-fdselect", format!("format 0 FDSelect needs {} entries but leaves the table", n));
                }
            }
            Some(3) => {
                if let Some(nr) = be16(cff, off + 1).map(usize::from) {
                    let first = be16(cff, off + 3);
                    let sentinel = be16(cff, off + 3 + 3 * nr).map(usize::from);
                    if nr == 0 || first != Some(0) || sentinel != Some(n) {
                        bad(
                            "cff-fdselect",
                            format!("format 3 FDSelect: {} ranges, first {:?}, sentinel {:?}, CharStrings {}", nr, first, sentinel, n),
                        );
                    }
                    // FD indices < FDArray count
                    if let Some(fda) = find(0x0c24).and_then(|o| cff_index(cff, o as usize)) {
                        let mut prev = None;
                        for k in 0..nr {
                            let g = be16(cff, off + 3 + 3 * k);
                            let fd = cff.get(off + 5 + 3 * k).map(|&b| usize::from(b));
                            if let (Some(g), Some(p)) = (g, prev) {
                                if g <= p {
                                    bad("cff-fdselect", format!("range {} starts at {} after {}", k, g, p));
                                }
                            }
                            prev = g;
                            if let Some(fd) = fd {
                                if fd >= fda.count {
                                    bad("cff-fdselect", format!("range {} selects FD {} of {}", k, fd, fda.count));
                                }
                            }
                        }
                    }
                }
            }
            other => bad("cff-fdselect", format!("format {:?} at {}", other, off)),
        }
        if find(0x0c24).is_none() {
            bad("cff-fdarray", "FDSelect without FDArray".into());
        }
    }
    Some(n)
}

fn check_cmap(cmap: &[u8], problems: &mut Problems) {
    let mut bad = |name: &str, msg: String| problems.push((name.to_string(), msg));
    let n = usize::from(be16(cmap, 2).unwrap_or(0));
    let mut prev: Option<(u16, u16)> = None;
    for i in 0..n {
        let r = 4 + 8 * i;
        let (Some(pid), Some(eid), Some(off)) = (be16(cmap, r), be16(cmap, r + 2), be32(cmap, r + 4))
        else {
            bad("cmap-record-truncated", format!("record {}", i));
            return;
        };
        if let Some(p) = prev {
            if (pid, eid) < p {
                bad("cmap-record-order", format!("({},{}) after {:?}", pid, eid, p));
            }
        }
        prev = Some((pid, eid));
        let off = off as usize;
        let Some(sub) = cmap.get(off..) else {
            bad("cmap-subtable-offset", format!("{} > {}", off, cmap.len()));
            continue;
        };
        match be16(sub, 0) {
            Some(0) => {
                if be16(sub, 2) != Some(262) || sub.len() < 262 {
                    bad("cmap0-length", format!("{:?}", be16(sub, 2)));
                }
            }
            Some(4) => {
                let len = usize::from(be16(sub, 2).unwrap_or(0));
                let segx2 = usize::from(be16(sub, 6).unwrap_or(0));
                if segx2 == 0 || segx2 % 2 != 0 || len > sub.len() || 16 + 4 * segx2 > len {
                    bad("cmap4-header", format!("len={} segCountX2={}", len, segx2));
                    continue;
                }
                let seg = segx2 / 2;
                // binary-search helper fields
                let mut es = 0usize;
                while (1usize << (es + 1)) <= seg {
                    es += 1;
                }
                let sr = 2 * (1usize << es);
                let got = (be16(sub, 8), be16(sub, 10), be16(sub, 12));
                if got != (Some(sr as u16), Some(es as u16), Some((2 * seg - sr) as u16)) {
                    bad(
                        "cmap4-search-fields",
                        format!(
                            "segCount={} searchRange/entrySelector/rangeShift={:?}, expected ({}, {}, {})",
                            seg, got, sr, es, 2 * seg - sr
                        ),
                    );
                }
                if be16(sub, 14 + segx2) != Some(0) {
                    bad("cmap4-reservedPad", format!("{:?}", be16(sub, 14 + segx2)));
                }
                let ends = 14;
                let starts = ends + segx2 + 2;
                let deltas = starts + segx2;
                let ranges = deltas + segx2;
                let mut last_end: Option<u16> = None;
                for s in 0..seg {
                    let e = be16(sub, ends + 2 * s).unwrap();
                    let st = be16(sub, starts + 2 * s).unwrap();
                    let ro = usize::from(be16(sub, ranges + 2 * s).unwrap());
                    if st > e {
                        bad("cmap4-segment", format!("start {} > end {}", st, e));
                    }
                    if let Some(le) = last_end {
                        if e <= le || st <= le {
                            bad("cmap4-order", format!("segment {} not after {}", s, le));
                        }
                    }
                    last_end = Some(e);
                    if ro != 0 {
                        let first = ranges + 2 * s + ro;
                        let lastp = first + 2 * usize::from(e.saturating_sub(st));
                        if ro % 2 != 0 || lastp + 2 > len {
                            bad("cmap4-idRangeOffset", format!("segment {} offset {}", s, ro));
                        }
                    }
                }
                if last_end != Some(0xFFFF) {
                    bad("cmap4-final-segment", format!("{:?}", last_end));
                }
            }
            Some(12) => {
                let len = be32(sub, 4).unwrap_or(0) as usize;
                let groups = be32(sub, 12).unwrap_or(0) as usize;
                if len > sub.len() || 16 + 12 * groups != len {
                    bad("cmap12-header", format!("len={} groups={}", len, groups));
                    continue;
                }
                let mut last: Option<u32> = None;
                for g in 0..groups {
                    let s = be32(sub, 16 + 12 * g).unwrap();
                    let e = be32(sub, 20 + 12 * g).unwrap();
                    if s > e {
                        bad("cmap12-group", format!("start {} > end {}", s, e));
                    }
                    if let Some(l) = last {
                        if s <= l {
                            bad("cmap12-order", format!("group {} starts at {} <= {}", g, s, l));
                        }
                    }
                    last = Some(e);
                }
            }
            _ => {}
        }
    }
}

fn self_load(w: &Written, fault_free: bool, problems: &mut Problems) {
    let mut bad = |name: &str, msg: String| problems.push((name.to_string(), msg));
    let scope = ReadScope::new(&w.bytes);
    let fd = match scope.read::<FontData<'_>>() {
        Ok(fd) => fd,
        Err(e) => {
            bad("self-load-read", format!("{:?}", e));
            return;
        }
    };
    let provider = match fd.table_provider(0) {
        Ok(p) => p,
        Err(e) => {
            bad("self-load-provider", format!("{:?}", e));
            return;
        }
    };
    if w.kind == WrittenKind::SfntNoCmap {
        return;
    }
    let has = |t: u32| provider.has_table(t);
    if w.kind == WrittenKind::Whole && !(has(tag::CMAP) && has(tag::HHEA) && has(tag::HMTX)) {
        return;
    }
    if w.kind == WrittenKind::Whole && !fault_free {
        return;
    }
    let mut font = match Font::new(provider) {
        Ok(f) => f,
        Err(e) => {
            bad("self-load-font", format!("Font::new failed: {:?}", e));
            return;
        }
    };
    query_every_glyph(&mut font, w.glyphs, w.kind, fault_free, w.kind == WrittenKind::Instance, w.source_ok.as_deref(), w.source_advance.as_deref(), problems);
}

fn query_every_glyph<P: FontTableProvider + allsorts::tables::SfntVersion>(
    font: &mut Font<P>,
    glyphs: Option<usize>,
    kind: WrittenKind,
    fault_free: bool,
    check_static: bool,
    source_ok: Option<&[bool]>,
    source_advance: Option<&[bool]>,
    problems: &mut Problems,
) {
    let mut bad = |name: &str, msg: String| problems.push((name.to_string(), msg));
    let n = font.num_glyphs();
    if let Some(g) = glyphs {
        if usize::from(n) < g && kind != WrittenKind::Whole {
            bad(
                "self-load-glyph-count",
                format!("{} glyphs requested, output has {}", g, n),
            );
        }
    }
    if font.is_variable() && check_static {
        bad("instance-still-variable", "fvar present".into());
    }
    let cap = n.min(3000);
    for g in 0..cap {
        if font.horizontal_advance(g).is_none() {
            // for a damaged source only when the source itself gave an advance for that glyph
            if fault_free || source_advance.and_then(|v| v.get(usize::from(g))) == Some(&true) {
                bad("self-load-advance", format!("glyph {} of {} has no advance", g, n));
                break;
            }
        }
    }
    let _ = font.glyph_names(&(0..cap.min(300)).collect::<Vec<u16>>());
    // Outlines.
    let p = &font.font_table_provider;
    let mut sink = NullSink(0);
    if let (Ok(Some(glyf_d)), Ok(Some(loca_d))) = (p.table_data(tag::GLYF), p.table_data(tag::LOCA)) {
        let head = p
            .table_data(tag::HEAD)
            .ok()
            .flatten()
            .and_then(|d| ReadScope::new(&d).read::<HeadTable>().ok());
        let maxp = p
            .table_data(tag::MAXP)
            .ok()
            .flatten()
            .and_then(|d| ReadScope::new(&d).read::<MaxpTable>().ok());
        if let (Some(head), Some(maxp)) = (head, maxp) {
            match ReadScope::new(&loca_d)
                .read_dep::<LocaTable<'_>>((usize::from(maxp.num_glyphs), head.index_to_loc_format))
            {
                Ok(loca) => match ReadScope::new(&glyf_d).read_dep::<GlyfTable<'_>>(&loca) {
                    Ok(mut glyf) => {
                        for g in 0..cap {
                            if let Err(e) = glyf.visit(g, &mut sink) {
                                if fault_free {
                                    bad("self-load-outline", format!("glyph {}: {:?}", g, e));
                                    break;
                                } else if source_ok.and_then(|v| v.get(usize::from(g))) == Some(&true) {
                                    bad(
                                        "self-load-outline-regression",
                                        format!("glyph {} was readable in the source but not in the output: {:?}", g, e),
                                    );
                                    break;
                                }
                            }
                        }
                    }
                    Err(e) => bad("self-load-glyf", format!("{:?}", e)),
                },
                Err(e) => bad("self-load-loca", format!("{:?}", e)),
            }
        }
    } else if let Ok(Some(cff_d)) = p.table_data(tag::CFF) {
        match ReadScope::new(&cff_d).read::<CFF<'_>>() {
            Ok(mut cff) => {
                for g in 0..cap {
                    if let Err(e) = cff.visit(g, &mut sink) {
                        if fault_free {
                            bad("self-load-outline", format!("glyph {}: {:?}", g, e));
                            break;
                        } else if source_ok.and_then(|v| v.get(usize::from(g))) == Some(&true) {
                            bad(
                                "self-load-outline-regression",
                                format!("glyph {} was readable in the source but not in the output: {:?}", g, e),
                            );
                            break;
                        }
                    }
                }
            }
            Err(e) => bad("self-load-cff", format!("{:?}", e)),
        }
    }
}

fn bare_cff(w: &Written, fault_free: bool, problems: &mut Problems) {
    if fault_free {
        check_cff_counts(&w.bytes, None, problems);
    }
    match ReadScope::new(&w.bytes).read::<CFF<'_>>() {
        Ok(mut cff) => {
            let n = w.glyphs.unwrap_or(0).min(3000) as u16;
            let mut sink = NullSink(0);
            for g in 0..n {
                if let Err(e) = cff.visit(g, &mut sink) {
                    if fault_free {
                        problems.push((
                            "self-load-outline".into(),
                            format!("bare CFF glyph {}: {:?}", g, e),
                        ));
                        break;
                    } else if w.source_ok.as_deref().and_then(|v| v.get(usize::from(g))) == Some(&true) {
                        problems.push((
                            "self-load-outline-regression".into(),
                            format!("bare CFF glyph {} was readable in the source but not in the output: {:?}", g, e),
                        ));
                        break;
                    }
                }
            }
        }
        Err(e) => problems.push(("self-load-cff".into(), format!("{:?}", e))),
    }
}

/// Cross-table relations of a table set handed out by a provider (WOFF2 reconstruction).
pub fn validate_reconstructed(tables: &[(u32, Vec<u8>)], rel: Relations) -> Problems {
    let mut problems = Vec::new();
    let ts: Vec<Table<'_>> = tables
        .iter()
        .map(|(t, d)| Table {
            tag: *t,
            checksum: 0,
            offset: 0,
            length: d.len(),
            data: d,
        })
        .collect();
    cross_table(&ts, WrittenKind::Instance, rel, &mut problems);
    problems
}

/// The library can load a provider's tables and query every glyph.
pub fn self_load_provider<P: FontTableProvider + allsorts::tables::SfntVersion>(provider: P, problems: &mut Problems) {
    let has = |t: u32| provider.has_table(t);
    if !(has(tag::CMAP) && has(tag::HHEA) && has(tag::HMTX)) {
        return;
    }
    let mut font = match Font::new(provider) {
        Ok(f) => f,
        Err(e) => {
            problems.push(("self-load-font".into(), format!("Font::new failed: {:?}", e)));
            return;
        }
    };
    query_every_glyph(&mut font, None, WrittenKind::Instance, true, false, None, None, problems);
}

/// `source_loadable`: `Font::new` succeeds on the source provider. The self-load half is a
/// statement about the writer only when the source itself is loadable (whole_font and
/// instance copy e.g. cmap through byte for byte; a source without a usable cmap cannot yield
/// an output with one).
pub fn validate(w: &Written, fault_free: bool, source_loadable: bool) -> Problems {
    let mut problems = Vec::new();
    if w.kind == WrittenKind::BareCff {
        bare_cff(w, fault_free, &mut problems);
        return problems;
    }
    let tables = validate_container(&w.bytes, &mut problems);
    if let Some(tables) = tables {
        // Cross-table relations: the property lists them for subsets and instances (and
        // WOFF2 reconstructions), not for whole_font, which copies tables verbatim; and they
        // are only asserted for fault-free sources.
        if fault_free && w.kind != WrittenKind::Whole {
            cross_table(&tables, w.kind, ALL_RELATIONS, &mut problems);
        } else if w.kind == WrittenKind::Instance {
            // Under faults: the one relation that lies inside a single table the instancer
            // re-serialises from what it parsed - a version 2.0 post table holds the index array
            // it declares and every custom name its indices refer to (nothing is compared with
            // other tables, which a damaged source may legitimately contradict).
            if let Some(post) = tables.iter().find(|t| t.tag == tag::POST) {
                if be32(post.data, 0) == Some(0x0002_0000) {
                    if let Some(n) = be16(post.data, 32) {
                        check_post_v2(post.data, usize::from(n), &mut problems);
                    }
                }
            }
        }
        if problems.is_empty() && source_loadable {
            self_load(w, fault_free, &mut problems);
        }
    }
    problems
}

//! Deterministic generator of well-formed AAT `morx` tables (version 2 and 3).
//!
//! std only, no `unsafe`, no external crates.
//!
//! Entry points:
//! * [`build_morx`]        – the table bytes
//! * [`describe`]          – one-line human readable description of the same variant
//! * [`subtable_summary`]  – machine readable per-subtable info (kind, flags, active-by-default)
//! * [`build_morx_hazard`] – small hand-made tables that are valid per Apple's spec but that allsorts
//!                           mishandles (see NOTES.md); never produced by `build_morx`
//!
//! Layout facts the generator relies on (all checked against allsorts' parser, and Apple's spec):
//! * header: version u16, unused u16, nChains u32
//! * chain: defaultFlags u32, chainLength u32 (includes the 16 byte header, the feature entries, every
//!   subtable, and for version 3 the subtable glyph coverage array), nFeatureEntries u32, nSubtables u32
//! * feature entry: featureType u16, featureSetting u16, enableFlags u32, disableFlags u32
//! * subtable: length u32 (includes its own 12 byte header; always a multiple of 4), coverage u32
//!   (type in the low byte), subFeatureFlags u32
//! * STX header offsets are relative to the start of the subtable BODY (just after the 12 byte header)
//! * state array: rows of nClasses u16 entry indices; newState values are row indices
//! * contextual: substitutionTable offset -> array of u32 offsets (relative to that array) to lookup tables;
//!   the first lookup table immediately follows the offset array and tables are in ascending order
//!   (allsorts derives the number of tables from `first_offset / 4`)
//! * ligature actions: u32, bit31 last, bit30 store, low 30 bits signed offset added to the popped glyph id
//!   to index the component table (u16 units); component values are summed to index the ligature list
//! * lookup tables: formats 0, 2, 4, 6, 8, 10; format 4 segment offsets are relative to the start of the
//!   lookup table; formats 2/4/6 carry a BinSrchHeader and (usually) a 0xFFFF terminator unit
//!
//! Ordering hint: rules for contextual and ligature subtables are keyed so that they fire on the adjacent pair
//! (`glyphs[0]`, `glyphs[1]`) and, more generally, on (`glyphs[i]`, `glyphs[i+1]`)-like pairs (classes are
//! assigned round-robin over the list).  Passing `glyphs` in order of first appearance in the text therefore
//! maximises the share of variants in which a substitution fires.  Nothing breaks if the order is different.

use std::fmt::Write as _;

// ---------------------------------------------------------------------------------------------
// Public API
// ---------------------------------------------------------------------------------------------

/// Build a well-formed AAT `morx` table (version 2 or 3) for a font with `num_glyphs` glyphs.
/// `glyphs`: glyph ids (all < num_glyphs, distinct, non-zero, at least 2, typically 4..40) that the text to be
/// shaped will contain; substitutions are keyed on these so that they actually fire.
/// `variant`: seed; every structural choice is a pure function of (num_glyphs, glyphs, variant).
pub fn build_morx(num_glyphs: u16, glyphs: &[u16], variant: u64) -> Vec<u8> {
    serialize(&build_plan(num_glyphs, glyphs, variant), num_glyphs)
}

/// Human-readable description of what variant builds (for logs).
pub fn describe(num_glyphs: u16, glyphs: &[u16], variant: u64) -> String {
    let plan = build_plan(num_glyphs, glyphs, variant);
    let mut s = String::new();
    let _ = write!(s, "morx v{} variant={} chains={}", plan.version, variant, plan.chains.len());
    if let Some(n) = plan.note {
        let _ = write!(s, " [{}]", n);
    }
    for (ci, c) in plan.chains.iter().enumerate() {
        let _ = write!(
            s,
            " | chain{} default=0x{:08x} eff(default-mask)=0x{:08x} features=[",
            ci, c.default_flags, c.effective_default
        );
        for (i, f) in c.features.iter().enumerate() {
            if i > 0 {
                s.push(',');
            }
            let _ = write!(s, "({},{} +0x{:x} &0x{:08x})", f.ftype, f.setting, f.enable, f.disable);
        }
        s.push_str("] subtables=[");
        for (i, st) in c.subtables.iter().enumerate() {
            if i > 0 {
                s.push_str("; ");
            }
            let _ = write!(
                s,
                "#{} {} cov=0x{:08x} sff=0x{:08x} {} len={} {{{}}}",
                i,
                kind_name(st.kind),
                st.coverage,
                st.sub_feature_flags,
                if st.active { "ACTIVE" } else { "inactive" },
                12 + st.body.len(),
                st.desc
            );
        }
        s.push(']');
    }
    s
}

/// Per-subtable facts about a variant, in chain order.
#[derive(Debug, Clone, PartialEq, Eq)]
pub struct SubtableSummary {
    pub chain: usize,
    pub index: usize,
    /// morx subtable type: 0 rearrangement, 1 contextual, 2 ligature, 4 non-contextual, 5 insertion
    pub kind: u8,
    /// full coverage word (type in the low byte, direction flags in the top nibble)
    pub coverage: u32,
    pub sub_feature_flags: u32,
    /// true if `sub_feature_flags` intersects the chain's default flags
    pub intersects_default_flags: bool,
    /// true if the subtable is selected when shaping with allsorts' `FeatureMask::default()`
    pub active_with_default_mask: bool,
}

pub fn subtable_summary(num_glyphs: u16, glyphs: &[u16], variant: u64) -> Vec<SubtableSummary> {
    let plan = build_plan(num_glyphs, glyphs, variant);
    let mut v = Vec::new();
    for (ci, c) in plan.chains.iter().enumerate() {
        for (i, st) in c.subtables.iter().enumerate() {
            v.push(SubtableSummary {
                chain: ci,
                index: i,
                kind: st.kind,
                coverage: st.coverage,
                sub_feature_flags: st.sub_feature_flags,
                intersects_default_flags: st.sub_feature_flags & c.default_flags != 0,
                active_with_default_mask: st.active,
            });
        }
    }
    v
}

/// Version of the table that `build_morx` emits for this variant (2 or 3).
pub fn variant_version(num_glyphs: u16, glyphs: &[u16], variant: u64) -> u16 {
    build_plan(num_glyphs, glyphs, variant).version
}

// ---------------------------------------------------------------------------------------------
// RNG (SplitMix64)
// ---------------------------------------------------------------------------------------------

struct Rng(u64);

impl Rng {
    fn seed(num_glyphs: u16, glyphs: &[u16], variant: u64) -> Rng {
        let mut r = Rng(variant ^ 0x6d6f_7278_5f62_6c64);
        r.0 = r.next() ^ (num_glyphs as u64).wrapping_mul(0x9E37_79B9_7F4A_7C15);
        for &g in glyphs {
            r.0 = r.next() ^ (g as u64);
        }
        r.next();
        r
    }
    fn next(&mut self) -> u64 {
        self.0 = self.0.wrapping_add(0x9E37_79B9_7F4A_7C15);
        let mut z = self.0;
        z = (z ^ (z >> 30)).wrapping_mul(0xBF58_476D_1CE4_E5B9);
        z = (z ^ (z >> 27)).wrapping_mul(0x94D0_49BB_1331_11EB);
        z ^ (z >> 31)
    }
    /// uniform in 0..n (n > 0)
    fn below(&mut self, n: u32) -> u32 {
        ((self.next() >> 32) as u32) % n.max(1)
    }
    fn chance(&mut self, num: u32, den: u32) -> bool {
        self.below(den) < num
    }
    fn pick<T: Copy>(&mut self, s: &[T]) -> T {
        s[self.below(s.len() as u32) as usize]
    }
    fn shuffle<T>(&mut self, s: &mut [T]) {
        for i in (1..s.len()).rev() {
            let j = self.below(i as u32 + 1) as usize;
            s.swap(i, j);
        }
    }
}

// ---------------------------------------------------------------------------------------------
// Byte helpers
// ---------------------------------------------------------------------------------------------

fn be16(v: &mut Vec<u8>, x: u16) {
    v.extend_from_slice(&x.to_be_bytes());
}
fn be32(v: &mut Vec<u8>, x: u32) {
    v.extend_from_slice(&x.to_be_bytes());
}
fn pad4(v: &mut Vec<u8>) {
    while v.len() % 4 != 0 {
        v.push(0);
    }
}
fn u16s(vals: &[u16]) -> Vec<u8> {
    let mut o = Vec::with_capacity(vals.len() * 2);
    for &x in vals {
        be16(&mut o, x);
    }
    o
}

// ---------------------------------------------------------------------------------------------
// Lookup tables (formats 0, 2, 4, 6, 8, 10)
// ---------------------------------------------------------------------------------------------

const FORMATS: [u16; 6] = [0, 2, 4, 6, 8, 10];
/// Trimmed-array formats (8, 10) are replaced by format 6 if the glyph span exceeds this.
const TRIM_SPAN_LIMIT: u32 = 4096;
/// Format 0 (2 * num_glyphs bytes) is only used for non-primary tables in fonts up to this size.
const FMT0_SECONDARY_LIMIT: u16 = 4096;

/// Value for glyphs that are inside the table's domain but not listed in the map
/// (format 0: every glyph of the font; formats 8/10: holes in the trimmed range).
#[derive(Clone, Copy)]
enum Fill {
    /// substitution tables: the glyph maps to itself
    Identity,
    /// class tables: class 1 (out of bounds)
    Const(u16),
}

#[derive(Clone, Copy)]
struct LkOpts {
    /// formats 2/4/6: 0 = terminator unit present and counted in nUnits, 1 = present but not counted,
    /// 2 = absent
    term: u8,
    /// format 10: prefer unit size 1 when every value fits in a byte
    unit1: bool,
}

fn bin_srch_header(o: &mut Vec<u8>, unit_size: u16, n_units: u16) {
    let mut sel: u16 = 0;
    while n_units > 0 && (1u32 << (sel + 1)) <= n_units as u32 {
        sel += 1;
    }
    let search_range = if n_units == 0 { 0 } else { unit_size.wrapping_mul(1 << sel) };
    be16(o, unit_size);
    be16(o, n_units);
    be16(o, search_range);
    be16(o, if n_units == 0 { 0 } else { sel });
    be16(o, unit_size.wrapping_mul(n_units).wrapping_sub(search_range));
}

/// Emit a lookup table. `map_in`: (glyph, value) pairs, at least one. Returns (bytes, short description).
fn emit_lookup(fmt: u16, map_in: &[(u16, u16)], fill: Fill, num_glyphs: u16, opts: LkOpts) -> (Vec<u8>, String) {
    let mut map = map_in.to_vec();
    map.sort_by_key(|e| e.0);
    map.dedup_by_key(|e| e.0);
    let fillv = |g: u16| match fill {
        Fill::Identity => g,
        Fill::Const(c) => c,
    };
    let min = map[0].0;
    let max = map[map.len() - 1].0;
    let span = (max - min) as u32 + 1;
    let mut fmt = fmt;
    let mut note = "";
    if (fmt == 8 || fmt == 10) && span > TRIM_SPAN_LIMIT {
        fmt = 6;
        note = "(span-fallback)";
    }
    let term_counted = if opts.term == 0 { 1u16 } else { 0 };
    let mut o = Vec::new();
    be16(&mut o, fmt);
    let desc;
    match fmt {
        0 => {
            let mut vals: Vec<u16> = (0..num_glyphs).map(fillv).collect();
            for &(g, v) in &map {
                if (g as usize) < vals.len() {
                    vals[g as usize] = v;
                }
            }
            o.extend_from_slice(&u16s(&vals));
            desc = "f0".to_string();
        }
        2 => {
            // merge runs of consecutive glyph ids that share a value
            let mut segs: Vec<(u16, u16, u16)> = Vec::new(); // first, last, value
            for &(g, v) in &map {
                match segs.last_mut() {
                    Some(s) if s.2 == v && s.1 as u32 + 1 == g as u32 => s.1 = g,
                    _ => segs.push((g, g, v)),
                }
            }
            bin_srch_header(&mut o, 6, segs.len() as u16 + term_counted);
            for s in &segs {
                be16(&mut o, s.1);
                be16(&mut o, s.0);
                be16(&mut o, s.2);
            }
            if opts.term != 2 {
                be16(&mut o, 0xFFFF);
                be16(&mut o, 0xFFFF);
                be16(&mut o, 0);
            }
            desc = format!("f2/{}seg/t{}", segs.len(), opts.term);
        }
        4 => {
            let mut runs: Vec<(u16, u16, usize)> = Vec::new(); // first, last, index of first value
            for (i, &(g, _)) in map.iter().enumerate() {
                match runs.last_mut() {
                    Some(r) if r.1 as u32 + 1 == g as u32 => r.1 = g,
                    _ => runs.push((g, g, i)),
                }
            }
            let n_term = if opts.term != 2 { 1 } else { 0 };
            let values_start = 12 + (runs.len() + n_term) * 6;
            bin_srch_header(&mut o, 6, runs.len() as u16 + term_counted);
            for r in &runs {
                be16(&mut o, r.1);
                be16(&mut o, r.0);
                be16(&mut o, (values_start + 2 * r.2) as u16);
            }
            if opts.term != 2 {
                be16(&mut o, 0xFFFF);
                be16(&mut o, 0xFFFF);
                be16(&mut o, 0);
            }
            for &(_, v) in &map {
                be16(&mut o, v);
            }
            desc = format!("f4/{}seg/t{}", runs.len(), opts.term);
        }
        6 => {
            bin_srch_header(&mut o, 4, map.len() as u16 + term_counted);
            for &(g, v) in &map {
                be16(&mut o, g);
                be16(&mut o, v);
            }
            if opts.term != 2 {
                be16(&mut o, 0xFFFF);
                be16(&mut o, 0xFFFF);
            }
            desc = format!("f6/{}ent/t{}{}", map.len(), opts.term, note);
        }
        8 | 10 => {
            let mut vals: Vec<u16> = (min..=max).map(fillv).collect();
            for &(g, v) in &map {
                vals[(g - min) as usize] = v;
            }
            if fmt == 8 {
                be16(&mut o, min);
                be16(&mut o, vals.len() as u16);
                o.extend_from_slice(&u16s(&vals));
                desc = format!("f8/{}", vals.len());
            } else {
                let one = opts.unit1 && vals.iter().all(|&v| v <= 0xFF);
                be16(&mut o, if one { 1 } else { 2 });
                be16(&mut o, min);
                be16(&mut o, vals.len() as u16);
                if one {
                    for &v in &vals {
                        o.push(v as u8);
                    }
                } else {
                    o.extend_from_slice(&u16s(&vals));
                }
                desc = format!("f10/u{}/{}", if one { 1 } else { 2 }, vals.len());
            }
        }
        _ => unreachable!("unsupported lookup format"),
    }
    (o, desc)
}

// ---------------------------------------------------------------------------------------------
// STX (extended state table) assembly
// ---------------------------------------------------------------------------------------------

/// Assemble an extended-state-table subtable body: STX header (nClasses, classTable, stateArray, entryTable
/// offsets) followed by one u32 offset per `extras` block, then the blocks themselves in `order`.
/// Block ids: 0 class table, 1 state array, 2 entry table, 3.. extras. Every block starts 4-byte aligned.
fn assemble_stx(
    n_classes: u32,
    class_table: &[u8],
    rows: &[Vec<u16>],
    entries: &[u8],
    extras: &[Vec<u8>],
    order: &[usize],
) -> Vec<u8> {
    let mut state = Vec::new();
    for r in rows {
        debug_assert_eq!(r.len() as u32, n_classes);
        state.extend_from_slice(&u16s(r));
    }
    let mut blocks: Vec<&[u8]> = vec![class_table, &state, entries];
    for e in extras {
        blocks.push(e);
    }
    let header_len = 16 + 4 * extras.len();
    let mut offsets = vec![0u32; blocks.len()];
    let mut data: Vec<u8> = Vec::new();
    for &b in order {
        while (header_len + data.len()) % 4 != 0 {
            data.push(0);
        }
        offsets[b] = (header_len + data.len()) as u32;
        data.extend_from_slice(blocks[b]);
    }
    let mut o = Vec::with_capacity(header_len + data.len() + 4);
    be32(&mut o, n_classes);
    for off in &offsets {
        be32(&mut o, *off);
    }
    o.extend_from_slice(&data);
    pad4(&mut o);
    o
}

fn block_order(rng: &mut Rng, n_blocks: usize) -> Vec<usize> {
    let mut order: Vec<usize> = (0..n_blocks).collect();
    if rng.chance(1, 3) {
        rng.shuffle(&mut order);
    }
    order
}

fn order_desc(order: &[usize]) -> String {
    let canonical = order.iter().enumerate().all(|(i, &b)| i == b);
    if canonical {
        "canon".to_string()
    } else {
        order.iter().map(|b| b.to_string()).collect::<Vec<_>>().join("")
    }
}

// ---------------------------------------------------------------------------------------------
// Plan
// ---------------------------------------------------------------------------------------------

struct FeatureEntry {
    ftype: u16,
    setting: u16,
    enable: u32,
    disable: u32,
}

struct SubPlan {
    kind: u8,
    coverage: u32,
    sub_feature_flags: u32,
    active: bool,
    body: Vec<u8>,
    /// glyphs the subtable looks at (for the version 3 subtable glyph coverage bitfield)
    covered: Vec<u16>,
    desc: String,
}

struct ChainPlan {
    default_flags: u32,
    effective_default: u32,
    features: Vec<FeatureEntry>,
    subtables: Vec<SubPlan>,
}

struct Plan {
    version: u16,
    chains: Vec<ChainPlan>,
    note: Option<&'static str>,
}

fn kind_name(k: u8) -> &'static str {
    match k {
        0 => "rearrangement(0)",
        1 => "contextual(1)",
        2 => "ligature(2)",
        4 => "noncontextual(4)",
        5 => "insertion(5)",
        _ => "?",
    }
}

/// Shared generation context.
struct Ctx<'a> {
    rng: Rng,
    num_glyphs: u16,
    /// sanitised input list
    glyphs: &'a [u16],
    /// rotating lookup-format counter
    fmt_counter: u32,
}

impl<'a> Ctx<'a> {
    /// Next lookup format from the rotation. `primary` tables may use format 0 in fonts of any size.
    fn next_fmt(&mut self, primary: bool) -> u16 {
        let f = FORMATS[(self.fmt_counter % 6) as usize];
        self.fmt_counter += 1;
        if f == 0 && !primary && self.num_glyphs > FMT0_SECONDARY_LIMIT {
            6
        } else {
            f
        }
    }
    fn lk_opts(&mut self) -> LkOpts {
        LkOpts { term: self.rng.pick(&[0u8, 0, 1, 1, 2]), unit1: self.rng.chance(1, 2) }
    }
    /// A substitution target: non-zero, < num_glyphs, != avoid.
    fn target(&mut self, avoid: u16) -> u16 {
        for _ in 0..8 {
            let t = if self.rng.chance(1, 3) {
                self.rng.pick(self.glyphs)
            } else {
                1 + self.rng.below(self.num_glyphs as u32 - 1) as u16
            };
            if t != avoid && t != 0 && t < self.num_glyphs {
                return t;
            }
        }
        if avoid == 1 {
            2
        } else {
            1
        }
    }
}

/// Round-robin assignment of (up to `cap`) glyphs of `present` to `m` groups.
/// With `span_limit`, a glyph further than the limit from its group's first member is left out.
fn make_groups(present: &[u16], m: usize, cap: usize, span_limit: Option<i32>) -> Vec<Vec<u16>> {
    let n = present.len().min(cap);
    let mut groups: Vec<Vec<u16>> = vec![Vec::new(); m];
    for p in 0..n {
        let gi = p % m;
        let g = present[p];
        if let (Some(lim), Some(&first)) = (span_limit, groups[gi].first()) {
            if (g as i32 - first as i32).abs() > lim {
                continue;
            }
        }
        groups[gi].push(g);
    }
    groups
}

fn class_map(groups: &[Vec<u16>]) -> Vec<(u16, u16)> {
    let mut m = Vec::new();
    for (gi, g) in groups.iter().enumerate() {
        for &x in g {
            m.push((x, 4 + gi as u16));
        }
    }
    m
}

// ---------------------------------------------------------------------------------------------
// Non-contextual subtable (type 4)
// ---------------------------------------------------------------------------------------------

fn build_noncontextual(cx: &mut Ctx, present: &mut Vec<u16>, fmt: u16, update_present: bool) -> (Vec<u8>, String, Vec<u16>) {
    let n = present.len();
    // always include present[0]; the rest with probability 1/2
    let mut map: Vec<(u16, u16)> = Vec::new();
    for i in 0..n.min(40) {
        if i == 0 || cx.rng.chance(1, 2) {
            let src = present[i];
            let t = cx.target(src);
            map.push((src, t));
        }
    }
    let opts = cx.lk_opts();
    let (mut body, d) = emit_lookup(fmt, &map, Fill::Identity, cx.num_glyphs, opts);
    pad4(&mut body);
    let covered: Vec<u16> = map.iter().map(|e| e.0).collect();
    if update_present {
        for &(s, t) in &map {
            if let Some(p) = present.iter().position(|&x| x == s) {
                present[p] = t;
            }
        }
        dedup_keep_first(present);
    }
    (body, format!("lookup={} n={}", d, map.len()), covered)
}

fn dedup_keep_first(v: &mut Vec<u16>) {
    let mut seen: Vec<u16> = Vec::new();
    v.retain(|x| {
        if seen.contains(x) {
            false
        } else {
            seen.push(*x);
            true
        }
    });
}

// ---------------------------------------------------------------------------------------------
// Contextual subtable (type 1)
// ---------------------------------------------------------------------------------------------

const CTX_SET_MARK: u16 = 0x8000;
const CTX_DONT_ADVANCE: u16 = 0x4000;

fn build_contextual(cx: &mut Ctx, present: &[u16], class_fmt: u16, primary: bool) -> (Vec<u8>, String, Vec<u16>) {
    let m = (1 + cx.rng.below(3) as usize).min(present.len()).max(1);
    let groups = make_groups(present, m, 24, None);
    let extra_class = cx.rng.chance(1, 4) as usize;
    let n_classes = 4 + m + extra_class;

    let mut tables: Vec<Vec<(u16, u16)>> = Vec::new();
    let mut entries: Vec<(u16, u16, u16, u16)> = vec![(0, 0, 0xFFFF, 0xFFFF)];
    fn entry(entries: &mut Vec<(u16, u16, u16, u16)>, e: (u16, u16, u16, u16)) -> u16 {
        if let Some(p) = entries.iter().position(|x| *x == e) {
            p as u16
        } else {
            entries.push(e);
            (entries.len() - 1) as u16
        }
    }
    fn new_table(cx: &mut Ctx, tables: &mut Vec<Vec<(u16, u16)>>, group: &[u16]) -> u16 {
        let map: Vec<(u16, u16)> = group.iter().map(|&g| (g, cx.target(g))).collect();
        tables.push(map);
        (tables.len() - 1) as u16
    }

    // rows 0 and 1 are the start states; mark states follow
    let mut rows: Vec<Vec<u16>> = vec![vec![0u16; n_classes]; 2];
    // (start group, state index)
    let mut mark_states: Vec<(usize, u16)> = Vec::new();
    let mut kinds = String::new();

    for gi in 0..m {
        let roll = cx.rng.below(10);
        // 0 none, 1 unconditional substitution of the current glyph, 2 set mark and go to a mark state
        let behaviour = if gi == 0 {
            if roll < 5 {
                1
            } else {
                2
            }
        } else if roll < 4 {
            0
        } else if roll < 7 {
            1
        } else {
            2
        };
        let behaviour = if behaviour == 2 && mark_states.len() >= 2 { 1 } else { behaviour };
        match behaviour {
            1 => {
                let t = new_table(cx, &mut tables, &groups[gi]);
                let e = entry(&mut entries, (0, 0, 0xFFFF, t));
                rows[0][4 + gi] = e;
                rows[1][4 + gi] = e;
                let _ = write!(kinds, "g{}:cur ", gi);
            }
            2 => {
                let s = (2 + mark_states.len()) as u16;
                mark_states.push((gi, s));
                let cur = if cx.rng.chance(1, 4) { new_table(cx, &mut tables, &groups[gi]) } else { 0xFFFF };
                let e = entry(&mut entries, (s, CTX_SET_MARK, 0xFFFF, cur));
                rows[0][4 + gi] = e;
                rows[1][4 + gi] = e;
                let _ = write!(kinds, "g{}:{}->s{} ", gi, if cur != 0xFFFF { "cur+mark" } else { "mark" }, s);
            }
            _ => {}
        }
    }

    for &(a, s) in &mark_states.clone() {
        let fail = if cx.rng.chance(1, 2) { 0 } else { entry(&mut entries, (0, CTX_DONT_ADVANCE, 0xFFFF, 0xFFFF)) };
        let stay = entry(&mut entries, (s, 0, 0xFFFF, 0xFFFF));
        let mut row = vec![fail; n_classes];
        row[0] = 0; // end of text
        row[1] = if cx.rng.chance(1, 2) { stay } else { fail }; // out of bounds: skip over or give up
        row[2] = stay; // deleted glyph: ignore
        row[3] = 0; // end of line
        for b in 0..m {
            let forced = a == 0 && b == 1 % m;
            if !(forced || cx.rng.chance(1, 2)) {
                continue;
            }
            let which = cx.rng.below(3);
            let mark_t = if which != 1 { new_table(cx, &mut tables, &groups[a]) } else { 0xFFFF };
            let cur_t = if which != 0 { new_table(cx, &mut tables, &groups[b]) } else { 0xFFFF };
            let roll = cx.rng.below(10);
            let (e, how) = if roll < 7 {
                ((0, 0, mark_t, cur_t), "")
            } else if roll < 9 {
                // stay in the mark state; sometimes re-mark at the current glyph
                if cx.rng.chance(1, 2) {
                    ((s, CTX_SET_MARK, mark_t, cur_t), "/stay+remark")
                } else {
                    ((s, 0, mark_t, cur_t), "/stay")
                }
            } else {
                // substitute, then re-process the (new) current glyph in the start state
                ((0, CTX_DONT_ADVANCE, mark_t, cur_t), "/dont-advance")
            };
            row[4 + b] = entry(&mut entries, e);
            let _ = write!(kinds, "s{}+g{}:{}{} ", s, b, ["mark", "cur", "mark+cur"][which as usize], how);
        }
        rows.push(row);
    }

    // class table
    let opts = cx.lk_opts();
    let (class_bytes, class_desc) = emit_lookup(class_fmt, &class_map(&groups), Fill::Const(1), cx.num_glyphs, opts);

    // entry table
    let mut entry_bytes = Vec::new();
    for e in &entries {
        be16(&mut entry_bytes, e.0);
        be16(&mut entry_bytes, e.1);
        be16(&mut entry_bytes, e.2);
        be16(&mut entry_bytes, e.3);
    }

    // substitution tables: u32 offsets (relative to the offset array), tables in order right after the array
    let mut subst = Vec::new();
    let mut table_bytes: Vec<Vec<u8>> = Vec::new();
    let mut fmts = String::new();
    for (i, t) in tables.iter().enumerate() {
        let f = cx.next_fmt(primary && i == 0);
        let opts = cx.lk_opts();
        let (mut b, d) = emit_lookup(f, t, Fill::Identity, cx.num_glyphs, opts);
        if b.len() % 2 != 0 {
            b.push(0);
        }
        if i > 0 {
            fmts.push(',');
        }
        fmts.push_str(&d);
        table_bytes.push(b);
    }
    let mut off = 4 * tables.len() as u32;
    for b in &table_bytes {
        be32(&mut subst, off);
        off += b.len() as u32;
    }
    for b in &table_bytes {
        subst.extend_from_slice(b);
    }

    let rows16: Vec<Vec<u16>> = rows;
    let order = block_order(&mut cx.rng, 4);
    let body = assemble_stx(n_classes as u32, &class_bytes, &rows16, &entry_bytes, &[subst], &order);
    let covered: Vec<u16> = groups.iter().flatten().copied().collect();
    let desc = format!(
        "classes={} nClasses={} states={} entries={} rules=[{}] subst=[{}] order={}",
        class_desc,
        n_classes,
        rows16.len(),
        entries.len(),
        kinds.trim_end(),
        fmts,
        order_desc(&order)
    );
    (body, desc, covered)
}

// ---------------------------------------------------------------------------------------------
// Ligature subtable (type 2)
// ---------------------------------------------------------------------------------------------

const LIG_SET_COMPONENT: u16 = 0x8000;
const LIG_DONT_ADVANCE: u16 = 0x4000;
const LIG_PERFORM_ACTION: u16 = 0x2000;
const LIG_ACTION_LAST: u32 = 0x8000_0000;
const LIG_ACTION_STORE: u32 = 0x4000_0000;
const LIG_OFFSET_MASK: u32 = 0x3FFF_FFFF;

/// A component-table block covering min(group)..=max(group): value for the glyph with sorted index `i` is
/// `add + i * stride`; holes are 0. Returns the 30-bit action offset that maps a glyph id onto the block.
fn push_component_block(components: &mut Vec<u16>, sorted_group: &[u16], stride: u32, add: u32) -> u32 {
    let min = sorted_group[0];
    let max = sorted_group[sorted_group.len() - 1];
    let base = components.len() as i64;
    for x in min..=max {
        match sorted_group.binary_search(&x) {
            Ok(i) => components.push((add + i as u32 * stride) as u16),
            Err(_) => components.push(0),
        }
    }
    ((base - min as i64) as i32 as u32) & LIG_OFFSET_MASK
}

#[derive(Clone)]
enum TrieChild {
    None,
    Node(usize),
    Leaf(usize),
}

fn build_ligature(cx: &mut Ctx, present: &[u16], class_fmt: u16) -> (Vec<u8>, String, Vec<u16>) {
    let m = (1 + cx.rng.below(3) as usize).min(present.len()).max(1);
    // components are indexed by glyph id, so keep each group within a narrow glyph id span
    let groups = make_groups(present, m, 24, Some(512));
    let sorted: Vec<Vec<u16>> = groups
        .iter()
        .map(|g| {
            let mut s = g.clone();
            s.sort_unstable();
            s
        })
        .collect();
    let extra_class = cx.rng.chance(1, 4) as usize;
    let n_classes = 4 + m + extra_class;

    // ---- rules: sequences of groups, prefix-free
    let n_rules = 1 + cx.rng.below(3) as usize;
    let mut seqs: Vec<Vec<usize>> = Vec::new();
    for r in 0..n_rules {
        let roll = cx.rng.below(20);
        let mut len = if roll < 14 {
            2
        } else if roll < 19 {
            3
        } else {
            4
        };
        let mut seq: Vec<usize> =
            if r == 0 { (0..len).map(|j| j % m).collect() } else { (0..len).map(|_| cx.rng.below(m as u32) as usize).collect() };
        loop {
            let product: u64 = seq.iter().map(|&g| sorted[g].len() as u64).product();
            if product <= 1024 || len == 2 {
                break;
            }
            len -= 1;
            seq.truncate(len);
        }
        let conflict = seqs.iter().any(|s| {
            let n = s.len().min(seq.len());
            s[..n] == seq[..n]
        });
        if !conflict {
            seqs.push(seq);
        }
    }
    // optional chained rule on rule 0 (ligature + one more component -> bigger ligature)
    let chain_group: Option<usize> = if cx.rng.chance(3, 10) { Some(cx.rng.below(m as u32) as usize) } else { None };

    // ---- trie
    let mut nodes: Vec<Vec<TrieChild>> = vec![vec![TrieChild::None; m]];
    for (r, seq) in seqs.iter().enumerate() {
        let mut n = 0usize;
        for (j, &g) in seq.iter().enumerate() {
            if j + 1 == seq.len() {
                nodes[n][g] = TrieChild::Leaf(r);
            } else {
                n = match nodes[n][g] {
                    TrieChild::Node(c) => c,
                    _ => {
                        nodes.push(vec![TrieChild::None; m]);
                        let c = nodes.len() - 1;
                        nodes[n][g] = TrieChild::Node(c);
                        c
                    }
                };
            }
        }
    }
    let state_of = |node: usize| -> u16 { if node == 0 { 0 } else { node as u16 + 1 } };
    let chain_state: u16 = nodes.len() as u16 + 1;

    // ---- actions, components, ligature list
    let mut actions: Vec<u32> = Vec::new();
    let mut components: Vec<u16> = Vec::new();
    let mut ligatures: Vec<u16> = Vec::new();
    let mut rule_action: Vec<u16> = Vec::new();
    let mut rule0_lig: u16 = 0;
    for (r, seq) in seqs.iter().enumerate() {
        let sizes: Vec<u32> = seq.iter().map(|&g| sorted[g].len() as u32).collect();
        let product: u32 = sizes.iter().product();
        let lig_base = ligatures.len() as u32;
        if r == 0 && chain_group.is_some() {
            rule0_lig = cx.target(0);
            for _ in 0..product {
                ligatures.push(rule0_lig);
            }
        } else {
            for _ in 0..product {
                let t = cx.target(0);
                ligatures.push(t);
            }
        }
        rule_action.push(actions.len() as u16);
        let store_too = cx.rng.chance(1, 2);
        for j in (0..seq.len()).rev() {
            let stride: u32 = sizes[j + 1..].iter().product();
            let add = if j == 0 { lig_base } else { 0 };
            let off = push_component_block(&mut components, &sorted[seq[j]], stride, add);
            let mut a = off;
            if j == 0 {
                a |= LIG_ACTION_LAST;
                if store_too {
                    a |= LIG_ACTION_STORE;
                }
            }
            actions.push(a);
        }
    }
    let mut chain_action: u16 = 0;
    if let Some(h) = chain_group {
        let lig_base = ligatures.len() as u32;
        for _ in 0..sorted[h].len() {
            let t = cx.target(rule0_lig);
            ligatures.push(t);
        }
        chain_action = actions.len() as u16;
        // popped first: the new component (group h)
        let off_h = push_component_block(&mut components, &sorted[h], 1, 0);
        actions.push(off_h);
        // popped second: the ligature produced by rule 0
        let off_l = push_component_block(&mut components, &[rule0_lig], 1, lig_base);
        actions.push(off_l | LIG_ACTION_LAST);
    }

    // ---- entries and state rows
    let mut entries: Vec<(u16, u16, u16)> = vec![(0, 0, 0)];
    fn entry(entries: &mut Vec<(u16, u16, u16)>, e: (u16, u16, u16)) -> u16 {
        if let Some(p) = entries.iter().position(|x| *x == e) {
            p as u16
        } else {
            entries.push(e);
            (entries.len() - 1) as u16
        }
    }
    // failure inside a sequence: A = re-process the glyph in the start state (don't advance), B = just drop back
    let fail_mode_a = !cx.rng.chance(1, 5);
    let fail = if fail_mode_a { entry(&mut entries, (0, LIG_DONT_ADVANCE, 0)) } else { 0 };

    let mut rows: Vec<Vec<u16>> = Vec::new();
    let n_states = nodes.len() + 1 + chain_group.is_some() as usize;
    for st in 0..n_states {
        let is_start = st < 2;
        let is_chain = chain_group.is_some() && st == chain_state as usize;
        let mut row = vec![if is_start { 0 } else { fail }; n_classes];
        row[0] = 0;
        row[3] = 0;
        if !is_start {
            row[2] = entry(&mut entries, (st as u16, 0, 0)); // deleted glyph: stay
        }
        if is_chain {
            let h = chain_group.unwrap_or(0);
            row[4 + h] = entry(&mut entries, (0, LIG_SET_COMPONENT | LIG_PERFORM_ACTION, chain_action));
        } else {
            let node = if is_start { 0 } else { st - 1 };
            for g in 0..m {
                match nodes[node][g] {
                    TrieChild::Node(c) => {
                        row[4 + g] = entry(&mut entries, (state_of(c), LIG_SET_COMPONENT, 0));
                    }
                    TrieChild::Leaf(r) => {
                        let next = if r == 0 && chain_group.is_some() { chain_state } else { 0 };
                        row[4 + g] =
                            entry(&mut entries, (next, LIG_SET_COMPONENT | LIG_PERFORM_ACTION, rule_action[r]));
                    }
                    TrieChild::None => {}
                }
            }
        }
        rows.push(row);
    }

    let opts = cx.lk_opts();
    let (class_bytes, class_desc) = emit_lookup(class_fmt, &class_map(&groups), Fill::Const(1), cx.num_glyphs, opts);
    let mut entry_bytes = Vec::new();
    for e in &entries {
        be16(&mut entry_bytes, e.0);
        be16(&mut entry_bytes, e.1);
        be16(&mut entry_bytes, e.2);
    }
    let mut action_bytes = Vec::new();
    for a in &actions {
        be32(&mut action_bytes, *a);
    }
    let order = block_order(&mut cx.rng, 6);
    let body = assemble_stx(
        n_classes as u32,
        &class_bytes,
        &rows,
        &entry_bytes,
        &[action_bytes, u16s(&components), u16s(&ligatures)],
        &order,
    );
    let covered: Vec<u16> = groups.iter().flatten().copied().collect();
    let negative = actions.iter().filter(|a| *a & 0x2000_0000 != 0).count();
    let desc = format!(
        "classes={} nClasses={} groups={:?} rules={:?}{} states={} entries={} actions={}(neg-offset={}) components={} ligatures={} fail={} order={}",
        class_desc,
        n_classes,
        groups.iter().map(|g| g.len()).collect::<Vec<_>>(),
        seqs,
        match chain_group {
            Some(h) => format!("+chain(g{})", h),
            None => String::new(),
        },
        rows.len(),
        entries.len(),
        actions.len(),
        negative,
        components.len(),
        ligatures.len(),
        if fail_mode_a { "A(dont-advance->0)" } else { "B(drop->0)" },
        order_desc(&order)
    );
    (body, desc, covered)
}

// ---------------------------------------------------------------------------------------------
// Rearrangement (type 0) and insertion (type 5): parsed as opaque bytes by allsorts and never applied,
// but built to Apple's layout anyway.
// ---------------------------------------------------------------------------------------------

fn build_rearrangement(cx: &mut Ctx, present: &[u16], class_fmt: u16) -> (Vec<u8>, String, Vec<u16>) {
    let m = (1 + cx.rng.below(2) as usize).min(present.len()).max(1);
    let groups = make_groups(present, m, 16, None);
    let n_classes = 4 + m;
    // entries: newState u16, flags u16 (0x8000 markFirst, 0x4000 dontAdvance, 0x2000 markLast, 0x000F verb)
    let verb = 1 + cx.rng.below(15) as u16;
    let entries: Vec<(u16, u16)> = vec![(0, 0), (2, 0x8000), (0, 0x2000 | verb), (0, 0x4000)];
    let mut rows = vec![vec![0u16; n_classes]; 3];
    rows[0][4] = 1;
    rows[1][4] = 1;
    for c in 0..n_classes {
        rows[2][c] = 3;
    }
    rows[2][0] = 0;
    rows[2][3] = 0;
    rows[2][4 + (1 % m)] = 2;
    let opts = cx.lk_opts();
    let (class_bytes, class_desc) = emit_lookup(class_fmt, &class_map(&groups), Fill::Const(1), cx.num_glyphs, opts);
    let mut eb = Vec::new();
    for e in &entries {
        be16(&mut eb, e.0);
        be16(&mut eb, e.1);
    }
    let order = block_order(&mut cx.rng, 3);
    let body = assemble_stx(n_classes as u32, &class_bytes, &rows, &eb, &[], &order);
    let covered = groups.iter().flatten().copied().collect();
    (body, format!("classes={} verb={} order={}", class_desc, verb, order_desc(&order)), covered)
}

fn build_insertion(cx: &mut Ctx, present: &[u16], class_fmt: u16) -> (Vec<u8>, String, Vec<u16>) {
    let m = (1 + cx.rng.below(2) as usize).min(present.len()).max(1);
    let groups = make_groups(present, m, 16, None);
    let n_classes = 4 + m;
    let n_ins = 1 + cx.rng.below(3) as u16;
    let mut ins_glyphs = Vec::new();
    for _ in 0..(2 * n_ins) {
        let t = cx.target(0);
        ins_glyphs.push(t);
    }
    // entries: newState, flags, currentInsertIndex, markedInsertIndex
    // flags: 0x8000 setMark, 0x4000 dontAdvance, 0x0800 currentInsertBefore, 0x0400 markedInsertBefore,
    //        0x03E0 currentInsertCount, 0x001F markedInsertCount
    let entries: Vec<(u16, u16, u16, u16)> = vec![
        (0, 0, 0xFFFF, 0xFFFF),
        (2, 0x8000, 0xFFFF, 0xFFFF),
        (0, (n_ins << 5) | 0x0800, 0, 0xFFFF),
        (0, n_ins | 0x0400, 0xFFFF, n_ins),
    ];
    let mut rows = vec![vec![0u16; n_classes]; 3];
    rows[0][4] = 1;
    rows[1][4] = 1;
    rows[2][4] = 3;
    rows[2][4 + (1 % m)] = 2;
    let opts = cx.lk_opts();
    let (class_bytes, class_desc) = emit_lookup(class_fmt, &class_map(&groups), Fill::Const(1), cx.num_glyphs, opts);
    let mut eb = Vec::new();
    for e in &entries {
        be16(&mut eb, e.0);
        be16(&mut eb, e.1);
        be16(&mut eb, e.2);
        be16(&mut eb, e.3);
    }
    let order = block_order(&mut cx.rng, 4);
    let body = assemble_stx(n_classes as u32, &class_bytes, &rows, &eb, &[u16s(&ins_glyphs)], &order);
    let covered = groups.iter().flatten().copied().collect();
    (body, format!("classes={} inserts={} order={}", class_desc, n_ins, order_desc(&order)), covered)
}

// ---------------------------------------------------------------------------------------------
// Chains, features, flags
// ---------------------------------------------------------------------------------------------

/// Mirror of allsorts' `should_apply_feature` for `FeatureMask::default()`
/// (CCMP | RLIG | CLIG | LIGA | LOCL | CALT).
fn applied_with_default_mask(ftype: u16, setting: u16) -> bool {
    matches!(
        (ftype, setting),
        (1, 2)      // common ligatures on   (LIGA set)
        | (1, 18)   // contextual ligatures on (CLIG set)
        | (1, 21)   // historical ligatures off (HLIG not set)
        | (11, 0)   // no fractions (FRAC, AFRC not set)
        | (14, 5) // slashed zero off (ZERO not set)
    )
}

fn effective_flags(default_flags: u32, features: &[FeatureEntry]) -> u32 {
    let mut f = default_flags;
    for e in features {
        if applied_with_default_mask(e.ftype, e.setting) {
            f = (f & e.disable) | e.enable;
        }
    }
    f
}

const PRIMARY_KINDS: [u8; 8] = [4, 1, 2, 4, 1, 2, 1, 2];
const OTHER_KINDS: [u8; 11] = [1, 1, 1, 2, 2, 2, 4, 4, 4, 0, 5];

fn sanitize(num_glyphs: u16, glyphs: &[u16]) -> Vec<u16> {
    let mut v: Vec<u16> = glyphs.iter().copied().filter(|&g| g != 0 && g < num_glyphs).collect();
    dedup_keep_first(&mut v);
    v
}

fn build_plan(num_glyphs: u16, glyphs_in: &[u16], variant: u64) -> Plan {
    let glyphs = sanitize(num_glyphs, glyphs_in);
    if glyphs.len() < 2 || num_glyphs < 3 {
        return Plan { version: 2, chains: Vec::new(), note: Some("degenerate input: no chains") };
    }
    // The leading structural choices are a mixed-radix decomposition of `variant` so that any 288
    // consecutive variants cover every (chain count, primary type, primary format, version) combination.
    let n_chains = 1 + (variant % 3) as usize;
    let q = variant / 3;
    let primary_kind = PRIMARY_KINDS[(q % 8) as usize];
    let q2 = q / 8;
    let primary_fmt = FORMATS[(q2 % 6) as usize];
    let q3 = q2 / 6;
    let version = 2 + (q3 % 2) as u16;

    let mut cx = Ctx { rng: Rng::seed(num_glyphs, &glyphs, variant), num_glyphs, glyphs: &glyphs, fmt_counter: 0 };
    cx.fmt_counter = cx.rng.below(6);
    let mut present: Vec<u16> = glyphs.clone();
    let mut chains = Vec::new();

    for ci in 0..n_chains {
        // ---- flag roles: six distinct bits
        let mut bits: Vec<u32> = (0..32).collect();
        cx.rng.shuffle(&mut bits);
        let b = |i: usize| 1u32 << bits[i];
        let (b_a, b_b, b_c, b_d, b_e, b_f) = (b(0), b(1), b(2), b(3), b(4), b(5));
        // A, B: plain defaults.  C: off by default, enabled by "common ligatures on" (applied by allsorts'
        // default mask).  D: on by default, cleared by "historical ligatures off" (applied by the default mask).
        // E: off by default, enabled only by features the default mask does not select.  F: on by default,
        // cleared only by "common ligatures off" (not selected by the default mask).
        let mut default_flags = b_a;
        if cx.rng.chance(1, 2) {
            default_flags |= b_b;
        }
        default_flags |= b_d | b_f;
        let mut features: Vec<FeatureEntry> = Vec::new();
        if cx.rng.chance(3, 5) {
            features.push(FeatureEntry { ftype: 1, setting: 2, enable: b_c, disable: 0xFFFF_FFFF });
        }
        if cx.rng.chance(3, 5) {
            features.push(FeatureEntry { ftype: 1, setting: 3, enable: 0, disable: !(b_c | b_f) });
        }
        if cx.rng.chance(1, 2) {
            features.push(FeatureEntry { ftype: 1, setting: 21, enable: 0, disable: !b_d });
        }
        if cx.rng.chance(1, 2) {
            features.push(FeatureEntry { ftype: 1, setting: 20, enable: b_d, disable: 0xFFFF_FFFF });
        }
        if cx.rng.chance(1, 2) {
            features.push(FeatureEntry { ftype: 37, setting: 1, enable: b_e, disable: 0xFFFF_FFFF });
        }
        if cx.rng.chance(1, 4) {
            features.push(FeatureEntry { ftype: 103, setting: 7, enable: b_e, disable: !b_a });
        }
        if cx.rng.chance(1, 4) {
            features.push(FeatureEntry { ftype: 14, setting: 5, enable: 0, disable: !b_e });
        }
        if cx.rng.chance(1, 5) {
            cx.rng.shuffle(&mut features);
        }
        if cx.rng.chance(2, 3) {
            // conventional last entry: "all typographic features off"
            features.push(FeatureEntry { ftype: 0, setting: 1, enable: 0, disable: 0 });
        }
        let eff = effective_flags(default_flags, &features);
        let role_bits = [b_a, b_b, b_c, b_d, b_e, b_f];
        let on: Vec<u32> = role_bits.iter().copied().filter(|x| eff & x != 0).collect();
        let off: Vec<u32> = role_bits.iter().copied().filter(|x| eff & x == 0).collect();

        // ---- subtables
        let n_sub = 1 + cx.rng.below(4) as usize;
        let mut subtables = Vec::new();
        for si in 0..n_sub {
            let primary = ci == 0 && si == 0;
            let kind = if primary { primary_kind } else { cx.rng.pick(&OTHER_KINDS) };
            // sub-feature flags
            let want_active = if primary { !cx.rng.chance(1, 10) } else { cx.rng.chance(3, 4) };
            let mut sff = if want_active || off.is_empty() { cx.rng.pick(&on) } else { cx.rng.pick(&off) };
            if cx.rng.chance(1, 4) {
                // add a second bit of the same activity
                sff |= if eff & sff != 0 || off.is_empty() { cx.rng.pick(&on) } else { cx.rng.pick(&off) };
            }
            let active = eff & sff != 0;
            // coverage flags: 0x80000000 vertical only, 0x40000000 descending, 0x20000000 all directions,
            // 0x10000000 logical order
            let cov_flags: u32 = match cx.rng.below(10) {
                0 => 0x8000_0000,
                1 => 0x4000_0000,
                2 | 3 => 0x2000_0000,
                4 => 0x1000_0000,
                5 => 0x6000_0000,
                6 => 0x5000_0000,
                _ => 0,
            };
            let class_fmt = if primary { primary_fmt } else { cx.next_fmt(false) };
            let (body, desc, covered) = match kind {
                4 => build_noncontextual(&mut cx, &mut present, class_fmt, active),
                1 => build_contextual(&mut cx, &present, class_fmt, primary),
                2 => build_ligature(&mut cx, &present, class_fmt),
                0 => build_rearrangement(&mut cx, &present, class_fmt),
                _ => build_insertion(&mut cx, &present, class_fmt),
            };
            subtables.push(SubPlan {
                kind,
                coverage: cov_flags | kind as u32,
                sub_feature_flags: sff,
                active,
                body,
                covered,
                desc,
            });
        }
        chains.push(ChainPlan { default_flags, effective_default: eff, features, subtables });
    }
    Plan { version, chains, note: None }
}

fn serialize(plan: &Plan, num_glyphs: u16) -> Vec<u8> {
    let mut o = Vec::new();
    be16(&mut o, plan.version);
    be16(&mut o, 0);
    be32(&mut o, plan.chains.len() as u32);
    for c in &plan.chains {
        let mut body = Vec::new();
        for f in &c.features {
            be16(&mut body, f.ftype);
            be16(&mut body, f.setting);
            be32(&mut body, f.enable);
            be32(&mut body, f.disable);
        }
        for st in &c.subtables {
            debug_assert_eq!(st.body.len() % 4, 0);
            be32(&mut body, 12 + st.body.len() as u32);
            be32(&mut body, st.coverage);
            be32(&mut body, st.sub_feature_flags);
            body.extend_from_slice(&st.body);
        }
        if plan.version >= 3 {
            // subtable glyph coverage array: one u32 offset per subtable (from the start of the array),
            // then one bitfield of ceil(numGlyphs / 8) bytes per subtable, each padded to 4 bytes
            let n = c.subtables.len();
            let mut field_len = (num_glyphs as usize + 7) / 8;
            field_len = (field_len + 3) & !3;
            for i in 0..n {
                be32(&mut body, (4 * n + i * field_len) as u32);
            }
            for st in &c.subtables {
                let mut bits = vec![0u8; field_len];
                for &g in &st.covered {
                    bits[(g >> 3) as usize] |= 1 << (g & 7);
                }
                body.extend_from_slice(&bits);
            }
        }
        be32(&mut o, c.default_flags);
        be32(&mut o, 16 + body.len() as u32);
        be32(&mut o, c.features.len() as u32);
        be32(&mut o, c.subtables.len() as u32);
        o.extend_from_slice(&body);
    }
    o
}

// ---------------------------------------------------------------------------------------------
// Hazards: tables that are valid per Apple's spec but that allsorts mishandles. See NOTES.md.
// ---------------------------------------------------------------------------------------------

/// Number of hazard tables available.
pub const HAZARD_COUNT: u32 = 5;

/// Short description of a hazard table.
pub fn hazard_name(hazard: u32) -> &'static str {
    match hazard {
        0 => "non-contextual subtable whose lookup is format 10 with unit size 4 -> todo!() panic in lookup",
        1 => "ligature action list with two STORE actions -> stale end_pos: drain out of range / usize underflow panic",
        2 => "ligature subtable whose failure transition drops to state 0 without DONT_ADVANCE -> stale component stack swallows unrelated glyphs (wrong output, no error)",
        3 => "ligature subtable using DONT_ADVANCE between SET_COMPONENT and PERFORM_ACTION -> component stack wrongly cleared -> MissingValue error",
        4 => "contextual subtable whose two DONT_ADVANCE entries substitute a -> b and b -> a: a state machine that never advances (implementations must bound it)",
        _ => "unknown",
    }
}

fn wrap_single_subtable(kind: u8, body: Vec<u8>) -> Vec<u8> {
    let plan = Plan {
        version: 2,
        note: None,
        chains: vec![ChainPlan {
            default_flags: 1,
            effective_default: 1,
            features: Vec::new(),
            subtables: vec![SubPlan {
                kind,
                coverage: kind as u32,
                sub_feature_flags: 1,
                active: true,
                body,
                covered: Vec::new(),
                desc: String::new(),
            }],
        }],
    };
    serialize(&plan, 0)
}

/// Build hazard table `hazard` (0..HAZARD_COUNT) keyed on `glyphs[0]` (= "a") and `glyphs[1]` (= "b").
/// Text that triggers each one:
/// * 0: any text containing a
/// * 1: "a a b"   (three components, STORE after the second pop, LAST|STORE after the third)
/// * 2: "a x a b" where x is any glyph other than a, b: Apple's semantics give [a, x, L]; allsorts gives [L]
/// * 3: "a b"
/// Returns None for an unknown hazard or unusable input.
pub fn build_morx_hazard(num_glyphs: u16, glyphs: &[u16], hazard: u32) -> Option<Vec<u8>> {
    let glyphs = sanitize(num_glyphs, glyphs);
    if glyphs.len() < 2 || num_glyphs < 3 {
        return None;
    }
    let (a, b) = (glyphs[0], glyphs[1]);
    let lig = if a != 1 && b != 1 { 1 } else if a != 2 && b != 2 { 2 } else { 3.min(num_glyphs - 1) };
    let class_bytes = emit_lookup(6, &[(a, 4), (b, 5)], Fill::Const(1), num_glyphs, LkOpts { term: 0, unit1: false }).0;
    let lig_entries = |es: &[(u16, u16, u16)]| {
        let mut v = Vec::new();
        for e in es {
            be16(&mut v, e.0);
            be16(&mut v, e.1);
            be16(&mut v, e.2);
        }
        v
    };
    let act = |acts: &[u32]| {
        let mut v = Vec::new();
        for x in acts {
            be32(&mut v, *x);
        }
        v
    };
    // component table: [0]; every action maps its glyph onto component index 0 (value 0) -> ligature 0
    let off = |g: u16| ((0i64 - g as i64) as i32 as u32) & LIG_OFFSET_MASK;
    let order = [0usize, 1, 2, 3, 4, 5];
    match hazard {
        0 => {
            let mut body = Vec::new();
            be16(&mut body, 10); // format
            be16(&mut body, 4); // unit size
            be16(&mut body, a); // first glyph
            be16(&mut body, 1); // glyph count
            be32(&mut body, lig as u32);
            pad4(&mut body);
            Some(wrap_single_subtable(4, body))
        }
        1 => {
            // a a b -> pops b, a (STORE), a (LAST|STORE)
            let entries = lig_entries(&[
                (0, 0, 0),
                (2, LIG_SET_COMPONENT, 0),
                (3, LIG_SET_COMPONENT, 0),
                (0, LIG_SET_COMPONENT | LIG_PERFORM_ACTION, 0),
                (0, LIG_DONT_ADVANCE, 0),
            ]);
            let rows = vec![
                vec![0, 0, 0, 0, 1, 0],
                vec![0, 0, 0, 0, 1, 0],
                vec![0, 4, 4, 0, 2, 4],
                vec![0, 4, 4, 0, 4, 3],
            ];
            let actions = act(&[off(b), off(a) | LIG_ACTION_STORE, off(a) | LIG_ACTION_LAST | LIG_ACTION_STORE]);
            let body = assemble_stx(6, &class_bytes, &rows, &entries, &[actions, u16s(&[0]), u16s(&[lig])], &order);
            Some(wrap_single_subtable(2, body))
        }
        2 => {
            // a b -> L ; failure in state 2 goes to state 0 WITHOUT DONT_ADVANCE
            let entries =
                lig_entries(&[(0, 0, 0), (2, LIG_SET_COMPONENT, 0), (0, LIG_SET_COMPONENT | LIG_PERFORM_ACTION, 0)]);
            let rows = vec![vec![0, 0, 0, 0, 1, 0], vec![0, 0, 0, 0, 1, 0], vec![0, 0, 0, 0, 1, 2]];
            let actions = act(&[off(b), off(a) | LIG_ACTION_LAST]);
            let body = assemble_stx(6, &class_bytes, &rows, &entries, &[actions, u16s(&[0]), u16s(&[lig])], &order);
            Some(wrap_single_subtable(2, body))
        }
        3 => {
            // a (push) ; b: push, don't advance, go to state 3 ; b again in state 3: perform action (2 pops)
            let entries = lig_entries(&[
                (0, 0, 0),
                (2, LIG_SET_COMPONENT, 0),
                (3, LIG_SET_COMPONENT | LIG_DONT_ADVANCE, 0),
                (0, LIG_PERFORM_ACTION, 0),
            ]);
            let rows = vec![
                vec![0, 0, 0, 0, 1, 0],
                vec![0, 0, 0, 0, 1, 0],
                vec![0, 0, 0, 0, 1, 2],
                vec![0, 0, 0, 0, 0, 3],
            ];
            let actions = act(&[off(b), off(a) | LIG_ACTION_LAST]);
            let body = assemble_stx(6, &class_bytes, &rows, &entries, &[actions, u16s(&[0]), u16s(&[lig])], &order);
            Some(wrap_single_subtable(2, body))
        }
        4 => {
            // classes: a and c = 4, b = 5. Both start states: class 4 -> entry 1, class 5 -> entry 2.
            // entry 1: substitute the current glyph through table 0 (a -> b), don't advance
            // entry 2: substitute the current glyph through table 1 (a -> c, b -> c), don't advance
            // Whether the implementation looks the current glyph up by its original id (a) or by
            // its substituted id, the glyph keeps alternating between b and c and never advances.
            let c = if glyphs.len() > 2 { glyphs[2] } else { lig };
            let class_bytes =
                emit_lookup(6, &[(a, 4), (b, 5), (c, 4)], Fill::Const(1), num_glyphs, LkOpts { term: 0, unit1: false }).0;
            let mut entries = Vec::new();
            for e in [(0u16, 0u16, 0xFFFFu16, 0xFFFFu16), (0, CTX_DONT_ADVANCE, 0xFFFF, 0), (0, CTX_DONT_ADVANCE, 0xFFFF, 1)] {
                be16(&mut entries, e.0);
                be16(&mut entries, e.1);
                be16(&mut entries, e.2);
                be16(&mut entries, e.3);
            }
            let rows = vec![vec![0, 0, 0, 0, 1, 2], vec![0, 0, 0, 0, 1, 2]];
            let mut t0 = emit_lookup(6, &[(a, b), (c, b)], Fill::Identity, num_glyphs, LkOpts { term: 0, unit1: false }).0;
            let mut t1 = emit_lookup(6, &[(a, c), (b, c)], Fill::Identity, num_glyphs, LkOpts { term: 0, unit1: false }).0;
            if t0.len() % 2 != 0 {
                t0.push(0);
            }
            if t1.len() % 2 != 0 {
                t1.push(0);
            }
            let mut subst = Vec::new();
            be32(&mut subst, 8);
            be32(&mut subst, 8 + t0.len() as u32);
            subst.extend_from_slice(&t0);
            subst.extend_from_slice(&t1);
            let body = assemble_stx(6, &class_bytes, &rows, &entries, &[subst], &[0, 1, 2, 3]);
            Some(wrap_single_subtable(1, body))
        }
        _ => None,
    }
}

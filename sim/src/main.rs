//! Deterministic simulator for allsorts: storage-fault / history / reader simulation.

mod alloc;
#[allow(dead_code)]
mod bitmap_build;
#[allow(dead_code)]
mod morx_build;
#[allow(dead_code)]
mod woff2_build;
mod disk;
mod exec;
mod fields;
mod gen;
mod provider;
mod reader_sim;
mod rng;
mod sfnt_check;
mod surgery;
mod trace;
mod util;
mod walk;

use std::collections::BTreeMap;
use std::io::Write;

use serde_json::json;

use exec::{Corpus, ExecOpts, RunReport, Stats, Violation};
use trace::Trace;

#[global_allocator]
static GLOBAL: alloc::SimAlloc = alloc::SimAlloc;

fn arg_map(args: &[String]) -> BTreeMap<String, String> {
    let mut m = BTreeMap::new();
    let mut i = 0;
    while i < args.len() {
        if let Some(k) = args[i].strip_prefix("--") {
            if i + 1 < args.len() && !args[i + 1].starts_with("--") {
                m.insert(k.to_string(), args[i + 1].clone());
                i += 2;
            } else {
                m.insert(k.to_string(), "1".to_string());
                i += 1;
            }
        } else {
            i += 1;
        }
    }
    m
}

fn violation_json(v: &Violation) -> serde_json::Value {
    json!({
        "property": v.property,
        "kind": v.kind,
        "site": v.site,
        "msg": v.msg,
        "op_index": v.op_index,
        "op_kind": v.op_kind,
        "overflow_profile": v.overflow_profile,
        "signature": v.signature(),
    })
}

fn report_json(r: &RunReport) -> serde_json::Value {
    json!({
        "digest": format!("{:016x}", r.digest),
        "violations": r.violations.iter().map(violation_json).collect::<Vec<_>>(),
        "foreign": r.foreign.iter().map(violation_json).collect::<Vec<_>>(),
        "harness_error": r.harness_error,
        "events": r.events,
    })
}

fn stats_json(s: &Stats) -> serde_json::Value {
    json!({
        "counters": s.counters,
        "maxima": s.maxima,
        "sets": s.sets.iter().map(|(k, v)| (k.clone(), v.iter().cloned().collect::<Vec<_>>())).collect::<BTreeMap<_, _>>(),
    })
}

fn tests_root(m: &BTreeMap<String, String>) -> String {
    m.get("tests")
        .cloned()
        .or_else(|| std::env::var("VERIF_REPO_TESTS").ok())
        .unwrap_or_else(|| "/repo/tests".to_string())
}

fn with_big_stack<R: Send + 'static>(f: impl FnOnce() -> R + Send + 'static) -> R {
    std::thread::Builder::new()
        .name("sim".into())
        .stack_size(8 << 20)
        .spawn(f)
        .expect("spawn sim thread")
        .join()
        .unwrap_or_else(|_| {
            eprintln!(
                "HARNESS-ERROR sim thread panicked outside an op: {:?}",
                util::LAST_GLOBAL.lock().ok().and_then(|g| g.clone())
            );
            std::process::exit(2)
        })
}

fn cmd_run(m: BTreeMap<String, String>) -> i32 {
    let path = match m.get("trace") {
        Some(p) => p.clone(),
        None => {
            eprintln!("run: --trace FILE required");
            return 2;
        }
    };
    let text = match std::fs::read_to_string(&path) {
        Ok(t) => t,
        Err(e) => {
            eprintln!("HARNESS-ERROR cannot read {}: {}", path, e);
            return 2;
        }
    };
    let verbose = m.contains_key("verbose");
    let value: serde_json::Value = match serde_json::from_str(&text) {
        Ok(t) => t,
        Err(e) => {
            eprintln!("HARNESS-ERROR bad trace {}: {}", path, e);
            return 2;
        }
    };
    if value.get("property").and_then(|p| p.as_str()) == Some("C14R") {
        return with_big_stack(move || {
            util::install_hook();
            alloc::set_budget(exec::HEAP_BUDGET);
            reader_sim::replay_value(value, verbose)
        });
    }
    let trace: Trace = match serde_json::from_value(value) {
        Ok(t) => t,
        Err(e) => {
            eprintln!("HARNESS-ERROR bad trace {}: {}", path, e);
            return 2;
        }
    };
    let root = tests_root(&m);
    let status = m
        .get("status")
        .and_then(|p| std::fs::OpenOptions::new().create(true).write(true).open(p).ok());
    with_big_stack(move || {
        util::install_hook();
        alloc::set_budget(exec::HEAP_BUDGET);
        let mut corpus = Corpus::new(&root);
        let mut stats = Stats::default();
        let mut opts = ExecOpts {
            verbose,
            status,
            run_index: trace.run,
        };
        let report = exec::run_trace(&trace, &mut corpus, &mut opts, &mut stats);
        let mut j = report_json(&report);
        if verbose {
            j["stats"] = stats_json(&stats);
        }
        println!("{}", j);
        if report.harness_error.is_some() {
            2
        } else if report.violations.is_empty() {
            0
        } else {
            1
        }
    })
}

fn cmd_gen(m: BTreeMap<String, String>) -> i32 {
    let prop = m.get("prop").cloned().unwrap_or_else(|| "C01".into());
    let seed: u64 = m.get("seed").and_then(|s| s.parse().ok()).unwrap_or(1);
    let run: u64 = m.get("run").and_then(|s| s.parse().ok()).unwrap_or(0);
    if prop == "C14R" {
        let t = reader_sim::generate(seed, run, m.contains_key("exact"));
        println!("{}", serde_json::to_string(&t).unwrap());
        return 0;
    }
    let root = tests_root(&m);
    // `--no-walk`: skip the fault-free typed walks that guide fault placement (library code run by
    // the generator). The driver asks for this when a campaign worker died inside such a walk:
    // font and surgery of the run are decided before any walk, so they come out the same.
    gen::set_no_walk(m.contains_key("no-walk"));
    let mut corpus = Corpus::new(&root);
    let mut g = match gen::Generator::new(&root, &mut corpus) {
        Ok(g) => g,
        Err(e) => {
            eprintln!("HARNESS-ERROR generator: {}", e);
            return 2;
        }
    };
    match g.generate(&prop, seed, run, &mut corpus) {
        Ok(t) => {
            println!("{}", serde_json::to_string(&t).unwrap());
            0
        }
        Err(e) => {
            eprintln!("HARNESS-ERROR generate: {}", e);
            2
        }
    }
}

/// Worker: execute run indices [start, start+count) (or until the time limit) of a campaign.
fn cmd_campaign(m: BTreeMap<String, String>) -> i32 {
    let prop = m.get("prop").cloned().unwrap_or_else(|| "C01".into());
    let seed: u64 = m.get("seed").and_then(|s| s.parse().ok()).unwrap_or(1);
    let start: u64 = m.get("start").and_then(|s| s.parse().ok()).unwrap_or(0);
    let count: u64 = m.get("count").and_then(|s| s.parse().ok()).unwrap_or(1000);
    let stride: u64 = m.get("stride").and_then(|s| s.parse().ok()).unwrap_or(1);
    let secs: f64 = m.get("secs").and_then(|s| s.parse().ok()).unwrap_or(1e9);
    let digests = m.contains_key("digests");
    let exact = m.contains_key("exact");
    let root = tests_root(&m);
    let out_path = m.get("out").cloned();
    let status_path = m.get("status").cloned();
    with_big_stack(move || {
        util::install_hook();
        alloc::set_budget(exec::HEAP_BUDGET);
        let mut out: Box<dyn Write> = match out_path {
            Some(p) => Box::new(std::io::BufWriter::new(
                std::fs::OpenOptions::new()
                    .create(true)
                    .append(true)
                    .open(p)
                    .expect("open out"),
            )),
            None => Box::new(std::io::stdout()),
        };
        if prop == "C14R" {
            return reader_sim::campaign(seed, start, count, stride, secs, digests, exact, &mut out);
        }
        let status = status_path
            .and_then(|p| std::fs::OpenOptions::new().create(true).write(true).open(p).ok());
        let mut corpus = Corpus::new(&root);
        let mut g = match gen::Generator::new(&root, &mut corpus) {
            Ok(g) => g,
            Err(e) => {
                eprintln!("HARNESS-ERROR generator: {}", e);
                return 2;
            }
        };
        let mut stats = Stats::default();
        let mut opts = ExecOpts {
            verbose: false,
            status,
            run_index: 0,
        };
        // The only wall-clock read in the worker: a batch deadline that decides how many run
        // indices are executed, never what any run does.
        let t0 = std::time::Instant::now();
        let mut done = 0u64;
        let mut flushed = 0u64;
        let mut k = 0u64;
        let mut samples: Vec<serde_json::Value> = Vec::new();
        while k < count {
            if done % 64 == 0 && t0.elapsed().as_secs_f64() > secs {
                break;
            }
            let run = start + k * stride;
            k += 1;
            // the generator runs library code too (fault-free typed walks that guide fault
            // placement): op index -1 tells the driver that a crash belongs to that phase
            opts.run_index = run;
            exec::write_status(&mut opts, -1);
            let trace = match g.generate(&prop, seed, run, &mut corpus) {
                Ok(t) => t,
                Err(e) => {
                    let _ = writeln!(out, "{}", json!({"type":"harness_error","run":run,"error":e}));
                    continue;
                }
            };
            opts.run_index = run;
            let report = exec::run_trace(&trace, &mut corpus, &mut opts, &mut stats);
            done += 1;
            if digests {
                let _ = writeln!(out, "{}", json!({"type":"digest","run":run,"digest":format!("{:016x}", report.digest)}));
            }
            if let Some(e) = &report.harness_error {
                let _ = writeln!(out, "{}", json!({"type":"harness_error","run":run,"error":e}));
            }
            if samples.len() < 3 && !trace.faults.is_empty() && trace.ops.len() >= 2 {
                samples.push(serde_json::to_value(&trace).unwrap());
            }
            for v in &report.violations {
                let _ = writeln!(
                    out,
                    "{}",
                    json!({"type":"violation","run":run,"violation":violation_json(v),"trace":trace})
                );
                let _ = out.flush();
            }
            for v in &report.foreign {
                stats.bump(&format!("foreign.{}", v.signature()));
            }
            // Partial summaries: a worker that is later killed by an abort-class violation
            // (allocation budget, stack overflow) does not lose what it already measured.
            if done - flushed >= 2000 {
                let _ = writeln!(
                    out,
                    "{}",
                    json!({"type":"summary","prop":prop,"seed":seed,"start":start,"stride":stride,"executed":done - flushed,
                           "next":start + k * stride,"wall_s":t0.elapsed().as_secs_f64(),"stats":stats_json(&stats),
                           "samples":samples, "partial":true})
                );
                let _ = out.flush();
                flushed = done;
                stats = Stats::default();
                samples.clear();
            }
        }
        let _ = writeln!(
            out,
            "{}",
            json!({"type":"summary","prop":prop,"seed":seed,"start":start,"stride":stride,"executed":done - flushed,"next":start + k * stride,
                   "wall_s":t0.elapsed().as_secs_f64(),"stats":stats_json(&stats),"samples":samples})
        );
        let _ = out.flush();
        0
    })
}

/// Run the C09 validator on a font file (diagnostic aid; not used by the checks).
fn cmd_validate(m: BTreeMap<String, String>) -> i32 {
    let Some(path) = m.get("file") else {
        eprintln!("validate: --file FILE required");
        return 2;
    };
    let bytes = match std::fs::read(path) {
        Ok(b) => b,
        Err(e) => {
            eprintln!("HARNESS-ERROR {}", e);
            return 2;
        }
    };
    util::install_hook();
    let mut probs = Vec::new();
    let n = sfnt_check::validate_container(&bytes, &mut probs).and_then(|tables| {
        tables
            .iter()
            .find(|t| t.tag == allsorts::tag::CFF)
            .and_then(|t| sfnt_check::check_cff_counts(t.data, None, &mut probs))
    });
    println!("cff charstrings: {:?}", n);
    let w = exec::Written {
        bytes,
        kind: exec::WrittenKind::Sfnt,
        glyphs: None,
        source_ok: None,
        source_advance: None,
    };
    for (k, v) in sfnt_check::validate(&w, true, true) {
        println!("{}: {}", k, v);
    }
    0
}

fn main() {
    let args: Vec<String> = std::env::args().collect();
    if args.len() < 2 {
        eprintln!("usage: sim run|gen|campaign ...");
        std::process::exit(2);
    }
    let m = arg_map(&args[2..]);
    let code = match args[1].as_str() {
        "run" => cmd_run(m),
        "gen" => cmd_gen(m),
        "campaign" => cmd_campaign(m),
        "validate" => cmd_validate(m),
        "brotli-selftest" => {
            // the hand-made run-length meta-blocks decode to what they claim
            use std::io::Read;
            let raw: Vec<u8> = (0..100_000u32).map(|i| (i * 7) as u8).collect();
            let mut code = 0;
            for blocks in [0u32, 1, 3] {
                let enc = disk::brotli_stored_tail(&raw, blocks);
                let mut out = Vec::new();
                let r = brotli_decompressor::Decompressor::new(&enc[..], 4096).read_to_end(&mut out);
                let want = raw.len() + (blocks as usize) * (1 << 24);
                let ok = r.is_ok() && out.len() == want && out[..raw.len()] == raw[..] && out[raw.len()..].iter().all(|b| *b == 0);
                println!("blocks={} encoded={} decoded={} want={} ok={} {:?}", blocks, enc.len(), out.len(), want, ok, r.err());
                if !ok {
                    code = 1;
                }
            }
            code
        }
        _ => {
            eprintln!("unknown command {}", args[1]);
            2
        }
    };
    std::process::exit(code);
}

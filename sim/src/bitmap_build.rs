//! Deterministic generator of VALID embedded-bitmap table pairs:
//! `CBLC`/`CBDT` (colour, PNG payload, bit depth 32) and `EBLC`/`EBDT` (monochrome / grey).
//!
//! std only, no `unsafe`, no external crates.  Every structural choice is a pure function of
//! `(num_glyphs, colour, variant)` (plus `Options` for the `_ext` entry points).
//!
//! Layout produced (matches what `/repo/src/bitmap/cbdt.rs` expects, and the OpenType spec):
//!
//! Location table (`EBLC` v2.0 / `CBLC` v3.0)
//! ```text
//!   u16 majorVersion, u16 minorVersion, u32 numSizes
//!   BitmapSize[numSizes]                      (48 bytes each)
//!       Offset32 indexSubTableArrayOffset     from start of the location table
//!       u32 indexTablesSize                   array + sub tables (incl. padding)
//!       u32 numberOfIndexSubTables
//!       u32 colorRef = 0
//!       SbitLineMetrics hori, vert            (12 bytes each)
//!       u16 startGlyphIndex, endGlyphIndex    min / max over the records
//!       u8 ppemX, ppemY, bitDepth, i8 flags   (1 = horizontal, 2 = vertical)
//!   per strike: IndexSubTableArray            (u16 first, u16 last, u32 additionalOffset) * n,
//!                                             additionalOffset relative to the array start,
//!                                             records sorted by glyph id, non overlapping
//!               IndexSubTables                each 4-byte aligned
//!       header: u16 indexFormat, u16 imageFormat, Offset32 imageDataOffset (from start of data table)
//!       1: Offset32 offsets[last-first+2]
//!       2: u32 imageSize, BigGlyphMetrics
//!       3: Offset16 offsets[last-first+2] (+ pad to 4)
//!       4: u32 numGlyphs, (u16 glyph, Offset16 offset)[numGlyphs+1]   (last = terminator)
//!       5: u32 imageSize, BigGlyphMetrics, u32 numGlyphs, u16 glyphIdArray[numGlyphs] (+ pad to 4)
//! ```
//! Data table (`EBDT` v2.0 / `CBDT` v3.0): `u16 major, u16 minor`, then the glyph records.

use std::fmt::Write as _;

// ------------------------------------------------------------------------------------------------
// Public API
// ------------------------------------------------------------------------------------------------

pub struct BitmapTables {
    pub location_tag: [u8; 4],
    pub location: Vec<u8>,
    pub data_tag: [u8; 4],
    pub data: Vec<u8>,
}

/// Opt-in extras.  `Options::default()` is what the plain entry points use; with the default every
/// covered glyph is retrievable through `Font::lookup_glyph_image` without error.
#[derive(Clone, Copy, Debug, Default, PartialEq, Eq)]
pub struct Options {
    /// Also emit component image formats 8 and 9 (EBLC/EBDT only).  They parse through
    /// `MatchingStrike::bitmap` but `BitmapGlyph::try_from` returns `ParseError::NotImplemented`
    /// so `Font::lookup_glyph_image` errors on them (see NOTES.md).
    pub components: bool,
    /// For `colour == true` also emit uncompressed BGRA (bit depth 32) image formats 1, 2, 5, 6, 7
    /// in addition to the PNG formats 17, 18, 19.
    pub raw_bgra: bool,
}

/// One glyph image present in the built tables.
#[derive(Clone, Debug, PartialEq, Eq)]
pub struct GlyphInfo {
    pub glyph: u16,
    /// Index into the BitmapSize array of the location table.
    pub strike: usize,
    /// Index into the strike's IndexSubTableArray.
    pub subtable: usize,
    /// ppemX of the strike (the value `find_strike` matches on).
    pub ppem: u8,
    pub ppem_y: u8,
    pub bit_depth: u8,
    pub index_format: u8,
    pub image_format: u8,
    pub width: u8,
    pub height: u8,
    /// Absolute offset of the glyph record in the data table.
    pub data_offset: u32,
    /// Length of the glyph record in the data table.
    pub record_len: u32,
    /// The bytes allsorts hands out as `data` of `GlyphBitmapData` (image bytes without metrics /
    /// length prefix).  For formats 8/9: the raw EbdtComponent array bytes.
    pub payload: Vec<u8>,
}

/// Build a well-formed location/data table pair for a font with `num_glyphs` glyphs.
pub fn build_bitmap_tables(num_glyphs: u16, colour: bool, variant: u64) -> BitmapTables {
    build_bitmap_tables_ext(num_glyphs, colour, variant, Options::default())
}

/// Glyph ids / ppem / bit depth triples that the built tables contain.
///
/// `Font::lookup_glyph_image(glyph, ppem, depth)` (and `CBLCTable::find_strike(glyph, ppem, depth)`)
/// resolves to exactly the strike that the entry came from.
pub fn covered(num_glyphs: u16, colour: bool, variant: u64) -> Vec<(u16, u8, u8)> {
    glyph_infos(num_glyphs, colour, variant, Options::default())
        .into_iter()
        .map(|g| (g.glyph, g.ppem, g.bit_depth))
        .collect()
}

pub fn describe(num_glyphs: u16, colour: bool, variant: u64) -> String {
    describe_ext(num_glyphs, colour, variant, Options::default())
}

pub fn build_bitmap_tables_ext(
    num_glyphs: u16,
    colour: bool,
    variant: u64,
    opts: Options,
) -> BitmapTables {
    let plan = make_plan(num_glyphs, colour, variant, opts);
    serialize(&plan).0
}

/// Detailed list of every glyph image in the tables (ordered by strike, sub table, glyph id).
pub fn glyph_infos(num_glyphs: u16, colour: bool, variant: u64, opts: Options) -> Vec<GlyphInfo> {
    let plan = make_plan(num_glyphs, colour, variant, opts);
    serialize(&plan).1
}

/// Glyphs that lie inside an index sub table range of a strike but have no image there
/// (zero-length entries of index formats 1/3, glyphs skipped by the sparse formats 4/5).
/// Returned as `(glyph, ppem, bit depth)` of the strike with the hole.
pub fn holes(num_glyphs: u16, colour: bool, variant: u64, opts: Options) -> Vec<(u16, u8, u8)> {
    let plan = make_plan(num_glyphs, colour, variant, opts);
    let mut out = Vec::new();
    for s in &plan.strikes {
        for t in &s.subtables {
            let mut present = t.glyphs.iter().filter(|g| g.present).map(|g| g.glyph).peekable();
            for gid in t.first..=t.last {
                if present.peek() == Some(&gid) {
                    present.next();
                } else {
                    out.push((gid, s.ppem_x, s.bit_depth));
                }
            }
        }
    }
    out
}

pub fn describe_ext(num_glyphs: u16, colour: bool, variant: u64, opts: Options) -> String {
    let plan = make_plan(num_glyphs, colour, variant, opts);
    let mut s = String::new();
    let _ = write!(
        s,
        "{} num_glyphs={} variant={} strikes={} loc_shuffled={} data_shuffled={}",
        if colour { "CBLC/CBDT" } else { "EBLC/EBDT" },
        num_glyphs,
        variant,
        plan.strikes.len(),
        plan.shuffle_loc,
        plan.shuffle_data
    );
    for (i, st) in plan.strikes.iter().enumerate() {
        let _ = write!(
            s,
            "\n  strike {}: ppem {}x{} depth {} flags {} subtables {}",
            i,
            st.ppem_x,
            st.ppem_y,
            st.bit_depth,
            st.flags,
            st.subtables.len()
        );
        for (j, t) in st.subtables.iter().enumerate() {
            let present = t.glyphs.iter().filter(|g| g.present).count();
            let _ = write!(
                s,
                "\n    sub {}: glyphs {}..={} index_format {} image_format {} present {} holes {} base_shift {}",
                j,
                t.first,
                t.last,
                t.index_format,
                t.image_format,
                present,
                (usize::from(t.last - t.first) + 1) - present,
                t.base_shift
            );
        }
    }
    s
}

// ------------------------------------------------------------------------------------------------
// RNG
// ------------------------------------------------------------------------------------------------

struct Rng(u64);

impl Rng {
    fn new(num_glyphs: u16, colour: bool, variant: u64, opts: Options) -> Rng {
        let mut r = Rng(
            0x9E37_79B9_7F4A_7C15
                ^ variant.wrapping_mul(0xD6E8_FEB8_6659_FD93)
                ^ (u64::from(num_glyphs) << 17)
                ^ (u64::from(colour) << 40)
                ^ (u64::from(opts.components) << 41)
                ^ (u64::from(opts.raw_bgra) << 42),
        );
        r.next();
        r.next();
        r
    }

    fn next(&mut self) -> u64 {
        // splitmix64
        self.0 = self.0.wrapping_add(0x9E37_79B9_7F4A_7C15);
        let mut z = self.0;
        z = (z ^ (z >> 30)).wrapping_mul(0xBF58_476D_1CE4_E5B9);
        z = (z ^ (z >> 27)).wrapping_mul(0x94D0_49BB_1331_11EB);
        z ^ (z >> 31)
    }

    /// Uniform-ish value in `0..n` (`n > 0`).
    fn below(&mut self, n: u64) -> u64 {
        self.next() % n
    }

    /// Inclusive range.
    fn range(&mut self, lo: i64, hi: i64) -> i64 {
        lo + self.below((hi - lo + 1) as u64) as i64
    }

    /// True with probability 1/n.
    fn chance(&mut self, n: u64) -> bool {
        self.below(n) == 0
    }
}

// ------------------------------------------------------------------------------------------------
// Plan
// ------------------------------------------------------------------------------------------------

struct GlyphPlan {
    glyph: u16,
    /// false: zero-length entry of an index format 1/3 offset array.
    present: bool,
    width: u8,
    height: u8,
    /// Complete record as stored in the data table.
    record: Vec<u8>,
    payload_off: usize,
    payload_len: usize,
}

struct SubtablePlan {
    first: u16,
    last: u16,
    index_format: u8,
    image_format: u8,
    /// Index formats 1/3: one entry per glyph id of the range (holes have `present == false`).
    /// Index formats 2: one entry per glyph id.  Index formats 4/5: only the present glyphs.
    glyphs: Vec<GlyphPlan>,
    /// Index formats 2/5.
    image_size: u32,
    big_metrics: [u8; 8],
    /// Index formats 1/3/4: value of the first offset (imageDataOffset is lowered accordingly).
    base_shift: u32,
    /// Index format 4: glyph id stored in the terminating pair.
    terminator_gid: u16,
    /// Padding bytes inserted in the data table in front of this sub table's block.
    data_pad: usize,
}

struct StrikePlan {
    ppem_x: u8,
    ppem_y: u8,
    bit_depth: u8,
    flags: u8,
    subtables: Vec<SubtablePlan>,
}

struct Plan {
    colour: bool,
    strikes: Vec<StrikePlan>,
    shuffle_loc: bool,
    shuffle_data: bool,
    /// Permutation seeds.
    perm_seed: u64,
    trailing_pad: usize,
}

const MONO_DEPTHS: [u8; 4] = [1, 2, 4, 8];
const PNG_SIG: [u8; 8] = [0x89, b'P', b'N', b'G', 0x0D, 0x0A, 0x1A, 0x0A];

/// Image formats usable with an index format.
fn image_format_choices(colour: bool, index_format: u8, opts: Options) -> Vec<u8> {
    let constant_metrics = index_format == 2 || index_format == 5;
    let mut v = Vec::new();
    if colour {
        if constant_metrics {
            v.push(19);
            if opts.raw_bgra {
                v.push(5);
            }
        } else {
            v.extend_from_slice(&[17, 18]);
            if opts.raw_bgra {
                v.extend_from_slice(&[1, 2, 6, 7]);
            }
        }
    } else if constant_metrics {
        v.push(5);
    } else {
        v.extend_from_slice(&[1, 2, 6, 7]);
        if opts.components {
            v.extend_from_slice(&[8, 9]);
        }
    }
    v
}

fn is_png(image_format: u8) -> bool {
    image_format >= 17
}

fn make_plan(num_glyphs: u16, colour: bool, variant: u64, opts: Options) -> Plan {
    let mut rng = Rng::new(num_glyphs, colour, variant, opts);
    let n = u32::from(num_glyphs);
    let mut plan = Plan {
        colour,
        strikes: Vec::new(),
        shuffle_loc: false,
        shuffle_data: false,
        perm_seed: rng.next(),
        trailing_pad: 0,
    };
    if n == 0 {
        // No glyphs: a header with numSizes = 0 is the only valid table.
        return plan;
    }
    plan.shuffle_loc = rng.chance(3);
    plan.shuffle_data = rng.chance(2);
    plan.trailing_pad = if rng.chance(4) { rng.below(4) as usize } else { 0 };

    // --- strikes: count, ppem, bit depth --------------------------------------------------------
    let n_strikes = 1 + (variant % 3) as usize;
    let mut ppems: Vec<u8> = Vec::new();
    for i in 0..n_strikes {
        loop {
            let p = if i == 0 && variant % 7 == 0 {
                if (variant / 7) % 2 == 0 {
                    8
                } else {
                    128
                }
            } else {
                rng.range(8, 128) as u8
            };
            if !ppems.contains(&p) {
                ppems.push(p);
                break;
            }
        }
    }
    let mut depths: Vec<u8> = (0..n_strikes)
        .map(|i| {
            if colour {
                32
            } else {
                MONO_DEPTHS[((variant / 3) as usize + i) % 4]
            }
        })
        .collect();
    // Two strikes with the same ppem but different bit depth (EBLC only).  The strike with the
    // higher bit depth is stored later: `find_strike` lets the later strike win an exact-ppem tie,
    // so this order makes `covered()` entries resolve to their own strike (see NOTES.md).
    if !colour && n_strikes >= 2 && (variant / 12) % 4 == 1 {
        ppems[1] = ppems[0];
        if depths[0] > depths[1] {
            depths.swap(0, 1);
        }
    }

    let wide_variant = variant % 16 == 5;

    for si in 0..n_strikes {
        let depth = depths[si];
        let ppem_x = ppems[si];
        let ppem_y = if rng.chance(5) {
            rng.range(8, 128) as u8
        } else {
            ppem_x
        };
        let flags = if rng.chance(4) { 2 } else { 1 };

        // --- sub table ranges --------------------------------------------------------------------
        let mut k = if si == 0 {
            1 + ((variant / 4) % 4) as u32
        } else {
            1 + rng.below(4) as u32
        };
        k = k.min(n);
        let (anchor_start, anchor_end) = if si == 0 {
            (variant % 4 <= 1, variant % 4 == 0 || variant % 4 == 2)
        } else {
            (rng.chance(2), rng.chance(2))
        };
        // k segments of [0, n): k-1 distinct cut points in 1..n.
        let mut cuts: Vec<u32> = Vec::new();
        while (cuts.len() as u32) < k - 1 {
            let c = 1 + rng.below(u64::from(n - 1)) as u32;
            if !cuts.contains(&c) {
                cuts.push(c);
            }
        }
        cuts.sort_unstable();
        let mut bounds = vec![0u32];
        bounds.extend_from_slice(&cuts);
        bounds.push(n);

        let mut subtables = Vec::new();
        for j in 0..k as usize {
            let (seg_s, seg_e) = (bounds[j], bounds[j + 1]);
            let seg_len = seg_e - seg_s;
            let primary = si == 0 && j == 0;
            let wide = primary && wide_variant;

            let index_format = if primary {
                1 + (variant % 5) as u8
            } else {
                1 + rng.below(5) as u8
            };
            let choices = image_format_choices(colour, index_format, opts);
            let image_format = if primary {
                choices[((variant / 5) as usize) % choices.len()]
            } else {
                choices[rng.below(choices.len() as u64) as usize]
            };

            // Range length.
            let max_len: u32 = if wide {
                match (index_format, is_png(image_format)) {
                    (1, _) => 4096,
                    (2, false) => 65535,
                    (2, true) => 4096,
                    (3, false) if image_format != 8 && image_format != 9 => 4096,
                    (3, _) => 512,
                    _ => 512,
                }
            } else {
                48
            };
            let cap = seg_len.min(max_len);
            let len = if wide {
                cap
            } else if rng.chance(8) {
                1
            } else {
                1 + rng.below(u64::from(cap)) as u32
            };
            let first = if j == 0 && anchor_start {
                0
            } else if j + 1 == k as usize && anchor_end {
                n - len
            } else {
                seg_s + rng.below(u64::from(seg_len - len + 1)) as u32
            };
            let last = first + len - 1;
            debug_assert!(first >= seg_s && last < seg_e);

            subtables.push(make_subtable(
                &mut rng,
                first as u16,
                last as u16,
                index_format,
                image_format,
                depth,
                wide,
                num_glyphs,
            ));
        }

        plan.strikes.push(StrikePlan {
            ppem_x,
            ppem_y,
            bit_depth: depth,
            flags,
            subtables,
        });
    }
    plan
}

/// Largest width/height used for ordinary glyphs at a bit depth (keeps records below ~600 bytes).
fn max_dim(depth: u8) -> u8 {
    match depth {
        1 | 2 => 32,
        4 => 24,
        8 => 20,
        _ => 10,
    }
}

#[allow(clippy::too_many_arguments)]
fn make_subtable(
    rng: &mut Rng,
    first: u16,
    last: u16,
    index_format: u8,
    image_format: u8,
    depth: u8,
    wide: bool,
    num_glyphs: u16,
) -> SubtablePlan {
    let png = is_png(image_format);
    let constant = index_format == 2 || index_format == 5;
    let sparse = index_format == 4 || index_format == 5;
    let holes_allowed = index_format == 1 || index_format == 3;

    let mut t = SubtablePlan {
        first,
        last,
        index_format,
        image_format,
        glyphs: Vec::new(),
        image_size: 0,
        big_metrics: [0; 8],
        base_shift: 0,
        terminator_gid: 0,
        data_pad: if rng.chance(3) { rng.below(4) as usize } else { 0 },
    };

    // Dimensions shared by all glyphs (constant-metrics index formats) or the upper bound.
    let (lo, hi) = if png { (1, 8) } else { (0, i64::from(max_dim(depth))) };
    let const_w;
    let const_h;
    if wide {
        const_w = 1;
        const_h = 1;
    } else if constant {
        // Mostly non-empty; occasionally a 0x0 bitmap (image size 0) for raw formats.
        if !png && rng.chance(24) {
            const_w = 0;
            const_h = 0;
        } else {
            const_w = rng.range(lo.max(1), hi) as u8;
            const_h = rng.range(lo.max(1), hi) as u8;
        }
    } else {
        const_w = 0;
        const_h = 0;
    }
    if constant {
        t.big_metrics = big_metrics(rng, const_w, const_h);
    }

    // Index formats 3 and 4 use 16-bit offsets: once the block gets big fall back to tiny images.
    let mut running_total = 0usize;
    for gid in first..=last {
        let edge = gid == first || gid == last;
        let tight = (index_format == 3 || index_format == 4) && running_total > 40_000;
        if sparse && !edge && !rng.chance(2) {
            // Glyph not listed in the sparse glyph array.
            continue;
        }
        if holes_allowed && !edge && rng.chance(6) {
            t.glyphs.push(GlyphPlan {
                glyph: gid,
                present: false,
                width: 0,
                height: 0,
                record: Vec::new(),
                payload_off: 0,
                payload_len: 0,
            });
            continue;
        }
        let (w, h) = if wide || constant {
            (const_w, const_h)
        } else if tight {
            (1, 1)
        } else if !png && rng.chance(16) {
            // Extreme dimensions, still a small record.
            let small = rng.range(0, 4) as u8;
            if rng.chance(2) {
                (255, small)
            } else {
                (small, 255)
            }
        } else if !png && rng.chance(16) {
            (0, 0)
        } else {
            (rng.range(lo, hi) as u8, rng.range(lo, hi) as u8)
        };
        let g = make_glyph(rng, gid, image_format, depth, w, h, first, last, num_glyphs);
        running_total += g.record.len();
        t.glyphs.push(g);
    }

    if constant {
        t.image_size = t.glyphs[0].record.len() as u32;
        debug_assert!(t.glyphs.iter().all(|g| g.record.len() as u32 == t.image_size));
    } else {
        // Occasionally start the offsets at a non-zero value.
        if rng.chance(8) {
            t.base_shift = 1 + rng.below(16) as u32;
        }
        if index_format == 3 || index_format == 4 {
            let total: usize = t.glyphs.iter().map(|g| g.record.len()).sum();
            assert!(total + t.base_shift as usize <= 0xFFFF, "16-bit offsets overflow");
        }
    }
    if index_format == 4 {
        t.terminator_gid = match rng.below(3) {
            0 => 0,
            1 => last.saturating_add(1),
            _ => 0xFFFF,
        };
    }
    t
}

fn clamp_i8(v: i64) -> u8 {
    (v.max(-128).min(127) as i8) as u8
}

fn small_metrics(rng: &mut Rng, w: u8, h: u8) -> [u8; 5] {
    [
        h,
        w,
        clamp_i8(rng.range(-2, 3)),
        clamp_i8(i64::from(h) - rng.range(0, 3)),
        (u32::from(w) + 1 + rng.below(3) as u32).min(255) as u8,
    ]
}

fn big_metrics(rng: &mut Rng, w: u8, h: u8) -> [u8; 8] {
    [
        h,
        w,
        clamp_i8(rng.range(-2, 3)),
        clamp_i8(i64::from(h) - rng.range(0, 3)),
        (u32::from(w) + 1 + rng.below(3) as u32).min(255) as u8,
        clamp_i8(-i64::from(w / 2)),
        clamp_i8(rng.range(0, 3)),
        (u32::from(h) + 1 + rng.below(3) as u32).min(255) as u8,
    ]
}

/// Byte-aligned image data: each row padded to a byte boundary, pad bits zero.
fn byte_aligned(rng: &mut Rng, depth: u8, w: u8, h: u8) -> Vec<u8> {
    let bits_per_row = usize::from(depth) * usize::from(w);
    let bytes_per_row = (bits_per_row + 7) / 8;
    let rem = bits_per_row % 8;
    let mut out = Vec::with_capacity(bytes_per_row * usize::from(h));
    for _ in 0..h {
        for b in 0..bytes_per_row {
            let mut v = rng.next() as u8;
            if rem != 0 && b + 1 == bytes_per_row {
                v &= 0xFFu8 << (8 - rem);
            }
            out.push(v);
        }
    }
    out
}

/// Bit-aligned image data: rows follow each other without padding, only the end is padded.
fn bit_aligned(rng: &mut Rng, depth: u8, w: u8, h: u8) -> Vec<u8> {
    let bits = usize::from(depth) * usize::from(w) * usize::from(h);
    let bytes = (bits + 7) / 8;
    let rem = bits % 8;
    let mut out = Vec::with_capacity(bytes);
    for b in 0..bytes {
        let mut v = rng.next() as u8;
        if rem != 0 && b + 1 == bytes {
            v &= 0xFFu8 << (8 - rem);
        }
        out.push(v);
    }
    out
}

#[allow(clippy::too_many_arguments)]
fn make_glyph(
    rng: &mut Rng,
    gid: u16,
    image_format: u8,
    depth: u8,
    w: u8,
    h: u8,
    first: u16,
    last: u16,
    num_glyphs: u16,
) -> GlyphPlan {
    let mut rec: Vec<u8> = Vec::new();
    let payload_off;
    let payload_len;
    match image_format {
        1 | 2 => {
            rec.extend_from_slice(&small_metrics(rng, w, h));
            let img = if image_format == 1 {
                byte_aligned(rng, depth, w, h)
            } else {
                bit_aligned(rng, depth, w, h)
            };
            payload_off = rec.len();
            payload_len = img.len();
            rec.extend_from_slice(&img);
        }
        5 => {
            let img = bit_aligned(rng, depth, w, h);
            payload_off = 0;
            payload_len = img.len();
            rec.extend_from_slice(&img);
        }
        6 | 7 => {
            rec.extend_from_slice(&big_metrics(rng, w, h));
            let img = if image_format == 6 {
                byte_aligned(rng, depth, w, h)
            } else {
                bit_aligned(rng, depth, w, h)
            };
            payload_off = rec.len();
            payload_len = img.len();
            rec.extend_from_slice(&img);
        }
        8 | 9 => {
            if image_format == 8 {
                rec.extend_from_slice(&small_metrics(rng, w, h));
                rec.push(0); // pad
            } else {
                rec.extend_from_slice(&big_metrics(rng, w, h));
            }
            let n_comp = 1 + rng.below(3) as u16;
            rec.extend_from_slice(&n_comp.to_be_bytes());
            payload_off = rec.len();
            for _ in 0..n_comp {
                // Component glyph: another glyph of this range if possible, else any glyph.
                let comp = if last > first {
                    first + rng.below(u64::from(last - first) + 1) as u16
                } else {
                    rng.below(u64::from(num_glyphs)) as u16
                };
                rec.extend_from_slice(&comp.to_be_bytes());
                rec.push(clamp_i8(rng.range(-4, 4)));
                rec.push(clamp_i8(rng.range(-4, 4)));
            }
            payload_len = rec.len() - payload_off;
        }
        17 | 18 | 19 => {
            if image_format == 17 {
                rec.extend_from_slice(&small_metrics(rng, w, h));
            } else if image_format == 18 {
                rec.extend_from_slice(&big_metrics(rng, w, h));
            }
            let png = make_png(rng, w, h);
            rec.extend_from_slice(&(png.len() as u32).to_be_bytes());
            payload_off = rec.len();
            payload_len = png.len();
            rec.extend_from_slice(&png);
        }
        _ => unreachable!("image format {}", image_format),
    }
    GlyphPlan {
        glyph: gid,
        present: true,
        width: w,
        height: h,
        record: rec,
        payload_off,
        payload_len,
    }
}

// ------------------------------------------------------------------------------------------------
// Tiny but genuine PNG (8-bit RGBA, filter 0, zlib "stored" block)
// ------------------------------------------------------------------------------------------------

fn crc32(chunks: &[&[u8]]) -> u32 {
    let mut crc = 0xFFFF_FFFFu32;
    for chunk in chunks {
        for &b in *chunk {
            crc ^= u32::from(b);
            for _ in 0..8 {
                crc = if crc & 1 != 0 {
                    (crc >> 1) ^ 0xEDB8_8320
                } else {
                    crc >> 1
                };
            }
        }
    }
    !crc
}

fn adler32(data: &[u8]) -> u32 {
    let (mut a, mut b) = (1u32, 0u32);
    for &d in data {
        a = (a + u32::from(d)) % 65521;
        b = (b + a) % 65521;
    }
    (b << 16) | a
}

fn png_chunk(out: &mut Vec<u8>, kind: &[u8; 4], data: &[u8]) {
    out.extend_from_slice(&(data.len() as u32).to_be_bytes());
    out.extend_from_slice(kind);
    out.extend_from_slice(data);
    out.extend_from_slice(&crc32(&[kind, data]).to_be_bytes());
}

fn make_png(rng: &mut Rng, w: u8, h: u8) -> Vec<u8> {
    debug_assert!(w >= 1 && h >= 1);
    let mut raw = Vec::with_capacity(usize::from(h) * (1 + 4 * usize::from(w)));
    for _ in 0..h {
        raw.push(0); // filter type None
        for _ in 0..w {
            raw.extend_from_slice(&(rng.next() as u32).to_be_bytes());
        }
    }
    debug_assert!(raw.len() <= 0xFFFF);
    let mut z = vec![0x78, 0x01, 0x01];
    z.extend_from_slice(&(raw.len() as u16).to_le_bytes());
    z.extend_from_slice(&(!(raw.len() as u16)).to_le_bytes());
    z.extend_from_slice(&raw);
    z.extend_from_slice(&adler32(&raw).to_be_bytes());

    let mut out = Vec::with_capacity(57 + z.len());
    out.extend_from_slice(&PNG_SIG);
    let mut ihdr = Vec::with_capacity(13);
    ihdr.extend_from_slice(&u32::from(w).to_be_bytes());
    ihdr.extend_from_slice(&u32::from(h).to_be_bytes());
    ihdr.extend_from_slice(&[8, 6, 0, 0, 0]); // 8-bit, RGBA, deflate, adaptive, no interlace
    png_chunk(&mut out, b"IHDR", &ihdr);
    png_chunk(&mut out, b"IDAT", &z);
    png_chunk(&mut out, b"IEND", &[]);
    out
}

// ------------------------------------------------------------------------------------------------
// Serialisation
// ------------------------------------------------------------------------------------------------

fn permutation(n: usize, shuffle: bool, seed: u64) -> Vec<usize> {
    let mut v: Vec<usize> = (0..n).collect();
    if shuffle && n > 1 {
        let mut r = Rng(seed);
        for i in (1..n).rev() {
            let j = r.below(i as u64 + 1) as usize;
            v.swap(i, j);
        }
    }
    v
}

fn pad4(v: &mut Vec<u8>) {
    while v.len() % 4 != 0 {
        v.push(0);
    }
}

fn sbit_line_metrics(st: &StrikePlan, vertical: bool) -> [u8; 12] {
    let ppem = i64::from(if vertical { st.ppem_x } else { st.ppem_y });
    let mut width_max = 0u8;
    let mut max_before_bl = i64::from(i8::MIN);
    let mut min_after_bl = i64::from(i8::MAX);
    let mut min_origin_sb = i64::from(i8::MAX);
    let mut any = false;
    for t in &st.subtables {
        for g in t.glyphs.iter().filter(|g| g.present) {
            any = true;
            let extent = if vertical { g.height } else { g.width };
            width_max = width_max.max(extent);
            // bearings: pull them back out of the metrics we wrote
            let m: &[u8] = match t.image_format {
                5 | 19 => &t.big_metrics,
                _ => &g.record,
            };
            let big = matches!(t.image_format, 5 | 6 | 7 | 9 | 18 | 19);
            let (bx, by) = if big && vertical {
                (m[5] as i8, m[6] as i8)
            } else {
                (m[2] as i8, m[3] as i8)
            };
            min_origin_sb = min_origin_sb.min(i64::from(bx));
            max_before_bl = max_before_bl.max(i64::from(by));
            min_after_bl = min_after_bl.min(i64::from(by) - i64::from(g.height));
        }
    }
    if !any {
        max_before_bl = 0;
        min_after_bl = 0;
        min_origin_sb = 0;
    }
    [
        clamp_i8(ppem * 4 / 5),      // ascender
        clamp_i8(-(ppem / 5)),       // descender
        width_max,                   // widthMax
        1,                           // caretSlopeNumerator
        0,                           // caretSlopeDenominator
        0,                           // caretOffset
        clamp_i8(min_origin_sb),     // minOriginSB
        0,                           // minAdvanceSB
        clamp_i8(max_before_bl),     // maxBeforeBL
        clamp_i8(min_after_bl),      // minAfterBL
        0,                           // pad1
        0,                           // pad2
    ]
}

fn serialize(plan: &Plan) -> (BitmapTables, Vec<GlyphInfo>) {
    let (major, loc_tag, data_tag): (u16, [u8; 4], [u8; 4]) = if plan.colour {
        (3, *b"CBLC", *b"CBDT")
    } else {
        (2, *b"EBLC", *b"EBDT")
    };

    // ---- data table ------------------------------------------------------------------------------
    let mut data: Vec<u8> = Vec::new();
    data.extend_from_slice(&major.to_be_bytes());
    data.extend_from_slice(&0u16.to_be_bytes());

    let mut blocks: Vec<(usize, usize)> = Vec::new();
    for (si, s) in plan.strikes.iter().enumerate() {
        for ti in 0..s.subtables.len() {
            blocks.push((si, ti));
        }
    }
    let order = permutation(blocks.len(), plan.shuffle_data, plan.perm_seed);
    // block_start[si][ti]
    let mut block_start: Vec<Vec<u32>> = plan
        .strikes
        .iter()
        .map(|s| vec![0u32; s.subtables.len()])
        .collect();
    let mut infos: Vec<GlyphInfo> = Vec::new();
    for &bi in &order {
        let (si, ti) = blocks[bi];
        let s = &plan.strikes[si];
        let t = &s.subtables[ti];
        // The first offset of the block is `base_shift`, so imageDataOffset = start - base_shift
        // must not become negative: pad if required (it never is, the header is 4 bytes and
        // shifts are <= 16, but blocks after the first are far enough anyway).
        let mut pad = t.data_pad;
        while data.len() + pad < t.base_shift as usize {
            pad += 1;
        }
        data.extend(std::iter::repeat(0u8).take(pad));
        block_start[si][ti] = data.len() as u32;
        for g in &t.glyphs {
            if g.present {
                infos.push(GlyphInfo {
                    glyph: g.glyph,
                    strike: si,
                    subtable: ti,
                    ppem: s.ppem_x,
                    ppem_y: s.ppem_y,
                    bit_depth: s.bit_depth,
                    index_format: t.index_format,
                    image_format: t.image_format,
                    width: g.width,
                    height: g.height,
                    data_offset: data.len() as u32,
                    record_len: g.record.len() as u32,
                    payload: g.record[g.payload_off..g.payload_off + g.payload_len].to_vec(),
                });
            }
            data.extend_from_slice(&g.record);
        }
    }
    data.extend(std::iter::repeat(0u8).take(plan.trailing_pad));
    infos.sort_by_key(|g| (g.strike, g.subtable, g.glyph));

    // ---- location table --------------------------------------------------------------------------
    let n_strikes = plan.strikes.len();
    let mut loc: Vec<u8> = Vec::new();
    loc.extend_from_slice(&major.to_be_bytes());
    loc.extend_from_slice(&0u16.to_be_bytes());
    loc.extend_from_slice(&(n_strikes as u32).to_be_bytes());
    let sizes_start = loc.len();
    loc.resize(sizes_start + 48 * n_strikes, 0);

    let strike_order = permutation(n_strikes, plan.shuffle_loc, plan.perm_seed ^ 0x5555);
    for &si in &strike_order {
        let s = &plan.strikes[si];
        let k = s.subtables.len();
        pad4(&mut loc);
        let array_off = loc.len();
        loc.resize(array_off + 8 * k, 0);
        let sub_order = permutation(k, plan.shuffle_loc, plan.perm_seed ^ (si as u64 + 1));
        for &ti in &sub_order {
            let t = &s.subtables[ti];
            pad4(&mut loc);
            let additional = (loc.len() - array_off) as u32;
            // record
            let r = array_off + 8 * ti;
            loc[r..r + 2].copy_from_slice(&t.first.to_be_bytes());
            loc[r + 2..r + 4].copy_from_slice(&t.last.to_be_bytes());
            loc[r + 4..r + 8].copy_from_slice(&additional.to_be_bytes());
            // sub table header
            let image_data_offset = block_start[si][ti] - t.base_shift;
            loc.extend_from_slice(&u16::from(t.index_format).to_be_bytes());
            loc.extend_from_slice(&u16::from(t.image_format).to_be_bytes());
            loc.extend_from_slice(&image_data_offset.to_be_bytes());
            match t.index_format {
                1 => {
                    let mut off = t.base_shift;
                    for g in &t.glyphs {
                        loc.extend_from_slice(&off.to_be_bytes());
                        off += g.record.len() as u32;
                    }
                    loc.extend_from_slice(&off.to_be_bytes());
                }
                2 => {
                    loc.extend_from_slice(&t.image_size.to_be_bytes());
                    loc.extend_from_slice(&t.big_metrics);
                }
                3 => {
                    let mut off = t.base_shift as u16;
                    for g in &t.glyphs {
                        loc.extend_from_slice(&off.to_be_bytes());
                        off += g.record.len() as u16;
                    }
                    loc.extend_from_slice(&off.to_be_bytes());
                }
                4 => {
                    loc.extend_from_slice(&(t.glyphs.len() as u32).to_be_bytes());
                    let mut off = t.base_shift as u16;
                    for g in &t.glyphs {
                        loc.extend_from_slice(&g.glyph.to_be_bytes());
                        loc.extend_from_slice(&off.to_be_bytes());
                        off += g.record.len() as u16;
                    }
                    loc.extend_from_slice(&t.terminator_gid.to_be_bytes());
                    loc.extend_from_slice(&off.to_be_bytes());
                }
                5 => {
                    loc.extend_from_slice(&t.image_size.to_be_bytes());
                    loc.extend_from_slice(&t.big_metrics);
                    loc.extend_from_slice(&(t.glyphs.len() as u32).to_be_bytes());
                    for g in &t.glyphs {
                        loc.extend_from_slice(&g.glyph.to_be_bytes());
                    }
                }
                _ => unreachable!(),
            }
            pad4(&mut loc);
        }
        let index_tables_size = (loc.len() - array_off) as u32;

        // BitmapSize record
        let mut b: Vec<u8> = Vec::with_capacity(48);
        b.extend_from_slice(&(array_off as u32).to_be_bytes());
        b.extend_from_slice(&index_tables_size.to_be_bytes());
        b.extend_from_slice(&(k as u32).to_be_bytes());
        b.extend_from_slice(&0u32.to_be_bytes()); // colorRef
        b.extend_from_slice(&sbit_line_metrics(s, false));
        b.extend_from_slice(&sbit_line_metrics(s, true));
        let start = s.subtables.iter().map(|t| t.first).min().unwrap();
        let end = s.subtables.iter().map(|t| t.last).max().unwrap();
        b.extend_from_slice(&start.to_be_bytes());
        b.extend_from_slice(&end.to_be_bytes());
        b.extend_from_slice(&[s.ppem_x, s.ppem_y, s.bit_depth, s.flags]);
        debug_assert_eq!(b.len(), 48);
        loc[sizes_start + 48 * si..sizes_start + 48 * (si + 1)].copy_from_slice(&b);
    }

    (
        BitmapTables {
            location_tag: loc_tag,
            location: loc,
            data_tag,
            data,
        },
        infos,
    )
}

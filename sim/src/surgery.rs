//! Font surgery: valid-by-construction edits that give the corpus structures it lacks
//! (no corpus font has a FeatureVariations table).

use std::rc::Rc;

use crate::disk::Disk;
use crate::trace::{tag_from_str, FvRecord, Surgery};
use crate::{bitmap_build, morx_build};

const FVAR: u32 = 0x6676_6172;

fn be16(d: &[u8], o: usize) -> Option<u16> {
    d.get(o..o + 2).map(|b| u16::from_be_bytes([b[0], b[1]]))
}

pub fn synthetic_fvar() -> Vec<u8> {
    let mut v = Vec::new();
    v.extend_from_slice(&[0, 1, 0, 0]); // version 1.0
    v.extend_from_slice(&16u16.to_be_bytes()); // axesArrayOffset
    v.extend_from_slice(&2u16.to_be_bytes()); // reserved
    v.extend_from_slice(&1u16.to_be_bytes()); // axisCount
    v.extend_from_slice(&20u16.to_be_bytes()); // axisSize
    v.extend_from_slice(&0u16.to_be_bytes()); // instanceCount
    v.extend_from_slice(&8u16.to_be_bytes()); // instanceSize
    v.extend_from_slice(b"wght");
    v.extend_from_slice(&(100i32 << 16).to_be_bytes());
    v.extend_from_slice(&(400i32 << 16).to_be_bytes());
    v.extend_from_slice(&(900i32 << 16).to_be_bytes());
    v.extend_from_slice(&0u16.to_be_bytes()); // flags
    v.extend_from_slice(&256u16.to_be_bytes()); // axisNameID
    v
}

pub fn feature_variations(feature_index: u16, lookups: &[u16], min: i16, max: i16, axis: u16) -> Vec<u8> {
    let mut v = Vec::new();
    v.extend_from_slice(&[0, 1, 0, 0]); // version 1.0
    v.extend_from_slice(&1u32.to_be_bytes()); // featureVariationRecordCount
    v.extend_from_slice(&16u32.to_be_bytes()); // conditionSetOffset
    v.extend_from_slice(&30u32.to_be_bytes()); // featureTableSubstitutionOffset
    // ConditionSet @16
    v.extend_from_slice(&1u16.to_be_bytes());
    v.extend_from_slice(&6u32.to_be_bytes());
    // Condition format 1 @22
    v.extend_from_slice(&1u16.to_be_bytes());
    v.extend_from_slice(&axis.to_be_bytes()); // axisIndex
    v.extend_from_slice(&min.to_be_bytes());
    v.extend_from_slice(&max.to_be_bytes());
    // FeatureTableSubstitution @30
    debug_assert_eq!(v.len(), 30);
    v.extend_from_slice(&[0, 1, 0, 0]);
    v.extend_from_slice(&1u16.to_be_bytes());
    v.extend_from_slice(&feature_index.to_be_bytes());
    v.extend_from_slice(&12u32.to_be_bytes()); // alternateFeatureOffset
    // Feature table @42
    v.extend_from_slice(&0u16.to_be_bytes());
    v.extend_from_slice(&(lookups.len() as u16).to_be_bytes());
    for l in lookups {
        v.extend_from_slice(&l.to_be_bytes());
    }
    v
}

/// FeatureVariations table with one record per entry of `records` (condition on axis 0).
pub fn feature_variations_multi(records: &[FvRecord]) -> Vec<u8> {
    let n = records.len();
    let mut v = Vec::new();
    v.extend_from_slice(&[0, 1, 0, 0]);
    v.extend_from_slice(&(n as u32).to_be_bytes());
    let header = 8 + 8 * n;
    // per record: ConditionSet (2 + 4) + Condition (8) = 14 bytes, then substitution table
    let mut bodies: Vec<Vec<u8>> = Vec::new();
    let mut offsets = Vec::new();
    let mut at = header;
    for r in records {
        let mut b = Vec::new();
        b.extend_from_slice(&1u16.to_be_bytes());
        b.extend_from_slice(&6u32.to_be_bytes());
        b.extend_from_slice(&1u16.to_be_bytes());
        b.extend_from_slice(&0u16.to_be_bytes());
        b.extend_from_slice(&r.min.to_be_bytes());
        b.extend_from_slice(&r.max.to_be_bytes());
        let subst = at + b.len();
        b.extend_from_slice(&[0, 1, 0, 0]);
        b.extend_from_slice(&1u16.to_be_bytes());
        b.extend_from_slice(&r.feature_index.to_be_bytes());
        b.extend_from_slice(&12u32.to_be_bytes());
        b.extend_from_slice(&0u16.to_be_bytes());
        b.extend_from_slice(&(r.lookups.len() as u16).to_be_bytes());
        for l in &r.lookups {
            b.extend_from_slice(&l.to_be_bytes());
        }
        offsets.push((at as u32, subst as u32));
        at += b.len();
        bodies.push(b);
    }
    for (c, s) in &offsets {
        v.extend_from_slice(&c.to_be_bytes());
        v.extend_from_slice(&s.to_be_bytes());
    }
    for b in bodies {
        v.extend_from_slice(&b);
    }
    v
}

fn append_feature_variations(disk: &mut Disk, table: &str, fv: Vec<u8>) -> Result<(), String> {
    let t = tag_from_str(table);
    let old = disk
        .tables
        .get(&t)
        .ok_or_else(|| format!("surgery: no {} table", table))?
        .clone();
    if old.len() < 10 || be16(&old, 0) != Some(1) {
        return Err("surgery: unexpected layout table header".into());
    }
    let minor = be16(&old, 2).unwrap_or(0);
    let mut new = Vec::with_capacity(old.len() + fv.len() + 8);
    if minor == 0 {
        new.extend_from_slice(&[0, 1, 0, 1]);
        for o in [4usize, 6, 8] {
            let v = be16(&old, o).unwrap_or(0);
            let v = if v == 0 { 0 } else { v.checked_add(4).ok_or("surgery: offset overflow")? };
            new.extend_from_slice(&v.to_be_bytes());
        }
        let body = &old[10..];
        let mut fv_off = 14 + body.len();
        let pad = (4 - fv_off % 4) % 4;
        fv_off += pad;
        new.extend_from_slice(&(fv_off as u32).to_be_bytes());
        new.extend_from_slice(body);
        new.extend(std::iter::repeat(0).take(pad));
    } else {
        if old.len() < 14 {
            return Err("surgery: short v1.1 header".into());
        }
        new.extend_from_slice(&old);
        while new.len() % 4 != 0 {
            new.push(0);
        }
        let fv_off = new.len() as u32;
        new[10..14].copy_from_slice(&fv_off.to_be_bytes());
    }
    new.extend_from_slice(&fv);
    disk.tables.insert(t, Rc::new(new));
    disk.tables
        .entry(FVAR)
        .or_insert_with(|| Rc::new(synthetic_fvar()));
    Ok(())
}

/// A well-formed version 0 `kern` table keyed on `glyphs`; every choice is a function of
/// (num_glyphs, glyphs, variant).
pub fn build_kern(num_glyphs: u16, glyphs: &[u16], variant: u64) -> Vec<u8> {
    let mut x = variant.wrapping_mul(0x9E37_79B9_7F4A_7C15) | 1;
    let mut next = move || {
        x ^= x << 13;
        x ^= x >> 7;
        x ^= x << 17;
        x
    };
    let mut gs: Vec<u16> = glyphs.iter().copied().filter(|g| *g < num_glyphs).collect();
    gs.sort_unstable();
    gs.dedup();
    let nsub = 1 + (next() % 3) as usize;
    let mut out = Vec::new();
    out.extend_from_slice(&0u16.to_be_bytes());
    out.extend_from_slice(&(nsub as u16).to_be_bytes());
    for _ in 0..nsub {
        let format2 = next() % 2 == 0 && !gs.is_empty();
        // horizontal mostly; minimum / cross-stream / override bits vary
        let mut flags = 1u16;
        if next() % 6 == 0 {
            flags = 0;
        }
        if next() % 5 == 0 {
            flags |= 2;
        }
        if next() % 7 == 0 {
            flags |= 4;
        }
        if next() % 4 == 0 {
            flags |= 8;
        }
        let mut sub = Vec::new();
        sub.extend_from_slice(&0u16.to_be_bytes()); // version
        sub.extend_from_slice(&0u16.to_be_bytes()); // length (patched)
        sub.extend_from_slice(&(flags | if format2 { 0x0200 } else { 0 }).to_be_bytes());
        if !format2 {
            let mut pairs: Vec<(u16, u16, i16)> = Vec::new();
            for (i, l) in gs.iter().enumerate() {
                for (j, r) in gs.iter().enumerate() {
                    if (next() % 3 == 0 || (i + j) % 5 == 0) && pairs.len() < 600 {
                        pairs.push((*l, *r, ((next() % 400) as i16) - 200));
                    }
                }
            }
            pairs.sort_unstable();
            let np = pairs.len() as u16;
            let mut es = 0u16;
            while (1u32 << (es + 1)) <= u32::from(np.max(1)) {
                es += 1;
            }
            let sr = (1u16 << es) * 6;
            sub.extend_from_slice(&np.to_be_bytes());
            sub.extend_from_slice(&sr.to_be_bytes());
            sub.extend_from_slice(&es.to_be_bytes());
            sub.extend_from_slice(&(np.wrapping_mul(6).wrapping_sub(sr)).to_be_bytes());
            for (l, r, v) in pairs {
                sub.extend_from_slice(&l.to_be_bytes());
                sub.extend_from_slice(&r.to_be_bytes());
                sub.extend_from_slice(&v.to_be_bytes());
            }
        } else {
            let first = gs[0];
            let last = *gs.last().unwrap();
            let span = usize::from(last - first) + 1;
            let span = span.min(2000);
            let lclasses = 1 + (next() % 4) as usize;
            let rclasses = 1 + (next() % 4) as usize;
            let row_width = (2 * (rclasses + 1)) as u16;
            let header = 6 + 8;
            let left_off = header;
            let right_off = left_off + 4 + 2 * span;
            let array_off = right_off + 4 + 2 * span;
            sub.extend_from_slice(&row_width.to_be_bytes());
            sub.extend_from_slice(&(left_off as u16).to_be_bytes());
            sub.extend_from_slice(&(right_off as u16).to_be_bytes());
            sub.extend_from_slice(&(array_off as u16).to_be_bytes());
            for side in 0..2 {
                sub.extend_from_slice(&first.to_be_bytes());
                sub.extend_from_slice(&(span as u16).to_be_bytes());
                for k in 0..span {
                    let g = first + k as u16;
                    let class = if gs.binary_search(&g).is_ok() {
                        1 + (next() as usize) % if side == 0 { lclasses } else { rclasses }
                    } else {
                        0
                    };
                    let v = if side == 0 { class * usize::from(row_width) } else { class * 2 };
                    sub.extend_from_slice(&(v as u16).to_be_bytes());
                }
            }
            for r in 0..=lclasses {
                for c in 0..=rclasses {
                    let v: i16 = if r == 0 || c == 0 { 0 } else { ((next() % 300) as i16) - 150 };
                    sub.extend_from_slice(&v.to_be_bytes());
                }
            }
        }
        let len = sub.len().min(0xFFFF) as u16;
        sub[2..4].copy_from_slice(&len.to_be_bytes());
        out.extend_from_slice(&sub);
    }
    out
}

fn be32(d: &[u8], o: usize) -> Option<u32> {
    d.get(o..o + 4).map(|b| u32::from_be_bytes([b[0], b[1], b[2], b[3]]))
}

/// (lookup type, flag, mark filtering set, absolute subtable offsets) of every lookup.
pub fn lookup_list(d: &[u8]) -> Option<Vec<(u16, u16, Option<u16>, Vec<usize>)>> {
    let ll = usize::from(be16(d, 8)?);
    if ll == 0 {
        return None;
    }
    let n = usize::from(be16(d, ll)?);
    let mut out = Vec::with_capacity(n);
    for i in 0..n {
        let l = ll + usize::from(be16(d, ll + 2 + 2 * i)?);
        let ty = be16(d, l)?;
        let flag = be16(d, l + 2)?;
        let sc = usize::from(be16(d, l + 4)?);
        let mut subs = Vec::with_capacity(sc);
        for j in 0..sc {
            subs.push(l + usize::from(be16(d, l + 6 + 2 * j)?));
        }
        let mfs = if flag & 0x10 != 0 { Some(be16(d, l + 6 + 2 * sc)?) } else { None };
        out.push((ty, flag, mfs, subs));
    }
    Some(out)
}

/// See `Surgery::ExtensionRelocate`.
pub fn extension_relocate(d: &[u8], gpos: bool, a: usize, b: usize) -> Option<Vec<u8>> {
    if be16(d, 0)? != 1 || be16(d, 2)? != 0 || d.len() > 40_000 {
        return None;
    }
    let ext_type: u16 = if gpos { 9 } else { 7 };
    let (sl, fl) = (usize::from(be16(d, 4)?), usize::from(be16(d, 6)?));
    let lookups = lookup_list(d)?;
    if lookups.len() > 300 || a >= lookups.len() || b >= lookups.len() || a == b {
        return None;
    }
    // resolve each subtable to (real type, absolute offset of the real subtable)
    let mut resolved: Vec<Vec<(u16, usize)>> = Vec::new();
    for (ty, _, _, subs) in &lookups {
        let mut v = Vec::new();
        for s in subs {
            if *ty == ext_type {
                let inner_ty = be16(d, s + 2)?;
                let off = be32(d, s + 4)? as usize;
                v.push((inner_ty, s + off));
            } else {
                v.push((*ty, *s));
            }
        }
        resolved.push(v);
    }
    // Coverage of the first subtable (offset at +2 in every format that has one there;
    // context format 3 and extension are avoided by the generator)
    let cov = |k: usize| -> Option<usize> {
        let (_, s) = *resolved[k].first()?;
        let c = usize::from(be16(d, s + 2)?);
        if c == 0 || s + c + 4 > d.len() {
            return None;
        }
        Some(s + c)
    };
    let (xa, xb) = (cov(a)?, cov(b)?);
    // sizes of the new lookup area
    let n = lookups.len();
    let mut area = 2 + 2 * n;
    for (_, _, mfs, subs) in &lookups {
        area += 6 + 2 * subs.len() + if mfs.is_some() { 2 } else { 0 } + 8 * subs.len();
    }
    let b1 = (10 + area + 3) / 4 * 4;
    if b1 + sl.max(fl) > 0xFFFF || area > 0xFFFF {
        return None;
    }
    let b2 = b1 + 65536 + xa - xb;
    let mut out = vec![0u8; b2 + d.len()];
    out[0..4].copy_from_slice(&[0, 1, 0, 0]);
    out[4..6].copy_from_slice(&((b1 + sl) as u16).to_be_bytes());
    out[6..8].copy_from_slice(&((b1 + fl) as u16).to_be_bytes());
    out[8..10].copy_from_slice(&10u16.to_be_bytes());
    out[b1..b1 + d.len()].copy_from_slice(d);
    out[b2..b2 + d.len()].copy_from_slice(d);
    let ll = 10;
    out[ll..ll + 2].copy_from_slice(&(n as u16).to_be_bytes());
    let mut at = ll + 2 + 2 * n;
    for (i, (_, flag, mfs, subs)) in lookups.iter().enumerate() {
        out[ll + 2 + 2 * i..ll + 4 + 2 * i].copy_from_slice(&((at - ll) as u16).to_be_bytes());
        let l = at;
        out[l..l + 2].copy_from_slice(&ext_type.to_be_bytes());
        out[l + 2..l + 4].copy_from_slice(&flag.to_be_bytes());
        out[l + 4..l + 6].copy_from_slice(&(subs.len() as u16).to_be_bytes());
        let mut p = l + 6 + 2 * subs.len();
        if let Some(m) = mfs {
            out[p..p + 2].copy_from_slice(&m.to_be_bytes());
            p += 2;
        }
        for (j, (real_ty, real_at)) in resolved[i].iter().enumerate() {
            out[l + 6 + 2 * j..l + 8 + 2 * j].copy_from_slice(&((p - l) as u16).to_be_bytes());
            let blob = if i == b { b2 } else { b1 };
            let target = blob + real_at;
            out[p..p + 2].copy_from_slice(&1u16.to_be_bytes());
            out[p + 2..p + 4].copy_from_slice(&real_ty.to_be_bytes());
            out[p + 4..p + 8].copy_from_slice(&((target - p) as u32).to_be_bytes());
            p += 8;
        }
        at = p;
    }
    Some(out)
}

/// A format 0 `name` table (Windows Unicode BMP/full records, UTF-16BE) with long names.
pub fn build_names(variant: u64) -> Vec<u8> {
    struct X(u64);
    impl X {
        fn next(&mut self) -> u64 {
            self.0 ^= self.0 << 13;
            self.0 ^= self.0 >> 7;
            self.0 ^= self.0 << 17;
            self.0
        }
    }
    let mut x = X(variant.wrapping_mul(0x9E37_79B9_7F4A_7C15) | 1);
    let alphabets: [&[char]; 5] = [
        &['A', 'b', 'C', 'd', 'e', 'F', '1', '2'],
        &['Ж', 'и', 'в', 'о', 'п', 'и', 'с', 'ь'],
        &['明', '朝', '体', '黒', '字'],
        &['𝐀', '𝐁', '😀', '𐐷'],
        &['é', 'ß', 'ø', 'A', 'z', '-', ' ', 'Ω'],
    ];
    fn make(x: &mut X, alphabets: &[&[char]; 5], len: usize) -> String {
        let a = alphabets[(x.next() % 5) as usize];
        let ascii_prefix = (x.next() % 4) as usize; // shifts the byte alignment of what follows
        let mut s: String = "Xy0".chars().take(ascii_prefix).collect();
        for _ in 0..len {
            // mostly the chosen alphabet, sometimes ASCII in between
            if x.next() % 6 == 0 {
                s.push((b'a' + (x.next() % 26) as u8) as char);
            } else {
                s.push(a[(x.next() % a.len() as u64) as usize]);
            }
        }
        s
    }
    let lens = [3usize, 20, 31, 32, 33, 40, 63, 64, 70, 130];
    let mut names: Vec<(u16, String)> = Vec::new();
    for id in [1u16, 2, 3, 4, 6, 16, 17, 25, 256, 257, 258, 259] {
        let l = match id {
            1 | 16 | 25 => lens[(x.next() % lens.len() as u64) as usize],
            _ => 4 + (x.next() % 12) as usize,
        };
        // not every id is present in every variant
        if matches!(id, 16 | 17 | 25) && x.next() % 3 == 0 {
            continue;
        }
        let name = make(&mut x, &alphabets, l);
        names.push((id, name));
    }
    let mut storage: Vec<u8> = Vec::new();
    let mut recs: Vec<u8> = Vec::new();
    for (id, s) in &names {
        let bmp = s.chars().all(|c| (c as u32) < 0x10000);
        let off = storage.len();
        for u in s.encode_utf16() {
            storage.extend_from_slice(&u.to_be_bytes());
        }
        let len = storage.len() - off;
        recs.extend_from_slice(&3u16.to_be_bytes());
        recs.extend_from_slice(&(if bmp { 1u16 } else { 10 }).to_be_bytes());
        recs.extend_from_slice(&0x0409u16.to_be_bytes());
        recs.extend_from_slice(&id.to_be_bytes());
        recs.extend_from_slice(&(len as u16).to_be_bytes());
        recs.extend_from_slice(&(off as u16).to_be_bytes());
    }
    let count = names.len() as u16;
    let mut out = Vec::new();
    out.extend_from_slice(&0u16.to_be_bytes());
    out.extend_from_slice(&count.to_be_bytes());
    out.extend_from_slice(&(6 + 12 * count).to_be_bytes());
    out.extend_from_slice(&recs);
    out.extend_from_slice(&storage);
    out
}

/// GDEF 1.3 with an ItemVariationStore + GPOS `kern` lookups with VariationIndex device tables.
pub fn build_var_gpos(axes: u16, glyphs: &[u16], variant: u64) -> (Vec<u8>, Vec<u8>) {
    let p16 = |v: &mut Vec<u8>, x: u16| v.extend_from_slice(&x.to_be_bytes());
    let p32 = |v: &mut Vec<u8>, x: u32| v.extend_from_slice(&x.to_be_bytes());
    // ---- GDEF
    let mut gdef = Vec::new();
    p16(&mut gdef, 1);
    p16(&mut gdef, 3);
    p16(&mut gdef, 0); // glyphClassDef
    p16(&mut gdef, 0); // attachList
    p16(&mut gdef, 0); // ligCaretList
    p16(&mut gdef, 0); // markAttachClassDef
    p16(&mut gdef, 0); // markGlyphSetsDef
    p32(&mut gdef, 18); // itemVarStore
    // ItemVariationStore: format, regionListOffset, dataCount, dataOffsets
    let regions: u16 = 2;
    let ivs_header = 2 + 4 + 2 + 4;
    let region_list_len = 4 + usize::from(regions) * usize::from(axes) * 6;
    p16(&mut gdef, 1);
    p32(&mut gdef, ivs_header as u32);
    p16(&mut gdef, 1);
    p32(&mut gdef, (ivs_header + region_list_len) as u32);
    p16(&mut gdef, axes);
    p16(&mut gdef, regions);
    for r in 0..regions {
        for a in 0..axes {
            // region 0: positive half of axis 0; region 1: negative half of the last axis
            let (start, peak, end): (i16, i16, i16) = if r == 0 && a == 0 {
                (0, 0x4000, 0x4000)
            } else if r == 1 && a == axes - 1 {
                (-0x4000, -0x4000, 0)
            } else {
                (0, 0, 0)
            };
            gdef.extend_from_slice(&start.to_be_bytes());
            gdef.extend_from_slice(&peak.to_be_bytes());
            gdef.extend_from_slice(&end.to_be_bytes());
        }
    }
    // ItemVariationData: itemCount, wordDeltaCount, regionIndexCount, regionIndexes, delta sets
    let items: u16 = 3;
    let words = (variant % 3) as u16; // 0, 1 or 2 word-sized deltas per row
    p16(&mut gdef, items);
    p16(&mut gdef, words.min(regions));
    p16(&mut gdef, regions);
    p16(&mut gdef, 0);
    p16(&mut gdef, 1);
    let rows: [[i16; 2]; 3] = [[100, -60], [-40, 25], [7, 120]];
    for row in rows.iter().take(usize::from(items)) {
        for (k, dlt) in row.iter().enumerate() {
            if (k as u16) < words.min(regions) {
                gdef.extend_from_slice(&dlt.to_be_bytes());
            } else {
                gdef.push(*dlt as i8 as u8);
            }
        }
    }
    // ---- GPOS: DFLT + latn scripts -> feature kern -> lookups 0 (single) and 1 (pair)
    let mut gpos = Vec::new();
    p16(&mut gpos, 1);
    p16(&mut gpos, 0);
    p16(&mut gpos, 10); // scriptList
    let script_list_len = 2 + 2 * 6 + 2 * (4 + 6 + 2);
    p16(&mut gpos, (10 + script_list_len) as u16); // featureList
    let feature_list_len = 2 + 6 + 4 + 4;
    p16(&mut gpos, (10 + script_list_len + feature_list_len) as u16); // lookupList
    // ScriptList
    p16(&mut gpos, 2);
    gpos.extend_from_slice(b"DFLT");
    p16(&mut gpos, 14);
    gpos.extend_from_slice(b"latn");
    p16(&mut gpos, 14 + 12);
    for _ in 0..2 {
        p16(&mut gpos, 4); // defaultLangSys
        p16(&mut gpos, 0); // langSysCount
        p16(&mut gpos, 0); // lookupOrder
        p16(&mut gpos, 0xFFFF); // requiredFeatureIndex
        p16(&mut gpos, 1);
        p16(&mut gpos, 0);
    }
    // FeatureList
    p16(&mut gpos, 1);
    gpos.extend_from_slice(b"kern");
    p16(&mut gpos, 8);
    p16(&mut gpos, 0);
    p16(&mut gpos, 2);
    p16(&mut gpos, 0);
    p16(&mut gpos, 1);
    // LookupList
    let ll = gpos.len();
    p16(&mut gpos, 2);
    p16(&mut gpos, 0); // patched
    p16(&mut gpos, 0); // patched
    let coverage = |gs: &[u16]| -> Vec<u8> {
        let mut v = Vec::new();
        v.extend_from_slice(&1u16.to_be_bytes());
        v.extend_from_slice(&(gs.len() as u16).to_be_bytes());
        for g in gs {
            v.extend_from_slice(&g.to_be_bytes());
        }
        v
    };
    let var_index = |inner: u16| -> Vec<u8> {
        let mut v = Vec::new();
        v.extend_from_slice(&0u16.to_be_bytes()); // outer
        v.extend_from_slice(&inner.to_be_bytes());
        v.extend_from_slice(&0x8000u16.to_be_bytes());
        v
    };
    // lookup 0: SinglePos
    let l0 = gpos.len();
    let off0 = (l0 - ll) as u16;
    gpos[ll + 2..ll + 4].copy_from_slice(&off0.to_be_bytes());
    p16(&mut gpos, 1);
    p16(&mut gpos, 0);
    p16(&mut gpos, 1);
    p16(&mut gpos, 8);
    let st = gpos.len();
    let fmt2 = variant % 2 == 1;
    // valueFormat: XAdvance | XAdvDevice (+ XPlacement | XPlaDevice for odd variants)
    let vf: u16 = if variant % 4 >= 2 { 0x0004 | 0x0040 | 0x0001 | 0x0010 } else { 0x0004 | 0x0040 };
    let fields = vf.count_ones() as usize;
    if !fmt2 {
        // format 1: format, coverageOffset, valueFormat, value
        let value_at = 6;
        let dev_at = value_at + 2 * fields;
        let cov_at = dev_at + 6 * (fields / 2);
        p16(&mut gpos, 1);
        p16(&mut gpos, cov_at as u16);
        p16(&mut gpos, vf);
        let mut devs = Vec::new();
        let mut k = 0u16;
        for bit in [0x0001u16, 0x0004, 0x0010, 0x0040] {
            if vf & bit != 0 {
                if bit < 0x0010 {
                    p16(&mut gpos, 10 + k);
                } else {
                    p16(&mut gpos, (dev_at + devs.len()) as u16);
                    devs.extend(var_index(k % 3));
                }
                k += 1;
            }
        }
        gpos.extend_from_slice(&devs);
        debug_assert_eq!(gpos.len() - st, cov_at);
        gpos.extend(coverage(glyphs));
    } else {
        // format 2: one value record per covered glyph
        let count = glyphs.len().min(64);
        let gs = &glyphs[..count];
        let values_at = 8;
        let dev_at = values_at + 2 * fields * count;
        let ndev = (fields / 2) * count;
        let cov_at = dev_at + 6 * ndev;
        p16(&mut gpos, 2);
        p16(&mut gpos, cov_at as u16);
        p16(&mut gpos, vf);
        p16(&mut gpos, count as u16);
        let mut devs = Vec::new();
        for i in 0..count {
            for bit in [0x0001u16, 0x0004, 0x0010, 0x0040] {
                if vf & bit != 0 {
                    if bit < 0x0010 {
                        p16(&mut gpos, 5 + i as u16);
                    } else {
                        p16(&mut gpos, (dev_at + devs.len()) as u16);
                        devs.extend(var_index((i % 3) as u16));
                    }
                }
            }
        }
        gpos.extend_from_slice(&devs);
        debug_assert_eq!(gpos.len() - st, cov_at);
        gpos.extend(coverage(gs));
    }
    // lookup 1: PairPos format 1, first glyph of each pair from the list, second = next in list
    let l1 = gpos.len();
    let off1 = (l1 - ll) as u16;
    gpos[ll + 4..ll + 6].copy_from_slice(&off1.to_be_bytes());
    p16(&mut gpos, 2);
    p16(&mut gpos, 0);
    p16(&mut gpos, 1);
    p16(&mut gpos, 8);
    let pairs: Vec<(u16, u16)> = glyphs.windows(2).take(16).map(|w| (w[0], w[1])).collect();
    if pairs.is_empty() {
        // degenerate: empty pair positioning on the only glyph
        p16(&mut gpos, 1);
        p16(&mut gpos, 10);
        p16(&mut gpos, 0);
        p16(&mut gpos, 0);
        p16(&mut gpos, 0);
        gpos.extend(coverage(&glyphs[..1]));
    } else {
        let firsts: Vec<u16> = pairs.iter().map(|p| p.0).collect();
        let pst = gpos.len();
        // header: format, coverage, vf1, vf2, pairSetCount, offsets
        let header = 10 + 2 * pairs.len();
        // each pair set: count(2) + record(second 2 + xadv 2 + dev 2) = 8, + device 6
        let set_len = 8 + 6;
        let cov_at = header + set_len * pairs.len();
        p16(&mut gpos, 1);
        p16(&mut gpos, cov_at as u16);
        p16(&mut gpos, 0x0044);
        p16(&mut gpos, 0);
        p16(&mut gpos, pairs.len() as u16);
        for i in 0..pairs.len() {
            p16(&mut gpos, (header + set_len * i) as u16);
        }
        for (i, (_, second)) in pairs.iter().enumerate() {
            p16(&mut gpos, 1);
            p16(&mut gpos, *second);
            p16(&mut gpos, (i as u16).wrapping_mul(3));
            p16(&mut gpos, 8); // device offset from the PairSet table
            gpos.extend(var_index((i % 3) as u16));
        }
        debug_assert_eq!(gpos.len() - pst, cov_at);
        gpos.extend(coverage(&firsts));
    }
    (gdef, gpos)
}

/// GSUB: DFLT/latn -> `calt` -> lookup 0 (type 8) and lookup 1 (type 1), keyed on sorted `glyphs`.
pub fn build_reverse_chain(glyphs: &[u16], variant: u64) -> Vec<u8> {
    let p16 = |v: &mut Vec<u8>, x: u16| v.extend_from_slice(&x.to_be_bytes());
    let coverage = |gs: &[u16], fmt2: bool| -> Vec<u8> {
        let mut v = Vec::new();
        if !fmt2 {
            v.extend_from_slice(&1u16.to_be_bytes());
            v.extend_from_slice(&(gs.len() as u16).to_be_bytes());
            for g in gs {
                v.extend_from_slice(&g.to_be_bytes());
            }
        } else {
            // ranges of consecutive glyph ids
            let mut ranges: Vec<(u16, u16, u16)> = Vec::new();
            for (i, g) in gs.iter().enumerate() {
                match ranges.last_mut() {
                    Some(r) if r.1 + 1 == *g => r.1 = *g,
                    _ => ranges.push((*g, *g, i as u16)),
                }
            }
            v.extend_from_slice(&2u16.to_be_bytes());
            v.extend_from_slice(&(ranges.len() as u16).to_be_bytes());
            for (s, e, idx) in ranges {
                v.extend_from_slice(&s.to_be_bytes());
                v.extend_from_slice(&e.to_be_bytes());
                v.extend_from_slice(&idx.to_be_bytes());
            }
        }
        v
    };
    let mut t = Vec::new();
    p16(&mut t, 1);
    p16(&mut t, 0);
    p16(&mut t, 10);
    let script_list_len = 2 + 2 * 6 + 2 * 12;
    p16(&mut t, (10 + script_list_len) as u16);
    let feature_list_len = 2 + 6 + 4 + 4;
    p16(&mut t, (10 + script_list_len + feature_list_len) as u16);
    p16(&mut t, 2);
    t.extend_from_slice(b"DFLT");
    p16(&mut t, 14);
    t.extend_from_slice(b"latn");
    p16(&mut t, 26);
    for _ in 0..2 {
        p16(&mut t, 4);
        p16(&mut t, 0);
        p16(&mut t, 0);
        p16(&mut t, 0xFFFF);
        p16(&mut t, 1);
        p16(&mut t, 0);
    }
    p16(&mut t, 1);
    t.extend_from_slice(b"calt");
    p16(&mut t, 8);
    p16(&mut t, 0);
    p16(&mut t, 2);
    p16(&mut t, 0);
    p16(&mut t, 1);
    let ll = t.len();
    p16(&mut t, 2);
    p16(&mut t, 0);
    p16(&mut t, 0);
    // lookup 0: ReverseChainSingleSubst
    let l0 = t.len();
    let v0 = ((l0 - ll) as u16).to_be_bytes();
    t[ll + 2..ll + 4].copy_from_slice(&v0);
    p16(&mut t, 8);
    p16(&mut t, 0);
    p16(&mut t, 1);
    p16(&mut t, 8);
    let st = t.len();
    let fmt2 = variant % 2 == 1;
    let nback = (variant / 2 % 3) as usize;
    let nahead = (variant / 6 % 3) as usize;
    // input: all but the last glyph; substitutes: the next glyph in the list
    let mut input: Vec<u16> = glyphs[..glyphs.len() - 1].to_vec();
    let mut subst: Vec<u16> = glyphs[1..].to_vec();
    let all = coverage(glyphs, fmt2);
    let mut inp = coverage(&input, fmt2);
    // Overlapping ranges (the parser accepts them; the first range in array order wins): the
    // input coverage becomes two format 2 ranges over [lo, hi] that share their middle third,
    // with one substitute per coverage index, so that a glyph in the overlap gets a different
    // substitute from each range.
    let (lo, hi) = (*input.iter().min().unwrap_or(&1), *input.iter().max().unwrap_or(&1));
    if fmt2 && variant / 18 % 4 == 3 && hi > lo + 2 && hi - lo <= 200 {
        let third = (hi - lo) / 3;
        let (a_end, b_start) = (hi - third, lo + third);
        let first_len = a_end - lo + 1;
        inp = Vec::new();
        p16(&mut inp, 2);
        p16(&mut inp, 2);
        for (s, e, idx) in [(lo, a_end, 0u16), (b_start, hi, first_len)] {
            p16(&mut inp, s);
            p16(&mut inp, e);
            p16(&mut inp, idx);
        }
        let total = usize::from(first_len) + usize::from(hi - b_start + 1);
        subst = (0..total).map(|i| glyphs[i % glyphs.len()]).collect();
        input = (lo..=hi).collect();
    }
    let _ = &input;
    let header = 2 + 2 + 2 + 2 * nback + 2 + 2 * nahead + 2 + 2 * subst.len();
    let inp_at = header;
    let all_at = inp_at + inp.len();
    p16(&mut t, 1);
    p16(&mut t, inp_at as u16);
    p16(&mut t, nback as u16);
    for _ in 0..nback {
        p16(&mut t, all_at as u16);
    }
    p16(&mut t, nahead as u16);
    for _ in 0..nahead {
        p16(&mut t, all_at as u16);
    }
    p16(&mut t, subst.len() as u16);
    for g in &subst {
        p16(&mut t, *g);
    }
    debug_assert_eq!(t.len() - st, header);
    t.extend_from_slice(&inp);
    t.extend_from_slice(&all);
    // lookup 1: SingleSubst format 1 (delta 0) on the first glyph, so the table has two lookups
    let l1 = t.len();
    let v1 = ((l1 - ll) as u16).to_be_bytes();
    t[ll + 4..ll + 6].copy_from_slice(&v1);
    p16(&mut t, 1);
    p16(&mut t, 0);
    p16(&mut t, 1);
    p16(&mut t, 8);
    p16(&mut t, 1);
    p16(&mut t, 6);
    p16(&mut t, 0);
    t.extend(coverage(&glyphs[..1], false));
    t
}

/// GSUB: DFLT/latn -> `ccmp`, `liga` -> `lookups` MultipleSubst lookups keyed on sorted `glyphs`.
pub fn build_expansion(glyphs: &[u16], k: u16, lookups: u8, variant: u64) -> Vec<u8> {
    let p16 = |v: &mut Vec<u8>, x: u16| v.extend_from_slice(&x.to_be_bytes());
    let nl = usize::from(lookups.max(1));
    let mut t = Vec::new();
    p16(&mut t, 1);
    p16(&mut t, 0);
    p16(&mut t, 10);
    let script_list_len = 2 + 2 * 6 + 2 * 14;
    p16(&mut t, (10 + script_list_len) as u16);
    let feature_list_len = 2 + 2 * 6 + 2 * (4 + 2 * nl);
    p16(&mut t, (10 + script_list_len + feature_list_len) as u16);
    // ScriptList
    p16(&mut t, 2);
    t.extend_from_slice(b"DFLT");
    p16(&mut t, 14);
    t.extend_from_slice(b"latn");
    p16(&mut t, 28);
    for _ in 0..2 {
        p16(&mut t, 4); // defaultLangSys
        p16(&mut t, 0); // langSysCount
        p16(&mut t, 0); // lookupOrder
        p16(&mut t, 0xFFFF); // requiredFeatureIndex
        p16(&mut t, 2);
        p16(&mut t, 0);
        p16(&mut t, 1);
    }
    // FeatureList
    p16(&mut t, 2);
    t.extend_from_slice(b"ccmp");
    p16(&mut t, 14);
    t.extend_from_slice(b"liga");
    p16(&mut t, (14 + 4 + 2 * nl) as u16);
    for f in 0..2 {
        p16(&mut t, 0);
        // `liga` holds either the same lookups or (odd variant) only the first one
        let n = if f == 1 && variant % 2 == 1 { 1 } else { nl };
        p16(&mut t, n as u16);
        for i in 0..nl {
            if i < n {
                p16(&mut t, i as u16);
            } else {
                p16(&mut t, 0); // padding to keep the layout fixed (unused)
            }
        }
    }
    // LookupList
    let ll = t.len();
    p16(&mut t, nl as u16);
    for _ in 0..nl {
        p16(&mut t, 0);
    }
    let rotate = (variant / 2 % 2) as usize;
    for i in 0..nl {
        let at = t.len();
        let v = ((at - ll) as u16).to_be_bytes();
        t[ll + 2 + 2 * i..ll + 4 + 2 * i].copy_from_slice(&v);
        p16(&mut t, 2); // MultipleSubst
        p16(&mut t, 0);
        p16(&mut t, 1);
        p16(&mut t, 8);
        // subtable: format 1, coverage offset, sequenceCount, sequence offsets
        let st = t.len();
        let header = 6 + 2 * glyphs.len();
        let seq_len = 2 + 2 * usize::from(k);
        p16(&mut t, 1);
        p16(&mut t, (header + seq_len * glyphs.len()) as u16);
        p16(&mut t, glyphs.len() as u16);
        for j in 0..glyphs.len() {
            p16(&mut t, (header + seq_len * j) as u16);
        }
        for j in 0..glyphs.len() {
            p16(&mut t, k);
            for c in 0..usize::from(k) {
                // copies of the glyph itself, or (rotate) glyphs of the list in turn
                let g = if rotate == 1 { glyphs[(j + c) % glyphs.len()] } else { glyphs[j] };
                p16(&mut t, g);
            }
        }
        debug_assert_eq!(t.len() - st, header + seq_len * glyphs.len());
        p16(&mut t, 1);
        p16(&mut t, glyphs.len() as u16);
        for g in glyphs {
            p16(&mut t, *g);
        }
    }
    t
}

/// GSUB/GPOS whose ScriptList and FeatureList records alias one sub-table each (see
/// `Surgery::InstallAliasedLists`). The LookupList comes first, then the smaller of the two lists,
/// then the larger one, so that all three header offsets fit 16 bits.
pub fn build_aliased_lists(gpos: bool, default_langsys: bool, glyph: u16, scripts: u16, langsys: u16, features: u16, frecs: u16, lookups: u16) -> Option<Vec<u8>> {
    let p16 = |v: &mut Vec<u8>, x: u16| v.extend_from_slice(&x.to_be_bytes());
    let (s, l, f, n, k) = (usize::from(scripts.max(1)), usize::from(langsys), usize::from(features), usize::from(frecs.max(1)), usize::from(lookups));
    // ScriptList
    let mut sl = Vec::new();
    p16(&mut sl, s as u16);
    let script_off = 2 + 6 * s;
    if script_off > 0xFFFF || 2 + 6 * n > 0xFFFF {
        return None;
    }
    for i in 0..s {
        match i {
            0 => sl.extend_from_slice(b"DFLT"),
            1 => sl.extend_from_slice(b"latn"),
            _ => {
                let j = i - 2;
                sl.extend_from_slice(&[b'x', b'a' + (j / 676 % 26) as u8, b'a' + (j / 26 % 26) as u8, b'a' + (j % 26) as u8]);
            }
        }
        p16(&mut sl, script_off as u16);
    }
    let ls_off = 4 + 6 * l;
    p16(&mut sl, if default_langsys || l == 0 { ls_off as u16 } else { 0 }); // defaultLangSys: the shared one or none
    p16(&mut sl, l as u16);
    for i in 0..l {
        sl.extend_from_slice(&[b'A' + (i / 26 % 26) as u8, b'A' + (i % 26) as u8, b'A', b' ']);
        p16(&mut sl, ls_off as u16);
    }
    p16(&mut sl, 0);
    p16(&mut sl, 0xFFFF);
    p16(&mut sl, f as u16);
    for i in 0..f {
        p16(&mut sl, (i % n) as u16);
    }
    // FeatureList
    let mut fl = Vec::new();
    p16(&mut fl, n as u16);
    for i in 0..n {
        match i {
            0 => fl.extend_from_slice(b"ccmp"),
            1 => fl.extend_from_slice(if gpos { b"kern" } else { b"liga" }),
            _ => {
                let j = i - 2;
                fl.extend_from_slice(&[b'y', b'a' + (j / 676 % 26) as u8, b'a' + (j / 26 % 26) as u8, b'a' + (j % 26) as u8]);
            }
        }
        p16(&mut fl, (2 + 6 * n) as u16);
    }
    p16(&mut fl, 0);
    p16(&mut fl, k as u16);
    for _ in 0..k {
        p16(&mut fl, 0);
    }
    // LookupList: one lookup, one subtable (SingleSubst format 1 delta 0 / SinglePos format 1, no values)
    let mut ll = Vec::new();
    p16(&mut ll, 1);
    p16(&mut ll, 4);
    p16(&mut ll, 1);
    p16(&mut ll, 0);
    p16(&mut ll, 1);
    p16(&mut ll, 8);
    p16(&mut ll, 1);
    p16(&mut ll, 6);
    p16(&mut ll, 0); // deltaGlyphID 0 / valueFormat 0
    p16(&mut ll, 1);
    p16(&mut ll, 1);
    p16(&mut ll, glyph);
    let mut t = Vec::new();
    p16(&mut t, 1);
    p16(&mut t, 0);
    let lookup_at = 10;
    let (first_is_scripts, first, second) = if sl.len() <= fl.len() { (true, &sl, &fl) } else { (false, &fl, &sl) };
    let first_at = lookup_at + ll.len();
    let second_at = first_at + first.len();
    if second_at > 0xFFFF {
        return None;
    }
    let (script_at, feature_at) = if first_is_scripts { (first_at, second_at) } else { (second_at, first_at) };
    p16(&mut t, script_at as u16);
    p16(&mut t, feature_at as u16);
    p16(&mut t, lookup_at as u16);
    t.extend_from_slice(&ll);
    t.extend_from_slice(first);
    t.extend_from_slice(second);
    Some(t)
}

/// GSUB: DFLT/latn -> `ccmp`, `liga` -> lookup 0; lookups 0..depth are contextual (format 3) on
/// `glyph`, each with `records` lookup records naming the next lookup; lookup `depth` is a
/// SingleSubst (delta 0 or +1 -1 alternating, by variant).
pub fn build_context_fanout(glyph: u16, records: u16, depth: u8, variant: u64) -> Vec<u8> {
    let p16 = |v: &mut Vec<u8>, x: u16| v.extend_from_slice(&x.to_be_bytes());
    let depth = usize::from(depth.max(1));
    let chain = variant % 2 == 1;
    let mut t = Vec::new();
    p16(&mut t, 1);
    p16(&mut t, 0);
    p16(&mut t, 10);
    let script_list_len = 2 + 2 * 6 + 2 * 14;
    p16(&mut t, (10 + script_list_len) as u16);
    let feature_list_len = 2 + 2 * 6 + 2 * 6;
    p16(&mut t, (10 + script_list_len + feature_list_len) as u16);
    p16(&mut t, 2);
    t.extend_from_slice(b"DFLT");
    p16(&mut t, 14);
    t.extend_from_slice(b"latn");
    p16(&mut t, 28);
    for _ in 0..2 {
        p16(&mut t, 4);
        p16(&mut t, 0);
        p16(&mut t, 0);
        p16(&mut t, 0xFFFF);
        p16(&mut t, 2);
        p16(&mut t, 0);
        p16(&mut t, 1);
    }
    p16(&mut t, 2);
    t.extend_from_slice(b"ccmp");
    p16(&mut t, 14);
    t.extend_from_slice(b"liga");
    p16(&mut t, 20);
    for _ in 0..2 {
        p16(&mut t, 0);
        p16(&mut t, 1);
        p16(&mut t, 0);
    }
    let ll = t.len();
    let nl = depth + 1;
    p16(&mut t, nl as u16);
    for _ in 0..nl {
        p16(&mut t, 0);
    }
    for i in 0..nl {
        let at = t.len();
        let v = ((at - ll) as u16).to_be_bytes();
        t[ll + 2 + 2 * i..ll + 4 + 2 * i].copy_from_slice(&v);
        if i < depth {
            p16(&mut t, if chain { 6 } else { 5 });
            p16(&mut t, 0);
            p16(&mut t, 1);
            p16(&mut t, 8);
            // format 3: one input glyph
            let head = if chain { 2 + 2 + 2 + 2 + 2 + 2 } else { 2 + 2 + 2 + 2 };
            let cov_at = head + 4 * usize::from(records);
            p16(&mut t, 3);
            if chain {
                p16(&mut t, 0); // backtrack count
                p16(&mut t, 1); // input count
                p16(&mut t, cov_at as u16);
                p16(&mut t, 0); // lookahead count
                p16(&mut t, records);
            } else {
                p16(&mut t, 1); // glyph count
                p16(&mut t, records);
                p16(&mut t, cov_at as u16);
            }
            for _ in 0..records {
                p16(&mut t, 0); // sequence index
                p16(&mut t, (i + 1) as u16);
            }
            p16(&mut t, 1);
            p16(&mut t, 1);
            p16(&mut t, glyph);
        } else if variant / 2 % 4 == 0 || variant / 2 % 4 == 3 {
            p16(&mut t, 1);
            p16(&mut t, 0);
            p16(&mut t, 1);
            p16(&mut t, 8);
            p16(&mut t, 1);
            p16(&mut t, 6);
            p16(&mut t, 0); // delta 0: the glyph stays what the contexts match
            p16(&mut t, 1);
            p16(&mut t, 1);
            p16(&mut t, glyph);
        } else {
            // MultipleSubst: the glyph is deleted (empty sequence: out of spec, accepted by
            // every implementation) or doubled - the nested application changes the run length
            let k: u16 = if variant / 2 % 4 == 1 { 0 } else { 2 };
            p16(&mut t, 2);
            p16(&mut t, 0);
            p16(&mut t, 1);
            p16(&mut t, 8);
            p16(&mut t, 1); // format
            p16(&mut t, 10 + 2 * k); // coverage offset
            p16(&mut t, 1); // sequence count
            p16(&mut t, 8); // sequence offset
            p16(&mut t, k);
            for _ in 0..k {
                p16(&mut t, glyph);
            }
            p16(&mut t, 1);
            p16(&mut t, 1);
            p16(&mut t, glyph);
        }
    }
    t
}

/// Tokens of a CFF DICT: per operator the operands as (start, length, integer value; reals 0).
pub(crate) fn dict_tokens(d: &[u8]) -> Vec<(u16, Vec<(usize, usize, i64)>)> {
    let mut out = Vec::new();
    let mut ops: Vec<(usize, usize, i64)> = Vec::new();
    let mut i = 0;
    while i < d.len() {
        let b = d[i];
        match b {
            28 => {
                let v = i64::from(i16::from_be_bytes([*d.get(i + 1).unwrap_or(&0), *d.get(i + 2).unwrap_or(&0)]));
                ops.push((i, 3, v));
                i += 3;
            }
            29 => {
                let mut x = [0u8; 4];
                for k in 0..4 {
                    x[k] = *d.get(i + 1 + k).unwrap_or(&0);
                }
                ops.push((i, 5, i64::from(i32::from_be_bytes(x))));
                i += 5;
            }
            30 => {
                let s = i;
                i += 1;
                while i < d.len() {
                    let n = d[i];
                    i += 1;
                    if n & 0x0f == 0x0f || n >> 4 == 0x0f {
                        break;
                    }
                }
                ops.push((s, i - s, 0));
            }
            32..=246 => {
                ops.push((i, 1, i64::from(b) - 139));
                i += 1;
            }
            247..=250 => {
                let v = (i64::from(b) - 247) * 256 + i64::from(*d.get(i + 1).unwrap_or(&0)) + 108;
                ops.push((i, 2, v));
                i += 2;
            }
            251..=254 => {
                let v = -(i64::from(b) - 251) * 256 - i64::from(*d.get(i + 1).unwrap_or(&0)) - 108;
                ops.push((i, 2, v));
                i += 2;
            }
            12 => {
                let op = 0x0c00 | u16::from(*d.get(i + 1).unwrap_or(&0));
                out.push((op, std::mem::take(&mut ops)));
                i += 2;
            }
            _ => {
                out.push((u16::from(b), std::mem::take(&mut ops)));
                i += 1;
            }
        }
    }
    out
}

/// DICT integer in exactly `len` bytes, if it has such an encoding.
fn dict_int_fixed(v: i64, len: usize) -> Option<Vec<u8>> {
    match len {
        1 if (-107..=107).contains(&v) => Some(vec![(v + 139) as u8]),
        2 if (108..=1131).contains(&v) => {
            let w = v - 108;
            Some(vec![(w / 256 + 247) as u8, (w % 256) as u8])
        }
        2 if (-1131..=-108).contains(&v) => {
            let w = -v - 108;
            Some(vec![(w / 256 + 251) as u8, (w % 256) as u8])
        }
        3 if (-32768..=32767).contains(&v) => {
            let b = (v as i16).to_be_bytes();
            Some(vec![28, b[0], b[1]])
        }
        5 if (i64::from(i32::MIN)..=i64::from(i32::MAX)).contains(&v) => {
            let b = (v as i32).to_be_bytes();
            Some(vec![29, b[0], b[1], b[2], b[3]])
        }
        _ => None,
    }
}

/// (count, objects as (start, end), end of index) of a CFF2 INDEX (32-bit count).
fn cff2_index_at(d: &[u8], at: usize) -> Option<(usize, Vec<(usize, usize)>, usize)> {
    let count = be32(d, at)? as usize;
    if count == 0 {
        return Some((0, Vec::new(), at + 4));
    }
    let off_size = usize::from(*d.get(at + 4)?);
    if !(1..=4).contains(&off_size) || count > 70000 {
        return None;
    }
    let offs = at + 5;
    let data = offs + (count + 1) * off_size - 1;
    let rd = |i: usize| -> Option<usize> {
        let b = d.get(offs + i * off_size..offs + (i + 1) * off_size)?;
        Some(b.iter().fold(0usize, |a, &x| (a << 8) | usize::from(x)))
    };
    let mut objs = Vec::with_capacity(count);
    let mut prev = rd(0)?;
    for i in 1..=count {
        let o = rd(i)?;
        if o < prev || data + o > d.len() {
            return None;
        }
        objs.push((data + prev, data + o));
        prev = o;
    }
    Some((count, objs, data + prev))
}

fn cff2_index_bytes(objs: &[Vec<u8>]) -> Vec<u8> {
    let mut v = Vec::new();
    v.extend_from_slice(&(objs.len() as u32).to_be_bytes());
    if objs.is_empty() {
        return v;
    }
    v.push(4);
    let mut o = 1u32;
    v.extend_from_slice(&o.to_be_bytes());
    for ob in objs {
        o += ob.len() as u32;
        v.extend_from_slice(&o.to_be_bytes());
    }
    for ob in objs {
        v.extend_from_slice(ob);
    }
    v
}

/// See [`Surgery::InstallCff2Subrs`].
pub fn cff2_with_subrs(d: &[u8], glyphs: &[u16], nest: u8) -> Result<Vec<u8>, String> {
    let bail = |m: &str| -> String { format!("surgery: cff2 subrs: {}", m) };
    if d.first() != Some(&2) {
        return Err(bail("not CFF2"));
    }
    let hs = usize::from(*d.get(2).ok_or_else(|| bail("short"))?);
    let tl = usize::from(be16(d, 3).ok_or_else(|| bail("short"))?);
    let top = d.get(hs..hs + tl).ok_or_else(|| bail("top dict"))?;
    let toks = dict_tokens(top);
    let operand = |op: u16| toks.iter().find(|(o, _)| *o == op).and_then(|(_, v)| v.last().copied());
    let (cs_pos, cs_len, cs_off) = operand(17).ok_or_else(|| bail("no CharStrings"))?;
    let (_, _, fda_off) = operand(0x0c24).ok_or_else(|| bail("no FDArray"))?;
    let (ncs, cs_objs, _) = cff2_index_at(d, cs_off.max(0) as usize).ok_or_else(|| bail("CharStrings index"))?;
    let (nfd, fd_objs, _) = cff2_index_at(d, fda_off.max(0) as usize).ok_or_else(|| bail("FDArray index"))?;
    if nfd != 1 {
        return Err(bail("more than one Font DICT"));
    }
    let (fs, fe) = fd_objs[0];
    let ftoks = dict_tokens(&d[fs..fe]);
    let private = ftoks.iter().find(|(o, _)| *o == 18).map(|(_, v)| v.clone()).ok_or_else(|| bail("no Private"))?;
    let [(sz_pos, sz_len, size), (of_pos, of_len, off)] = private[..] else {
        return Err(bail("Private operands"));
    };
    let (size, off) = (size.max(0) as usize, off.max(0) as usize);
    let pd = d.get(off..off + size).ok_or_else(|| bail("Private DICT range"))?;
    if dict_tokens(pd).iter().any(|(o, _)| *o == 19) {
        return Err(bail("already has local subroutines"));
    }
    let mut gs: Vec<usize> = glyphs.iter().map(|g| usize::from(*g)).filter(|g| *g < ncs).collect();
    gs.sort_unstable();
    gs.dedup();
    gs.retain(|g| cs_objs[*g].1 > cs_objs[*g].0);
    if gs.is_empty() {
        return Err(bail("no usable glyph"));
    }
    let levels = usize::from(nest.min(8));
    if gs.len() * (levels + 1) > 200 {
        return Err(bail("too many subroutines for one-byte operands"));
    }
    // subroutines: bodies first, then `levels` layers of forwarders
    let n = gs.len();
    let call = |idx: usize| -> Vec<u8> { vec![(idx as i64 - 107 + 139) as u8, 10] };
    let mut subrs: Vec<Vec<u8>> = gs.iter().map(|g| d[cs_objs[*g].0..cs_objs[*g].1].to_vec()).collect();
    for l in 0..levels {
        for k in 0..n {
            subrs.push(call(l * n + k));
        }
    }
    let mut programs: Vec<Vec<u8>> = cs_objs.iter().map(|(a, b)| d[*a..*b].to_vec()).collect();
    for (k, g) in gs.iter().enumerate() {
        programs[*g] = call(levels * n + k);
    }
    // new Private DICT (+ `Subrs` with the offset from its own start), local subrs, CharStrings
    let mut out = d.to_vec();
    let new_pd_at = out.len();
    let mut npd = pd.to_vec();
    let new_size = npd.len() + 6;
    npd.extend_from_slice(&dict_int_fixed(new_size as i64, 5).unwrap());
    npd.push(19);
    out.extend_from_slice(&npd);
    out.extend_from_slice(&cff2_index_bytes(&subrs));
    let new_cs_at = out.len();
    out.extend_from_slice(&cff2_index_bytes(&programs));
    // patch the operands in place
    let sz = dict_int_fixed(new_size as i64, sz_len).ok_or_else(|| bail("Private size operand does not fit"))?;
    let of = dict_int_fixed(new_pd_at as i64, of_len).ok_or_else(|| bail("Private offset operand does not fit"))?;
    let cs = dict_int_fixed(new_cs_at as i64, cs_len).ok_or_else(|| bail("CharStrings operand does not fit"))?;
    out[fs + sz_pos..fs + sz_pos + sz_len].copy_from_slice(&sz);
    out[fs + of_pos..fs + of_pos + of_len].copy_from_slice(&of);
    out[hs + cs_pos..hs + cs_pos + cs_len].copy_from_slice(&cs);
    Ok(out)
}

/// A well-formed `cvar` table for `axes` axes and `num_cvts` control values.
pub fn build_cvar(axes: usize, num_cvts: usize, variant: u64) -> Vec<u8> {
    let tuples = 1 + (variant % 3) as usize;
    let shared = variant / 3 % 2 == 1;
    // packed point numbers for the first `k` control values (k == 0: "all")
    let points = |k: usize| -> Vec<u8> {
        if k == 0 {
            return vec![0];
        }
        let k = k.min(127);
        let mut v = vec![k as u8, (k - 1) as u8];
        v.push(0);
        for _ in 1..k {
            v.push(1);
        }
        v
    };
    // packed deltas: `n` values, in runs of bytes, words or zeros by `mode`
    let deltas = |n: usize, mode: u64, seed: u64| -> Vec<u8> {
        let mut v = Vec::new();
        let mut left = n;
        let mut i = seed;
        while left > 0 {
            let run = left.min(1 + (i % 64) as usize);
            match (mode + i) % 3 {
                0 => {
                    v.push((run - 1) as u8);
                    for j in 0..run {
                        v.push(((i as usize + j) % 11) as u8);
                    }
                }
                1 => {
                    v.push(0x40 | (run - 1) as u8);
                    for j in 0..run {
                        v.extend_from_slice(&(((i as usize + j) % 700) as i16 - 350).to_be_bytes());
                    }
                }
                _ => v.push(0x80 | (run - 1) as u8),
            }
            left -= run;
            i = i.wrapping_mul(6364136223846793005).wrapping_add(1442695040888963407) >> 7;
        }
        v
    };
    let mut headers: Vec<u8> = Vec::new();
    let mut data: Vec<u8> = Vec::new();
    let shared_k = if shared { (variant / 6 % 5) as usize } else { 0 };
    if shared {
        data.extend(points(shared_k));
    }
    for t in 0..tuples {
        let tv = variant >> (8 + 4 * t);
        let private = tv % 2 == 1;
        let intermediate = tv / 2 % 4 == 3;
        let pk = (tv / 8 % 6) as usize;
        let mut td = Vec::new();
        let npoints = if private {
            td.extend(points(pk));
            if pk == 0 { num_cvts } else { pk.min(127) }
        } else if shared {
            if shared_k == 0 { num_cvts } else { shared_k.min(127) }
        } else {
            // neither private nor shared point numbers: still needs a point number record
            td.extend(points(0));
            num_cvts
        };
        td.extend(deltas(npoints, tv / 48, tv | 1));
        let mut flags: u16 = 0x8000;
        if private || !shared {
            flags |= 0x2000;
        }
        if intermediate {
            flags |= 0x4000;
        }
        headers.extend_from_slice(&(td.len() as u16).to_be_bytes());
        headers.extend_from_slice(&flags.to_be_bytes());
        let axis = t % axes.max(1);
        let peak: i16 = if tv / 16 % 2 == 0 { 0x4000 } else { -0x4000 };
        for a in 0..axes {
            headers.extend_from_slice(&(if a == axis { peak } else { 0 }).to_be_bytes());
        }
        if intermediate {
            for a in 0..axes {
                headers.extend_from_slice(&(if a == axis { peak / 2 } else { 0 }).to_be_bytes());
            }
            for a in 0..axes {
                headers.extend_from_slice(&(if a == axis { peak } else { 0 }).to_be_bytes());
            }
        }
        data.extend(td);
    }
    let mut t = Vec::new();
    t.extend_from_slice(&1u16.to_be_bytes());
    t.extend_from_slice(&0u16.to_be_bytes());
    let count = tuples as u16 | if shared { 0x8000 } else { 0 };
    t.extend_from_slice(&count.to_be_bytes());
    t.extend_from_slice(&((8 + headers.len()) as u16).to_be_bytes());
    t.extend(headers);
    t.extend(data);
    t
}

/// See [`Surgery::InstallVarSimple`]. Returns the new gvar.
pub fn var_simple(head: &[u8], loca: &[u8], glyf: &[u8], gvar: &[u8], g: u16, amp: i16, variant: u64) -> Result<Vec<u8>, String> {
    let bail = |m: &str| -> String { format!("surgery: var simple: {}", m) };
    let long = be16(head, 50).ok_or_else(|| bail("head"))? == 1;
    let off = |i: usize| -> Option<usize> {
        if long {
            be32(loca, 4 * i).map(|v| v as usize)
        } else {
            be16(loca, 2 * i).map(|v| usize::from(v) * 2)
        }
    };
    let (s, e) = (off(usize::from(g)).ok_or_else(|| bail("loca"))?, off(usize::from(g) + 1).ok_or_else(|| bail("loca"))?);
    if e < s + 12 || e > glyf.len() {
        return Err(bail("glyph slot"));
    }
    let nc = i16::from_be_bytes([glyf[s], glyf[s + 1]]);
    if nc <= 0 {
        return Err(bail("not a simple glyph"));
    }
    let last_end = be16(glyf, s + 10 + 2 * (nc as usize - 1)).ok_or_else(|| bail("endPts"))?;
    let n = usize::from(last_end) + 1 + 4;
    if n > 64 {
        return Err(bail("too many points"));
    }
    let axes = usize::from(be16(gvar, 4).ok_or_else(|| bail("gvar"))?);
    let gcount = usize::from(be16(gvar, 12).ok_or_else(|| bail("gvar"))?);
    let gflags = be16(gvar, 14).ok_or_else(|| bail("gvar"))?;
    let array = be32(gvar, 16).ok_or_else(|| bail("gvar"))? as usize;
    if usize::from(g) >= gcount || axes == 0 {
        return Err(bail("glyph not in gvar"));
    }
    let goff = |i: usize| -> Option<usize> {
        if gflags & 1 == 1 {
            be32(gvar, 20 + 4 * i).map(|v| v as usize)
        } else {
            be16(gvar, 20 + 2 * i).map(|v| usize::from(v) * 2)
        }
    };
    let (vs, ve) = (
        array + goff(usize::from(g)).ok_or_else(|| bail("gvar offsets"))?,
        array + goff(usize::from(g) + 1).ok_or_else(|| bail("gvar offsets"))?,
    );
    if ve < vs || ve > gvar.len() {
        return Err(bail("gvar data range"));
    }
    let axis = (variant / 16) as usize % axes;
    let neg = variant / 64 % 2 == 1;
    let delta = |k: usize, which: u64| -> i16 {
        if k + 4 >= n {
            return 0; // phantom points
        }
        match (variant / 128 + which) % 4 {
            0 => if k % 2 == 0 { amp } else { amp.saturating_neg() },
            1 => amp,
            2 => ((i32::from(amp) * k as i32) / n as i32) as i16,
            _ => 0,
        }
    };
    let pack = |which: u64| -> Vec<u8> {
        let mut o = vec![0x40 | (n - 1) as u8];
        for k in 0..n {
            o.extend_from_slice(&delta(k, which).to_be_bytes());
        }
        o
    };
    let mut ser = vec![0u8];
    ser.extend(pack(0));
    ser.extend(pack(1));
    let mut data = Vec::new();
    data.extend_from_slice(&1u16.to_be_bytes());
    data.extend_from_slice(&((4 + 4 + 2 * axes) as u16).to_be_bytes());
    data.extend_from_slice(&(ser.len() as u16).to_be_bytes());
    data.extend_from_slice(&0xA000u16.to_be_bytes());
    for k in 0..axes {
        let v: i16 = if k == axis { if neg { -0x4000 } else { 0x4000 } } else { 0 };
        data.extend_from_slice(&v.to_be_bytes());
    }
    data.extend(ser);
    if data.len() > ve - vs {
        return Err(bail("gvar slot too small"));
    }
    let mut new_gvar = gvar.to_vec();
    new_gvar[vs..vs + data.len()].copy_from_slice(&data);
    for x in &mut new_gvar[vs + data.len()..ve] {
        *x = 0;
    }
    Ok(new_gvar)
}

/// See [`Surgery::InstallVarComposite`]. Returns the new (glyf, gvar).
pub fn var_composite(
    head: &[u8],
    loca: &[u8],
    glyf: &[u8],
    gvar: &[u8],
    g: u16,
    a: u16,
    b: u16,
    dx: i16,
    dy: i16,
    variant: u64,
) -> Result<(Vec<u8>, Vec<u8>), String> {
    let bail = |m: &str| -> String { format!("surgery: var composite: {}", m) };
    let long = be16(head, 50).ok_or_else(|| bail("head"))? == 1;
    let off = |i: usize| -> Option<usize> {
        if long {
            be32(loca, 4 * i).map(|v| v as usize)
        } else {
            be16(loca, 2 * i).map(|v| usize::from(v) * 2)
        }
    };
    let slot = |i: u16| -> Option<(usize, usize)> {
        let (s, e) = (off(usize::from(i))?, off(usize::from(i) + 1)?);
        (e >= s && e <= glyf.len()).then_some((s, e))
    };
    let (s, e) = slot(g).ok_or_else(|| bail("glyph slot"))?;
    for c in [a, b] {
        let (cs, ce) = slot(c).ok_or_else(|| bail("component slot"))?;
        if c == g || ce - cs < 12 || glyf[cs] & 0x80 != 0 {
            return Err(bail("component is not a simple glyph"));
        }
    }
    let words = variant % 2 == 1;
    let scale = variant / 2 % 4 == 3;
    let (x0, y0): (i16, i16) = (100, 20);
    let mut comp = Vec::new();
    comp.extend_from_slice(&(-1i16).to_be_bytes());
    comp.extend_from_slice(glyf.get(s + 2..s + 10).ok_or_else(|| bail("short glyph"))?);
    // 2-7 components (a, b, a, b, ...); optionally positioned by point matching
    let nc = 2 + (variant / 128 % 6) as usize;
    let matched = variant / 1024 % 4 == 0;
    let comps: Vec<u16> = (0..nc).map(|k| if k % 2 == 0 { a } else { b }).collect();
    for (k, c) in comps.iter().copied().enumerate() {
        let mut flags: u16 = if matched && k > 0 { 0 } else { 0x0002 };
        if k + 1 < nc {
            flags |= 0x0020;
        }
        if words {
            flags |= 0x0001;
        }
        if scale && k == 1 && !matched {
            flags |= 0x0008;
        }
        if variant / 8 % 2 == 1 && k == 1 {
            flags |= 0x0200; // USE_MY_METRICS
        }
        comp.extend_from_slice(&flags.to_be_bytes());
        comp.extend_from_slice(&c.to_be_bytes());
        let (x, y) = if k == 0 { (x0, y0) } else if matched { (0, 0) } else { (-30, 5) };
        if words {
            comp.extend_from_slice(&x.to_be_bytes());
            comp.extend_from_slice(&y.to_be_bytes());
        } else {
            comp.push(x as i8 as u8);
            comp.push(y as i8 as u8);
        }
        if scale && k == 1 && !matched {
            comp.extend_from_slice(&0x2000u16.to_be_bytes()); // 0.5
        }
    }
    if comp.len() > e - s {
        return Err(bail("glyph slot too small"));
    }
    let mut new_glyf = glyf.to_vec();
    new_glyf[s..s + comp.len()].copy_from_slice(&comp);
    for x in &mut new_glyf[s + comp.len()..e] {
        *x = 0;
    }
    // gvar
    let axes = usize::from(be16(gvar, 4).ok_or_else(|| bail("gvar"))?);
    let gcount = usize::from(be16(gvar, 12).ok_or_else(|| bail("gvar"))?);
    let gflags = be16(gvar, 14).ok_or_else(|| bail("gvar"))?;
    let array = be32(gvar, 16).ok_or_else(|| bail("gvar"))? as usize;
    if usize::from(g) >= gcount || axes == 0 {
        return Err(bail("glyph not in gvar"));
    }
    let goff = |i: usize| -> Option<usize> {
        if gflags & 1 == 1 {
            be32(gvar, 20 + 4 * i).map(|v| v as usize)
        } else {
            be16(gvar, 20 + 2 * i).map(|v| usize::from(v) * 2)
        }
    };
    let (vs, ve) = (
        array + goff(usize::from(g)).ok_or_else(|| bail("gvar offsets"))?,
        array + goff(usize::from(g) + 1).ok_or_else(|| bail("gvar offsets"))?,
    );
    if ve < vs || ve > gvar.len() {
        return Err(bail("gvar data range"));
    }
    let axis = (variant / 16) as usize % axes;
    let neg = variant / 64 % 2 == 1;
    // deltas for the components + 4 phantom points
    let mut xs: Vec<i16> = vec![dx];
    let mut ys: Vec<i16> = vec![dy];
    for k in 1..nc {
        xs.push(if k % 2 == 1 { -7 } else { 9 });
        ys.push(if k % 3 == 1 { 3 } else { 0 });
    }
    xs.extend_from_slice(&[0, 11, 0, 0]);
    ys.extend_from_slice(&[0, 0, 0, 0]);
    let pack = |v: &[i16]| -> Vec<u8> {
        if v.iter().all(|d| (-128..=127).contains(d)) {
            let mut o = vec![(v.len() - 1) as u8];
            o.extend(v.iter().map(|d| *d as i8 as u8));
            o
        } else {
            let mut o = vec![0x40 | (v.len() - 1) as u8];
            for d in v {
                o.extend_from_slice(&d.to_be_bytes());
            }
            o
        }
    };
    let mut ser = vec![0u8]; // all points
    ser.extend(pack(&xs));
    ser.extend(pack(&ys));
    let mut data = Vec::new();
    data.extend_from_slice(&1u16.to_be_bytes());
    data.extend_from_slice(&((4 + 4 + 2 * axes) as u16).to_be_bytes());
    data.extend_from_slice(&(ser.len() as u16).to_be_bytes());
    data.extend_from_slice(&0xA000u16.to_be_bytes()); // embedded peak, private point numbers
    for k in 0..axes {
        let v: i16 = if k == axis { if neg { -0x4000 } else { 0x4000 } } else { 0 };
        data.extend_from_slice(&v.to_be_bytes());
    }
    data.extend(ser);
    if data.len() > ve - vs {
        return Err(bail("gvar slot too small"));
    }
    let mut new_gvar = gvar.to_vec();
    new_gvar[vs..vs + data.len()].copy_from_slice(&data);
    for x in &mut new_gvar[vs + data.len()..ve] {
        *x = 0;
    }
    Ok((new_glyf, new_gvar))
}

/// See [`Surgery::InstallFracLiga`].
pub fn build_frac_liga(f: u16, i: u16, slash: u16, digits: &[u16], variant: u64) -> Vec<u8> {
    let p16 = |v: &mut Vec<u8>, x: u16| v.extend_from_slice(&x.to_be_bytes());
    let mut t = Vec::new();
    p16(&mut t, 1);
    p16(&mut t, 0);
    p16(&mut t, 10);
    let script_list_len = 2 + 2 * 6 + 2 * (4 + 6 + 2 * 4);
    p16(&mut t, (10 + script_list_len) as u16);
    let feature_list_len = 2 + 4 * 6 + 4 * 6;
    p16(&mut t, (10 + script_list_len + feature_list_len) as u16);
    p16(&mut t, 2);
    t.extend_from_slice(b"DFLT");
    p16(&mut t, 14);
    t.extend_from_slice(b"latn");
    p16(&mut t, 14 + 18);
    for _ in 0..2 {
        p16(&mut t, 4);
        p16(&mut t, 0);
        p16(&mut t, 0);
        p16(&mut t, 0xFFFF);
        p16(&mut t, 4);
        for k in 0..4 {
            p16(&mut t, k);
        }
    }
    // FeatureList: dnom, frac, liga, numr
    p16(&mut t, 4);
    let lookups_of: [(&[u8; 4], u16); 4] = [(b"dnom", 2), (b"frac", 1), (b"liga", 0), (b"numr", 2)];
    for (k, (tag, _)) in lookups_of.iter().enumerate() {
        t.extend_from_slice(*tag);
        p16(&mut t, (2 + 4 * 6 + 6 * k) as u16);
    }
    for (_, l) in lookups_of.iter() {
        p16(&mut t, 0);
        p16(&mut t, 1);
        p16(&mut t, *l);
    }
    // LookupList
    let ll = t.len();
    p16(&mut t, 3);
    for _ in 0..3 {
        p16(&mut t, 0);
    }
    let mut start = |t: &mut Vec<u8>, k: usize, ty: u16| {
        let at = t.len();
        let v = ((at - ll) as u16).to_be_bytes();
        t[ll + 2 + 2 * k..ll + 4 + 2 * k].copy_from_slice(&v);
        p16(t, ty);
        p16(t, 0);
        p16(t, 1);
        p16(t, 8);
    };
    // lookup 0: LigatureSubst format 1 on f: (f f i) -> f, (f i) -> f [or -> i, by variant]
    start(&mut t, 0, 4);
    let lig = if variant % 2 == 0 { f } else { i };
    p16(&mut t, 1);
    p16(&mut t, 8 + 6 + 8 + 6); // coverage after the ligature set
    p16(&mut t, 1);
    p16(&mut t, 8); // ligature set offset
    p16(&mut t, 2); // ligatureCount
    p16(&mut t, 6);
    p16(&mut t, 6 + 8);
    p16(&mut t, lig);
    p16(&mut t, 3);
    p16(&mut t, f);
    p16(&mut t, i);
    p16(&mut t, lig);
    p16(&mut t, 2);
    p16(&mut t, i);
    p16(&mut t, 1);
    p16(&mut t, 1);
    p16(&mut t, f);
    // lookup 1: SingleSubst delta 0 on the slash
    start(&mut t, 1, 1);
    p16(&mut t, 1);
    p16(&mut t, 6);
    p16(&mut t, 0);
    p16(&mut t, 1);
    p16(&mut t, 1);
    p16(&mut t, slash);
    // lookup 2: SingleSubst delta 0 on the digits
    let mut ds: Vec<u16> = digits.to_vec();
    ds.sort_unstable();
    ds.dedup();
    start(&mut t, 2, 1);
    p16(&mut t, 1);
    p16(&mut t, 6);
    p16(&mut t, 0);
    p16(&mut t, 1);
    p16(&mut t, ds.len() as u16);
    for g in ds {
        p16(&mut t, g);
    }
    t
}

/// See [`Surgery::InstallMarkLig`]: (GDEF, GPOS).
pub fn build_mark_lig(lig: u16, mark: u16, components: u8) -> (Vec<u8>, Vec<u8>) {
    let p16 = |v: &mut Vec<u8>, x: u16| v.extend_from_slice(&x.to_be_bytes());
    // GDEF 1.0 with a glyph class definition (format 2, ranges sorted by glyph id)
    let mut gdef = Vec::new();
    p16(&mut gdef, 1);
    p16(&mut gdef, 0);
    p16(&mut gdef, 12);
    p16(&mut gdef, 0);
    p16(&mut gdef, 0);
    p16(&mut gdef, 0);
    let mut ranges = vec![(lig, 2u16), (mark, 3u16)];
    ranges.sort_unstable();
    p16(&mut gdef, 2);
    p16(&mut gdef, ranges.len() as u16);
    for (g, c) in ranges {
        p16(&mut gdef, g);
        p16(&mut gdef, g);
        p16(&mut gdef, c);
    }
    // GPOS
    let c = usize::from(components.clamp(1, 3));
    let mut t = Vec::new();
    p16(&mut t, 1);
    p16(&mut t, 0);
    p16(&mut t, 10);
    let script_list_len = 2 + 2 * 6 + 2 * (4 + 6 + 2);
    p16(&mut t, (10 + script_list_len) as u16);
    let feature_list_len = 2 + 6 + 6;
    p16(&mut t, (10 + script_list_len + feature_list_len) as u16);
    p16(&mut t, 2);
    t.extend_from_slice(b"DFLT");
    p16(&mut t, 14);
    t.extend_from_slice(b"latn");
    p16(&mut t, 14 + 12);
    for _ in 0..2 {
        p16(&mut t, 4);
        p16(&mut t, 0);
        p16(&mut t, 0);
        p16(&mut t, 0xFFFF);
        p16(&mut t, 1);
        p16(&mut t, 0);
    }
    p16(&mut t, 1);
    t.extend_from_slice(b"mark");
    p16(&mut t, 8);
    p16(&mut t, 0);
    p16(&mut t, 1);
    p16(&mut t, 0);
    // LookupList: one lookup of type 5
    p16(&mut t, 1);
    p16(&mut t, 4);
    p16(&mut t, 5);
    p16(&mut t, 0);
    p16(&mut t, 1);
    p16(&mut t, 8);
    // MarkLigPos format 1
    p16(&mut t, 1);
    p16(&mut t, 12); // mark coverage
    p16(&mut t, 18); // ligature coverage
    p16(&mut t, 1); // mark class count
    p16(&mut t, 24); // mark array
    p16(&mut t, 36); // ligature array
    p16(&mut t, 1);
    p16(&mut t, 1);
    p16(&mut t, mark);
    p16(&mut t, 1);
    p16(&mut t, 1);
    p16(&mut t, lig);
    // MarkArray: one record (class 0), anchor format 1
    p16(&mut t, 1);
    p16(&mut t, 0);
    p16(&mut t, 6);
    p16(&mut t, 1);
    p16(&mut t, 10);
    p16(&mut t, 20);
    // LigatureArray: one LigatureAttach
    p16(&mut t, 1);
    p16(&mut t, 4);
    p16(&mut t, c as u16);
    for k in 0..c {
        p16(&mut t, (2 + 2 * c + 6 * k) as u16);
    }
    for k in 0..c {
        p16(&mut t, 1);
        p16(&mut t, (100 * (k + 1)) as u16);
        p16(&mut t, 300);
    }
    (gdef, t)
}

fn num_glyphs(disk: &Disk) -> Result<u16, String> {
    disk.tables
        .get(&tag_from_str("maxp"))
        .and_then(|m| be16(m, 4))
        .ok_or_else(|| "surgery: no maxp".to_string())
}

/// (feature tag, lookup indices) per feature index of a GSUB/GPOS table.
pub fn feature_list(table: &[u8]) -> Vec<(u32, Vec<u16>)> {
    let mut out = Vec::new();
    let Some(fl) = be16(table, 6).map(usize::from) else {
        return out;
    };
    if fl == 0 {
        return out;
    }
    let Some(count) = be16(table, fl) else {
        return out;
    };
    for i in 0..usize::from(count) {
        let r = fl + 2 + 6 * i;
        let (Some(t), Some(off)) = (
            table
                .get(r..r + 4)
                .map(|b| u32::from_be_bytes([b[0], b[1], b[2], b[3]])),
            be16(table, r + 4),
        ) else {
            break;
        };
        let ft = fl + usize::from(off);
        let n = be16(table, ft + 2).unwrap_or(0);
        let mut lookups = Vec::new();
        for k in 0..usize::from(n) {
            if let Some(l) = be16(table, ft + 4 + 2 * k) {
                lookups.push(l);
            }
        }
        out.push((t, lookups));
    }
    out
}

pub fn apply(disk: &mut Disk, s: &Surgery) -> Result<(), String> {
    match s {
        Surgery::FeatureVariations {
            table,
            feature_index,
            lookups,
            min,
            max,
            axis,
        } => append_feature_variations(
            disk,
            table,
            feature_variations(*feature_index, lookups, *min, *max, *axis),
        ),
        Surgery::FeatureVariationsMulti { table, records } => {
            append_feature_variations(disk, table, feature_variations_multi(records))
        }
        Surgery::InstallMorx {
            glyphs,
            variant,
            hazard,
        } => {
            let n = num_glyphs(disk)?;
            let table = hazard
                .and_then(|h| morx_build::build_morx_hazard(n, glyphs, h))
                .unwrap_or_else(|| morx_build::build_morx(n, glyphs, *variant));
            disk.tables.insert(tag_from_str("morx"), Rc::new(table));
            disk.tables.remove(&tag_from_str("GSUB"));
            Ok(())
        }
        Surgery::InstallBitmaps {
            colour,
            variant,
            extended,
        } => {
            let n = num_glyphs(disk)?;
            let opts = bitmap_build::Options {
                components: *extended && !*colour,
                raw_bgra: *extended && *colour,
            };
            let t = bitmap_build::build_bitmap_tables_ext(n, *colour, *variant, opts);
            disk.tables
                .insert(u32::from_be_bytes(t.location_tag), Rc::new(t.location));
            disk.tables
                .insert(u32::from_be_bytes(t.data_tag), Rc::new(t.data));
            Ok(())
        }
        Surgery::InstallKern { glyphs, variant } => {
            let n = num_glyphs(disk)?;
            disk.tables
                .insert(tag_from_str("kern"), Rc::new(build_kern(n, glyphs, *variant)));
            disk.tables.remove(&tag_from_str("GPOS"));
            Ok(())
        }
        Surgery::ExtensionRelocate { table, a, b } => {
            let t = tag_from_str(table);
            let old = disk.tables.get(&t).ok_or("surgery: no layout table")?.clone();
            let new = extension_relocate(&old, table == "GPOS", usize::from(*a), usize::from(*b))
                .ok_or("surgery: table cannot be relocated")?;
            disk.tables.insert(t, Rc::new(new));
            Ok(())
        }
        Surgery::MacRomanCmap { glyphs } => {
            let n = num_glyphs(disk)?;
            let gs: Vec<u16> = glyphs.iter().copied().filter(|g| *g < n).collect();
            if gs.is_empty() {
                return Err("surgery: no usable glyphs".into());
            }
            let count = 0x1E0usize;
            let mut v = Vec::new();
            v.extend_from_slice(&0u16.to_be_bytes()); // version
            v.extend_from_slice(&1u16.to_be_bytes()); // numTables
            v.extend_from_slice(&1u16.to_be_bytes()); // platform: Macintosh
            v.extend_from_slice(&0u16.to_be_bytes()); // encoding: Roman
            v.extend_from_slice(&12u32.to_be_bytes());
            v.extend_from_slice(&6u16.to_be_bytes()); // format 6
            v.extend_from_slice(&((10 + 2 * count) as u16).to_be_bytes());
            v.extend_from_slice(&0u16.to_be_bytes()); // language
            v.extend_from_slice(&0x20u16.to_be_bytes()); // firstCode
            v.extend_from_slice(&(count as u16).to_be_bytes());
            for k in 0..count {
                v.extend_from_slice(&gs[k % gs.len()].to_be_bytes());
            }
            disk.tables.insert(tag_from_str("cmap"), Rc::new(v));
            Ok(())
        }
        Surgery::LongNames { variant } => {
            disk.tables.insert(tag_from_str("name"), Rc::new(build_names(*variant)));
            Ok(())
        }
        Surgery::InstallVarGpos { glyphs, variant } => {
            let n = num_glyphs(disk)?;
            let axes = disk
                .tables
                .get(&FVAR)
                .and_then(|f| be16(f, 8))
                .ok_or("surgery: no fvar")?;
            let gs: Vec<u16> = {
                let mut v: Vec<u16> = glyphs.iter().copied().filter(|g| *g < n).collect();
                v.sort_unstable();
                v.dedup();
                v
            };
            if gs.is_empty() || axes == 0 {
                return Err("surgery: nothing to key the variable GPOS on".into());
            }
            let (gdef, gpos) = build_var_gpos(axes, &gs, *variant);
            disk.tables.insert(tag_from_str("GDEF"), Rc::new(gdef));
            disk.tables.insert(tag_from_str("GPOS"), Rc::new(gpos));
            disk.tables.remove(&tag_from_str("kern"));
            Ok(())
        }
        Surgery::InstallReverseChain { glyphs, variant } => {
            let n = num_glyphs(disk)?;
            let mut gs: Vec<u16> = glyphs.iter().copied().filter(|g| *g < n).collect();
            gs.sort_unstable();
            gs.dedup();
            if gs.len() < 2 {
                return Err("surgery: too few glyphs".into());
            }
            disk.tables
                .insert(tag_from_str("GSUB"), Rc::new(build_reverse_chain(&gs, *variant)));
            Ok(())
        }
        Surgery::InstallExpansion { glyphs, k, lookups, variant } => {
            let n = num_glyphs(disk)?;
            let mut gs: Vec<u16> = glyphs.iter().copied().filter(|g| *g < n).collect();
            gs.sort_unstable();
            gs.dedup();
            gs.truncate(12);
            let k = (*k).clamp(0, 600);
            let lookups = (*lookups).clamp(1, 12);
            if gs.is_empty() || 64 + usize::from(lookups) * (32 + gs.len() * (6 + 2 * usize::from(k))) > 60000 {
                return Err("surgery: expansion table does not fit 16-bit offsets".into());
            }
            disk.tables
                .insert(tag_from_str("GSUB"), Rc::new(build_expansion(&gs, k, lookups, *variant)));
            // A run that grows to the library's limit (16384 glyphs) is then positioned by every
            // GPOS lookup of the font, and mark-to-mark positioning is quadratic in the number of
            // consecutive marks by design: minutes of honest work, which the watchdog cannot
            // tell from a hang. Large growth is therefore exercised without GPOS / kern.
            if u64::from(k).saturating_pow(u32::from(lookups)) > 64 {
                disk.tables.remove(&tag_from_str("GPOS"));
                disk.tables.remove(&tag_from_str("kern"));
            }
            Ok(())
        }
        Surgery::InstallContextFanout { glyph, records, depth, variant } => {
            let n = num_glyphs(disk)?;
            let depth = (*depth).clamp(1, 6);
            let records = (*records).min(3000);
            if *glyph >= n || 100 + usize::from(depth) * (40 + 4 * usize::from(records)) > 60000 {
                return Err("surgery: context fan-out table does not fit".into());
            }
            disk.tables
                .insert(tag_from_str("GSUB"), Rc::new(build_context_fanout(*glyph, records, depth, *variant)));
            // (as for InstallExpansion: the doubling variant can take the run to the limit)
            if *variant / 2 % 4 == 2 && u64::from(records).saturating_pow(u32::from(depth)) > 64 {
                disk.tables.remove(&tag_from_str("GPOS"));
                disk.tables.remove(&tag_from_str("kern"));
            }
            Ok(())
        }
        Surgery::RvrnFeature { feature_index } => {
            let t = tag_from_str("GSUB");
            let old = disk.tables.get(&t).ok_or("surgery: no GSUB table")?.clone();
            let fl = usize::from(be16(&old, 6).ok_or("surgery: short GSUB")?);
            let count = usize::from(be16(&old, fl).ok_or("surgery: no FeatureList")?);
            let at = fl + 2 + 6 * usize::from(*feature_index);
            if fl == 0 || usize::from(*feature_index) >= count || at + 6 > old.len() {
                return Err("surgery: no such feature record".into());
            }
            let mut new = old.to_vec();
            new[at..at + 4].copy_from_slice(b"rvrn");
            disk.tables.insert(t, Rc::new(new));
            disk.tables.entry(FVAR).or_insert_with(|| Rc::new(synthetic_fvar()));
            Ok(())
        }
        Surgery::ManyTables { count, len } => {
            let body: Rc<Vec<u8>> = Rc::new((0..usize::from(*len)).map(|i| (i * 37 + 11) as u8).collect());
            let digit = |v: usize| b"0123456789abcdefghijklmnopqrstuvwxyz"[v % 36];
            let mut added = 0usize;
            let mut i = 0usize;
            while added < usize::from(*count) && i < 46000 {
                let tag = u32::from_be_bytes([b't', digit(i / 1296), digit(i / 36), digit(i)]);
                i += 1;
                if let std::collections::btree_map::Entry::Vacant(e) = disk.tables.entry(tag) {
                    e.insert(body.clone());
                    added += 1;
                }
            }
            Ok(())
        }
        Surgery::InstallAliasedLists { table, glyph, scripts, langsys, features, frecs, lookups, default_langsys } => {
            let n = num_glyphs(disk)?;
            if *glyph >= n || (table != "GSUB" && table != "GPOS") {
                return Err("surgery: aliased lists need a glyph of the font and GSUB or GPOS".into());
            }
            let t = build_aliased_lists(table == "GPOS", *default_langsys, *glyph, *scripts, (*langsys).min(64), *features, *frecs, *lookups)
                .ok_or("surgery: aliased lists do not fit 16-bit offsets")?;
            disk.tables.insert(tag_from_str(table), Rc::new(t));
            if table == "GPOS" {
                disk.tables.remove(&tag_from_str("kern"));
            }
            Ok(())
        }
        Surgery::InstallCff2Subrs { glyphs, nest } => {
            let t = disk.tables.get(&tag_from_str("CFF2")).ok_or("surgery: no CFF2")?.clone();
            let new = cff2_with_subrs(&t, glyphs, *nest)?;
            disk.tables.insert(tag_from_str("CFF2"), Rc::new(new));
            Ok(())
        }
        Surgery::InstallVarComposite { glyph, a, b, dx, dy, variant } => {
            let get = |t: &str| disk.tables.get(&tag_from_str(t)).cloned().ok_or(format!("surgery: no {}", t));
            let (head, loca, glyf, gvar) = (get("head")?, get("loca")?, get("glyf")?, get("gvar")?);
            let (ng, nv) = var_composite(&head, &loca, &glyf, &gvar, *glyph, *a, *b, *dx, *dy, *variant)?;
            disk.tables.insert(tag_from_str("glyf"), Rc::new(ng));
            disk.tables.insert(tag_from_str("gvar"), Rc::new(nv));
            Ok(())
        }
        Surgery::InstallVarSimple { glyph, amp, variant } => {
            let get = |t: &str| disk.tables.get(&tag_from_str(t)).cloned().ok_or(format!("surgery: no {}", t));
            let (head, loca, glyf, gvar) = (get("head")?, get("loca")?, get("glyf")?, get("gvar")?);
            let nv = var_simple(&head, &loca, &glyf, &gvar, *glyph, *amp, *variant)?;
            disk.tables.insert(tag_from_str("gvar"), Rc::new(nv));
            Ok(())
        }
        Surgery::InstallFracLiga { glyphs, variant } => {
            let n = num_glyphs(disk)?;
            if glyphs.len() != 13 || glyphs.iter().any(|g| *g == 0 || *g >= n) {
                return Err("surgery: frac/liga needs f, i, slash and ten digits".into());
            }
            disk.tables.insert(
                tag_from_str("GSUB"),
                Rc::new(build_frac_liga(glyphs[0], glyphs[1], glyphs[2], &glyphs[3..], *variant)),
            );
            Ok(())
        }
        Surgery::InstallMarkLig { glyphs, mark, components, variant } => {
            let n = num_glyphs(disk)?;
            if glyphs.len() != 13 || glyphs.iter().any(|g| *g == 0 || *g >= n) || *mark == 0 || *mark >= n || glyphs.contains(mark) {
                return Err("surgery: mark/ligature needs f, i, slash, ten digits and a distinct mark".into());
            }
            let lig = if *variant % 2 == 0 { glyphs[0] } else { glyphs[1] };
            let (gdef, gpos) = build_mark_lig(lig, *mark, *components);
            disk.tables.insert(
                tag_from_str("GSUB"),
                Rc::new(build_frac_liga(glyphs[0], glyphs[1], glyphs[2], &glyphs[3..], *variant)),
            );
            disk.tables.insert(tag_from_str("GDEF"), Rc::new(gdef));
            disk.tables.insert(tag_from_str("GPOS"), Rc::new(gpos));
            disk.tables.remove(&tag_from_str("kern"));
            Ok(())
        }
        Surgery::PostFormat { v25, variant, v20 } => {
            let n = usize::from(num_glyphs(disk)?);
            let post = disk.tables.get(&tag_from_str("post")).ok_or("surgery: no post")?.clone();
            if post.len() < 32 {
                return Err("surgery: short post".into());
            }
            let mut t = post[..32].to_vec();
            if *v20 {
                t[0..4].copy_from_slice(&0x0002_0000u32.to_be_bytes());
                t.extend_from_slice(&(n as u16).to_be_bytes());
                // every third glyph (by variant) has a standard name, the others custom names in
                // order of first use
                let mut names: Vec<String> = Vec::new();
                for g in 0..n {
                    if (g + *variant as usize) % 3 == 0 || names.len() >= 32000 {
                        t.extend_from_slice(&(((g * 7 + *variant as usize) % 258) as u16).to_be_bytes());
                    } else {
                        t.extend_from_slice(&((258 + names.len()) as u16).to_be_bytes());
                        names.push(format!("g{}", g));
                    }
                }
                for name in names {
                    t.push(name.len() as u8);
                    t.extend_from_slice(name.as_bytes());
                }
            } else if *v25 {
                if n > 385 {
                    return Err("surgery: too many glyphs for post 2.5".into());
                }
                t[0..4].copy_from_slice(&0x0002_5000u32.to_be_bytes());
                t.extend_from_slice(&(n as u16).to_be_bytes());
                for g in 0..n {
                    // glyph g is named by standard name g + offset, which has to be in 0..=257
                    let want = ((*variant as usize).wrapping_mul(31).wrapping_add(g * 7)) % 258;
                    let off = (want as i32 - g as i32).clamp(-128, 127);
                    let off = if (0..=257).contains(&(g as i32 + off)) { off } else { 0i32.max(-(g as i32)).min(257 - g as i32).clamp(-128, 127) };
                    t.push(off as i8 as u8);
                }
            } else {
                t[0..4].copy_from_slice(&0x0003_0000u32.to_be_bytes());
            }
            disk.tables.insert(tag_from_str("post"), Rc::new(t));
            Ok(())
        }
        Surgery::InstallAvar { variant } => {
            let fvar = disk.tables.get(&tag_from_str("fvar")).ok_or("surgery: no fvar")?.clone();
            let axes = usize::from(be16(&fvar, 8).ok_or("surgery: short fvar")?);
            if axes == 0 || disk.tables.contains_key(&tag_from_str("avar")) {
                return Err("surgery: avar not applicable".into());
            }
            let mut t = Vec::new();
            t.extend_from_slice(&[0, 1, 0, 0, 0, 0]);
            t.extend_from_slice(&(axes as u16).to_be_bytes());
            for a in 0..axes {
                let v = variant >> (3 * a);
                // extra points on each side of 0, mapped through a bend
                let extra = (v % 4) as i32; // 0..3 per side
                let mut maps: Vec<(i16, i16)> = vec![(-0x4000, -0x4000)];
                for k in 1..=extra {
                    let from = -0x4000 + 0x4000 * k / (extra + 1);
                    let to = -0x4000 + (0x4000 * k / (extra + 1)) * 3 / 4;
                    maps.push((from as i16, to as i16));
                }
                maps.push((0, 0));
                for k in 1..=extra {
                    let from = 0x4000 * k / (extra + 1);
                    let to = from / 2;
                    maps.push((from as i16, to as i16));
                }
                maps.push((0x4000, 0x4000));
                t.extend_from_slice(&(maps.len() as u16).to_be_bytes());
                for (f, to) in maps {
                    t.extend_from_slice(&f.to_be_bytes());
                    t.extend_from_slice(&to.to_be_bytes());
                }
            }
            disk.tables.insert(tag_from_str("avar"), Rc::new(t));
            Ok(())
        }
        Surgery::InstallCvar { num_cvts, variant } => {
            let fvar = disk.tables.get(&tag_from_str("fvar")).ok_or("surgery: no fvar")?.clone();
            let axes = usize::from(be16(&fvar, 8).ok_or("surgery: short fvar")?);
            if axes == 0 || !disk.tables.contains_key(&tag_from_str("glyf")) {
                return Err("surgery: cvar needs a TrueType variable font".into());
            }
            let n = match disk.tables.get(&tag_from_str("cvt ")) {
                Some(cvt) if cvt.len() >= 2 => cvt.len() / 2,
                _ => {
                    let n = usize::from((*num_cvts).clamp(1, 400));
                    let mut cvt = Vec::with_capacity(2 * n);
                    for i in 0..n {
                        cvt.extend_from_slice(&((i as i16) * 37 - 900).to_be_bytes());
                    }
                    disk.tables.insert(tag_from_str("cvt "), Rc::new(cvt));
                    n
                }
            };
            disk.tables.insert(tag_from_str("cvar"), Rc::new(build_cvar(axes, n, *variant)));
            Ok(())
        }
        Surgery::CompactHmtx { num_h_metrics } => {
            let n = usize::from(num_glyphs(disk)?);
            let hhea = disk.tables.get(&tag_from_str("hhea")).ok_or("surgery: no hhea")?.clone();
            let hmtx = disk.tables.get(&tag_from_str("hmtx")).ok_or("surgery: no hmtx")?.clone();
            let old_nhm = usize::from(be16(&hhea, 34).ok_or("surgery: short hhea")?);
            if old_nhm == 0 || old_nhm > n || hmtx.len() < 4 * old_nhm + 2 * (n - old_nhm) {
                return Err("surgery: hmtx not well-formed".into());
            }
            let nhm = usize::from(*num_h_metrics).clamp(1, n);
            let lsb = |g: usize| -> [u8; 2] {
                let o = if g < old_nhm { 4 * g + 2 } else { 4 * old_nhm + 2 * (g - old_nhm) };
                [hmtx[o], hmtx[o + 1]]
            };
            let adv = |g: usize| -> [u8; 2] {
                let g = g.min(old_nhm - 1);
                [hmtx[4 * g], hmtx[4 * g + 1]]
            };
            let mut new = Vec::with_capacity(4 * nhm + 2 * (n - nhm));
            for g in 0..nhm {
                new.extend_from_slice(&adv(g));
                new.extend_from_slice(&lsb(g));
            }
            for g in nhm..n {
                new.extend_from_slice(&lsb(g));
            }
            let mut hhea2 = (*hhea).clone();
            hhea2[34..36].copy_from_slice(&(nhm as u16).to_be_bytes());
            disk.tables.insert(tag_from_str("hmtx"), Rc::new(new));
            disk.tables.insert(tag_from_str("hhea"), Rc::new(hhea2));
            Ok(())
        }
        Surgery::InstallVertical { num_v_metrics, over, vvar } => {
            let n = num_glyphs(disk)?;
            let hhea = disk
                .tables
                .get(&tag_from_str("hhea"))
                .ok_or("surgery: no hhea")?
                .clone();
            if hhea.len() < 36 {
                return Err("surgery: short hhea".into());
            }
            let nv = (*num_v_metrics).clamp(1, n.max(1));
            let mut vhea = (*hhea).clone();
            vhea[0..4].copy_from_slice(&[0, 1, 0x10, 0]); // version 1.1
            vhea[34..36].copy_from_slice(&nv.to_be_bytes());
            let mut vmtx = Vec::with_capacity(4 * usize::from(nv) + 2 * usize::from(n - nv.min(n)));
            for g in 0..nv {
                vmtx.extend_from_slice(&(1000u16.wrapping_add(g % 7 * 10)).to_be_bytes());
                vmtx.extend_from_slice(&((g % 5) as i16 * 3 - 4).to_be_bytes());
            }
            for g in nv..n {
                vmtx.extend_from_slice(&((g % 5) as i16 * 3 - 4).to_be_bytes());
            }
            if *over {
                // vhea promises one long metric more than vmtx holds (not a well-formed font)
                let nv1 = nv.saturating_add(1);
                vhea[34..36].copy_from_slice(&nv1.to_be_bytes());
                if nv < n {
                    vmtx.truncate(4 * usize::from(nv));
                }
            }
            disk.tables.insert(tag_from_str("vhea"), Rc::new(vhea));
            disk.tables.insert(tag_from_str("vmtx"), Rc::new(vmtx));
            if *vvar {
                // a minimal well-formed VVAR: one region over the font's axes, no delta sets, no mappings
                if let Some(axes) = disk.tables.get(&FVAR).and_then(|f| be16(f, 8)) {
                    let mut v = Vec::new();
                    v.extend_from_slice(&[0, 1, 0, 0]);
                    v.extend_from_slice(&24u32.to_be_bytes());
                    v.extend_from_slice(&[0u8; 16]);
                    v.extend_from_slice(&1u16.to_be_bytes());
                    v.extend_from_slice(&8u32.to_be_bytes());
                    v.extend_from_slice(&0u16.to_be_bytes());
                    v.extend_from_slice(&axes.to_be_bytes());
                    v.extend_from_slice(&1u16.to_be_bytes());
                    for _ in 0..axes {
                        v.extend_from_slice(&0i16.to_be_bytes());
                        v.extend_from_slice(&0x4000i16.to_be_bytes());
                        v.extend_from_slice(&0x4000i16.to_be_bytes());
                    }
                    disk.tables.insert(tag_from_str("VVAR"), Rc::new(v));
                }
            }
            Ok(())
        }
    }
}

//! Accounting allocator: the simulator's heap seam. Counts live/peak bytes and the largest
//! single request; refuses (returns null => `handle_alloc_error` => abort) requests that break
//! the budget after writing one `VERIF-ALLOC-BUDGET` line with `write(2)`.

use std::alloc::{GlobalAlloc, Layout, System};
use std::sync::atomic::{AtomicUsize, Ordering::Relaxed};

pub struct SimAlloc;

static LIVE: AtomicUsize = AtomicUsize::new(0);
static PEAK: AtomicUsize = AtomicUsize::new(0);
static LARGEST: AtomicUsize = AtomicUsize::new(0);
static COUNT: AtomicUsize = AtomicUsize::new(0);
static BUDGET: AtomicUsize = AtomicUsize::new(usize::MAX);
/// The budget as configured (BUDGET itself is lifted after a refusal, see `refuse`).
static CONFIGURED: AtomicUsize = AtomicUsize::new(usize::MAX);
/// Size of the first request refused in the current window (0: none). A refusal does not
/// always abort: fallible allocations (`try_reserve`, as in `Read::read_to_end`) turn it into
/// an ordinary error, so the executor asks after every operation.
static REFUSED: AtomicUsize = AtomicUsize::new(0);
/// Live bytes that belong to the harness (corpus cache, generator tables, the prepared storage
/// of the current run). The budget applies to what the run allocates on top of this, so that a
/// run behaves the same inside a long campaign worker and in an isolated replay process.
static BASE: AtomicUsize = AtomicUsize::new(0);

pub fn set_budget(bytes: usize) {
    BUDGET.store(bytes, Relaxed);
    CONFIGURED.store(bytes, Relaxed);
}
pub fn refused() -> usize {
    REFUSED.load(Relaxed)
}
pub fn live() -> usize {
    LIVE.load(Relaxed)
}
pub fn peak() -> usize {
    PEAK.load(Relaxed)
}
pub fn largest() -> usize {
    LARGEST.load(Relaxed)
}
pub fn count() -> usize {
    COUNT.load(Relaxed)
}
/// Start a new measurement window: base := live, peak := live, largest := 0.
pub fn reset_window() {
    // a refusal survived by the previous run lifted the budget: every run starts with it in force
    BUDGET.store(CONFIGURED.load(Relaxed), Relaxed);
    REFUSED.store(0, Relaxed);
    BASE.store(LIVE.load(Relaxed), Relaxed);
    PEAK.store(LIVE.load(Relaxed), Relaxed);
    LARGEST.store(0, Relaxed);
}

fn refuse(size: usize) {
    // No allocation, no formatting machinery: hand-rolled decimal.
    let mut buf = [0u8; 64];
    let prefix = b"VERIF-ALLOC-BUDGET size=";
    let mut n = 0;
    for &b in prefix {
        buf[n] = b;
        n += 1;
    }
    let mut digits = [0u8; 20];
    let mut d = 0;
    let mut v = size;
    loop {
        digits[d] = b'0' + (v % 10) as u8;
        d += 1;
        v /= 10;
        if v == 0 {
            break;
        }
    }
    while d > 0 {
        d -= 1;
        buf[n] = digits[d];
        n += 1;
    }
    buf[n] = b'\n';
    n += 1;
    unsafe {
        libc::write(2, buf.as_ptr() as *const libc::c_void, n);
    }
    // The process is about to abort (handle_alloc_error): lift the budget so that the abort
    // path can allocate what it needs to print the backtrace that names the allocation site.
    // (If the caller survives the refusal the executor reports it; the budget is back in force
    // at the next `reset_window`.)
    if REFUSED.load(Relaxed) == 0 {
        REFUSED.store(size.max(1), Relaxed);
    }
    BUDGET.store(usize::MAX, Relaxed);
}

#[inline]
fn account(size: usize) -> bool {
    let budget = BUDGET.load(Relaxed);
    let live = LIVE.load(Relaxed);
    if size > budget || live.saturating_sub(BASE.load(Relaxed)).saturating_add(size) > budget {
        refuse(size);
        return false;
    }
    let now = LIVE.fetch_add(size, Relaxed) + size;
    if now > PEAK.load(Relaxed) {
        PEAK.store(now, Relaxed);
    }
    if size > LARGEST.load(Relaxed) {
        LARGEST.store(size, Relaxed);
    }
    COUNT.fetch_add(1, Relaxed);
    true
}

unsafe impl GlobalAlloc for SimAlloc {
    unsafe fn alloc(&self, layout: Layout) -> *mut u8 {
        if !account(layout.size()) {
            return std::ptr::null_mut();
        }
        let p = System.alloc(layout);
        if p.is_null() {
            LIVE.fetch_sub(layout.size(), Relaxed);
        }
        p
    }
    unsafe fn dealloc(&self, ptr: *mut u8, layout: Layout) {
        LIVE.fetch_sub(layout.size(), Relaxed);
        System.dealloc(ptr, layout)
    }
    unsafe fn alloc_zeroed(&self, layout: Layout) -> *mut u8 {
        if !account(layout.size()) {
            return std::ptr::null_mut();
        }
        let p = System.alloc_zeroed(layout);
        if p.is_null() {
            LIVE.fetch_sub(layout.size(), Relaxed);
        }
        p
    }
    unsafe fn realloc(&self, ptr: *mut u8, layout: Layout, new_size: usize) -> *mut u8 {
        if new_size > layout.size() {
            if !account(new_size - layout.size()) {
                return std::ptr::null_mut();
            }
            if new_size > LARGEST.load(Relaxed) {
                LARGEST.store(new_size, Relaxed);
            }
        } else {
            LIVE.fetch_sub(layout.size() - new_size, Relaxed);
        }
        let p = System.realloc(ptr, layout, new_size);
        if p.is_null() && new_size > layout.size() {
            LIVE.fetch_sub(new_size - layout.size(), Relaxed);
        }
        p
    }
}

//! Deterministic WOFF2 encoder for the `glyf`/`loca` (version 0) and `hmtx` (version 1) transforms.
//!
//! std only, no `unsafe`, no external crates. The "compressed" stream is a sequence of STORED
//! (uncompressed) brotli meta-blocks, so no real compressor is needed and every byte of the
//! transformed tables is visible (and faultable) in the file.
//!
//! Follows <https://www.w3.org/TR/WOFF2/>: table directory (known-tag index / 0x3f + explicit tag,
//! UIntBase128 lengths), transformed glyf header (reserved, optionFlags, numGlyphs, indexFormat, seven
//! stream sizes, nContour / nPoints / flag / glyph / composite / bbox (bitmap + boxes) / instruction
//! streams, optional overlapSimpleBitmap), 255UInt16, the 128 entry triplet encoding, transformed
//! loca (transformLength 0) and transformed hmtx (flags, advanceWidth[], optional lsb[] / leftSideBearing[]).
//!
//! Free choices of the encoder are driven by `Woff2Options::variant` (0 = canonical, i.e. what the
//! reference encoder would emit); see `Choices`.

// ------------------------------------------------------------------------------------------------
// Public API

/// Never set bit 1 of the transformed-hmtx flags (never elide the leftSideBearing[] array of the
/// glyphs numberOfHMetrics..numGlyphs). allsorts mis-reconstructs that array (see NOTES.md).
pub const AVOID_HMTX_ELIDE_TAIL: u32 = 1 << 0;
/// Never elide a *zero-length* leftSideBearing[] array (numberOfHMetrics == numGlyphs). Implied by
/// `AVOID_HMTX_ELIDE_TAIL`. The reference encoder never does this either.
pub const AVOID_HMTX_ELIDE_EMPTY_TAIL: u32 = 1 << 1;
/// Never emit the optional overlapSimpleBitmap unless a glyph really carries OVERLAP_SIMPLE, and
/// never set extra overlap bits.
pub const AVOID_GRATUITOUS_OVERLAP_BITMAP: u32 = 1 << 2;
/// Never emit the overlapSimpleBitmap at all (drops OVERLAP_SIMPLE of the source glyphs, like
/// pre-2021 encoders did).
pub const AVOID_OVERLAP_BITMAP: u32 = 1 << 3;
/// Only use the shortest triplet / 255UInt16 encodings.
pub const AVOID_NON_MINIMAL_ENCODINGS: u32 = 1 << 4;
/// Do not apply the glyf transform when `hhea` is missing/short (allsorts needs hhea to load a
/// font with a transformed glyf even when hmtx is not transformed).
pub const AVOID_GLYF_TRANSFORM_WITHOUT_HHEA: u32 = 1 << 5;

pub struct Woff2Options {
    /// apply the glyf/loca transform (version 0) when the font has glyf+loca; otherwise null transform (version 3)
    pub transform_glyf: bool,
    /// apply the hmtx transform (version 1) when it is applicable (glyf transformed AND the side bearings equal
    /// each glyph's xMin for the array(s) being elided); which of the two arrays to elide is chosen from `variant`
    pub transform_hmtx: bool,
    /// seed for the encoder's free choices: explicit bbox for simple glyphs even when it could be computed,
    /// overlap-simple flag bit, 255UInt16 alternative encodings (the value 506..=761 range has two encodings),
    /// table order in the directory, whether known-tag indices or explicit 4-byte tags (0x3f) are used, optionFlags
    pub variant: u64,
    /// bit set of `AVOID_*` constants: constructs the encoder must not use (work-arounds for decoder
    /// defects, see NOTES.md). 0 = use everything the spec allows.
    pub avoid: u32,
}

impl Woff2Options {
    pub fn new(transform_glyf: bool, transform_hmtx: bool, variant: u64) -> Self {
        Woff2Options { transform_glyf, transform_hmtx, variant, avoid: 0 }
    }
}

/// What the encoder actually did (also rendered by `describe`).
#[derive(Clone, Debug, Default)]
pub struct Woff2Info {
    pub num_tables: usize,
    /// tags in directory (= stream) order
    pub order: Vec<u32>,
    /// tags written with the 0x3f escape + explicit tag although (or because) they are (not) known
    pub explicit_tags: Vec<u32>,
    pub glyf_transformed: bool,
    /// why the glyf transform was not applied (empty when applied or not requested)
    pub glyf_reason: String,
    pub hmtx_transformed: bool,
    /// transformed hmtx flags byte (bit 0: lsb[] elided, bit 1: leftSideBearing[] elided)
    pub hmtx_flags: u8,
    pub hmtx_reason: String,
    /// lsb == xMin holds for all glyphs 0..numberOfHMetrics
    pub hmtx_lsb_legal: bool,
    /// lsb == xMin holds for all glyphs numberOfHMetrics..numGlyphs (vacuously true when empty)
    pub hmtx_tail_legal: bool,
    pub num_glyphs: usize,
    pub num_h_metrics: usize,
    pub index_format: u16,
    pub n_empty: usize,
    /// glyphs with numberOfContours == 0 but a non-empty glyph record: encoded as empty glyphs
    pub n_zero_contour_with_data: usize,
    pub n_simple: usize,
    pub n_composite: usize,
    pub n_points: usize,
    pub n_explicit_bbox_simple: usize,
    /// of which: required because the stored bbox differs from the computed one
    pub n_required_bbox_simple: usize,
    pub n_overlap_source: usize,
    pub n_overlap_emitted: usize,
    pub option_flags: u16,
    pub n_alt_triplets: usize,
    pub n_alt_255: usize,
    pub stream_sizes: [usize; 7],
    pub transformed_glyf_len: usize,
    pub head_bit11_set: bool,
    pub total_sfnt_size: u32,
    pub raw_len: usize,
    pub compressed_len: usize,
    pub file_len: usize,
    pub chunk: usize,
    pub choices: String,
}

/// `tables`: (tag, bytes) of one sfnt font (any order). `flavour`: sfnt version (0x00010000 / 'OTTO' / 'true').
/// Returns a complete WOFF2 file whose compressed stream consists of STORED (uncompressed) brotli meta-blocks.
/// Returns None when the font cannot be encoded at all (too many tables, table > 4 GiB); a font whose
/// glyf/loca/hmtx cannot be transformed is encoded with null transforms instead.
pub fn build_woff2(tables: &[(u32, Vec<u8>)], flavour: u32, opts: &Woff2Options) -> Option<Vec<u8>> {
    build_woff2_with_info(tables, flavour, opts).map(|(file, _)| file)
}

pub fn describe(tables: &[(u32, Vec<u8>)], flavour: u32, opts: &Woff2Options) -> String {
    match build_woff2_with_info(tables, flavour, opts) {
        None => "woff2: cannot encode (too many tables / table too large)".to_string(),
        Some((_, i)) => {
            let tags = |v: &[u32]| v.iter().map(|t| tag_str(*t)).collect::<Vec<_>>().join(",");
            let mut s = String::new();
            s.push_str(&format!(
                "woff2 flavour={:08x} variant={} avoid={:#x} tables={} file={}B raw={}B stored={}B chunk={} totalSfntSize={}\n",
                flavour, opts.variant, opts.avoid, i.num_tables, i.file_len, i.raw_len, i.compressed_len, i.chunk, i.total_sfnt_size
            ));
            s.push_str(&format!("choices: {}\n", i.choices));
            s.push_str(&format!("order: {}\n", tags(&i.order)));
            s.push_str(&format!("explicit-tags(0x3f): {}\n", tags(&i.explicit_tags)));
            if i.glyf_transformed {
                s.push_str(&format!(
                    "glyf: TRANSFORMED v0 len={} numGlyphs={} indexFormat={} optionFlags={:#06x} empty={} (zero-contour-with-data={}) simple={} composite={} points={} explicit-simple-bbox={} (required {}) overlap src={} emitted={} alt-triplets={} alt-255u16={} streams[nContour,nPoints,flag,glyph,composite,bbox,instr]={:?} head.flags.bit11={}\n",
                    i.transformed_glyf_len, i.num_glyphs, i.index_format, i.option_flags, i.n_empty, i.n_zero_contour_with_data,
                    i.n_simple, i.n_composite, i.n_points, i.n_explicit_bbox_simple, i.n_required_bbox_simple,
                    i.n_overlap_source, i.n_overlap_emitted, i.n_alt_triplets, i.n_alt_255, i.stream_sizes, i.head_bit11_set
                ));
            } else {
                s.push_str(&format!("glyf: null transform ({})\n", if i.glyf_reason.is_empty() { "not requested" } else { &i.glyf_reason }));
            }
            if i.hmtx_transformed {
                s.push_str(&format!(
                    "hmtx: TRANSFORMED v1 flags={:#04x} (lsb[] {}, leftSideBearing[] {}) numberOfHMetrics={} legal: lsb={} tail={}\n",
                    i.hmtx_flags,
                    if i.hmtx_flags & 1 != 0 { "elided" } else { "kept" },
                    if i.hmtx_flags & 2 != 0 { "elided" } else { "kept" },
                    i.num_h_metrics, i.hmtx_lsb_legal, i.hmtx_tail_legal
                ));
            } else {
                s.push_str(&format!(
                    "hmtx: null transform ({}) legal: lsb={} tail={}\n",
                    if i.hmtx_reason.is_empty() { "not requested" } else { &i.hmtx_reason }, i.hmtx_lsb_legal, i.hmtx_tail_legal
                ));
            }
            s
        }
    }
}

// ------------------------------------------------------------------------------------------------
// Tags

const fn tg(b: &[u8; 4]) -> u32 {
    ((b[0] as u32) << 24) | ((b[1] as u32) << 16) | ((b[2] as u32) << 8) | (b[3] as u32)
}

const GLYF: u32 = tg(b"glyf");
const LOCA: u32 = tg(b"loca");
const HEAD: u32 = tg(b"head");
const HHEA: u32 = tg(b"hhea");
const HMTX: u32 = tg(b"hmtx");
const MAXP: u32 = tg(b"maxp");

/// Known table tags, <https://www.w3.org/TR/WOFF2/#table_dir_format>
pub const KNOWN_TAGS: [&[u8; 4]; 63] = [
    b"cmap", b"head", b"hhea", b"hmtx", b"maxp", b"name", b"OS/2", b"post", b"cvt ", b"fpgm", b"glyf", b"loca", b"prep",
    b"CFF ", b"VORG", b"EBDT", b"EBLC", b"gasp", b"hdmx", b"kern", b"LTSH", b"PCLT", b"VDMX", b"vhea", b"vmtx", b"BASE",
    b"GDEF", b"GPOS", b"GSUB", b"EBSC", b"JSTF", b"MATH", b"CBDT", b"CBLC", b"COLR", b"CPAL", b"SVG ", b"sbix", b"acnt",
    b"avar", b"bdat", b"bloc", b"bsln", b"cvar", b"fdsc", b"feat", b"fmtx", b"fvar", b"gvar", b"hsty", b"just", b"lcar",
    b"mort", b"morx", b"opbd", b"prop", b"trak", b"Zapf", b"Silf", b"Glat", b"Gloc", b"Feat", b"Sill",
];

fn tag_str(t: u32) -> String {
    t.to_be_bytes().iter().map(|&b| if (0x20..0x7f).contains(&b) { b as char } else { '?' }).collect()
}

// ------------------------------------------------------------------------------------------------
// Deterministic PRNG (splitmix64)

#[derive(Clone)]
struct Rng(u64);

impl Rng {
    fn new(seed: u64, salt: u64) -> Self {
        let mut r = Rng(seed ^ salt.wrapping_mul(0x9E37_79B9_7F4A_7C15));
        r.next();
        r
    }
    fn next(&mut self) -> u64 {
        self.0 = self.0.wrapping_add(0x9E37_79B9_7F4A_7C15);
        let mut z = self.0;
        z = (z ^ (z >> 30)).wrapping_mul(0xBF58_476D_1CE4_E5B9);
        z = (z ^ (z >> 27)).wrapping_mul(0x94D0_49BB_1331_11EB);
        z ^ (z >> 31)
    }
    fn below(&mut self, n: u64) -> u64 {
        if n == 0 {
            0
        } else {
            self.next() % n
        }
    }
    fn one_in(&mut self, n: u64) -> bool {
        self.below(n) == 0
    }
}

// ------------------------------------------------------------------------------------------------
// Free choices

#[derive(Clone, Debug)]
struct Choices {
    /// 0 ascending tag order, 1 input order, 2 descending tag order, 3 shuffled. (loca always directly follows glyf.)
    order_mode: u8,
    /// 0 known-tag index whenever possible, 1 always 0x3f + explicit tag, 2 random per table
    tag_mode: u8,
    /// 0 explicit simple-glyph bbox only when it differs from the computed one, 1 always, 2 random per glyph
    bbox_mode: u8,
    /// 0 overlapSimpleBitmap only if a source glyph has OVERLAP_SIMPLE, 1 always emitted (faithful bits),
    /// 2 always emitted + extra bits set on random glyphs (simple, composite and empty ones)
    overlap_mode: u8,
    /// 0 shortest 255UInt16, 1 a random valid alternative for 1 in 3 values, 2 always the 3 byte (253) form
    u255_mode: u8,
    /// 0 canonical (shortest) triplet, 1 a random valid alternative for 1 in 4 points
    triplet_mode: u8,
    /// 0 reference behaviour (bit 0 if legal; bit 1 if legal and the array is not empty),
    /// 1 elide lsb[] only (fall back to leftSideBearing[] only), 2 elide leftSideBearing[] only (even if empty;
    /// fall back to lsb[] only), 3 elide everything legal (even an empty leftSideBearing[])
    hmtx_mode: u8,
    /// bytes per stored brotli meta-block
    chunk: usize,
}

impl Choices {
    fn new(variant: u64, avoid: u32) -> Self {
        let mut c = if variant == 0 {
            Choices { order_mode: 0, tag_mode: 0, bbox_mode: 0, overlap_mode: 0, u255_mode: 0, triplet_mode: 0, hmtx_mode: 0, chunk: 65536 }
        } else {
            let mut r = Rng::new(variant, 0xC401CE5);
            // The low variants walk through every mode of every category quickly: mode = (variant + offset) % n,
            // larger variants are hashed.
            let mut pick = |n: u64, off: u64| -> u8 {
                let h = r.next();
                if variant <= 12 {
                    ((variant + off) % n) as u8
                } else {
                    (h % n) as u8
                }
            };
            let order_mode = pick(4, 0);
            let tag_mode = pick(3, 0);
            let bbox_mode = pick(3, 1);
            let overlap_mode = pick(3, 2);
            let u255_mode = pick(3, 0);
            let triplet_mode = pick(2, 0);
            let hmtx_mode = pick(4, 0);
            let chunk = [65536usize, 65535, 32768, 4096, 21845, 65536, 1000, 60000][pick(8, 0) as usize];
            Choices { order_mode, tag_mode, bbox_mode, overlap_mode, u255_mode, triplet_mode, hmtx_mode, chunk }
        };
        if avoid & AVOID_NON_MINIMAL_ENCODINGS != 0 {
            c.u255_mode = 0;
            c.triplet_mode = 0;
        }
        if avoid & (AVOID_GRATUITOUS_OVERLAP_BITMAP | AVOID_OVERLAP_BITMAP) != 0 {
            c.overlap_mode = 0;
        }
        c
    }
}

// ------------------------------------------------------------------------------------------------
// Small readers / writers

fn be16(d: &[u8], p: usize) -> Option<u16> {
    let b = d.get(p..p.checked_add(2)?)?;
    Some(u16::from_be_bytes([b[0], b[1]]))
}
fn be16i(d: &[u8], p: usize) -> Option<i16> {
    be16(d, p).map(|v| v as i16)
}
fn be32(d: &[u8], p: usize) -> Option<u32> {
    let b = d.get(p..p.checked_add(4)?)?;
    Some(u32::from_be_bytes([b[0], b[1], b[2], b[3]]))
}
fn push16(out: &mut Vec<u8>, v: u16) {
    out.extend_from_slice(&v.to_be_bytes());
}
fn push32(out: &mut Vec<u8>, v: u32) {
    out.extend_from_slice(&v.to_be_bytes());
}

/// UIntBase128 (no leading zeros: the encoding is unique).
fn push_base128(out: &mut Vec<u8>, v: u32) {
    let mut started = false;
    for shift in [28u32, 21, 14, 7] {
        let b = ((v >> shift) & 0x7f) as u8;
        if b != 0 || started {
            out.push(b | 0x80);
            started = true;
        }
    }
    out.push((v & 0x7f) as u8);
}

/// 255UInt16. Returns true when a non-canonical (not the reference encoder's) form was used.
fn push_255u16(out: &mut Vec<u8>, v: u16, mode: u8, rng: &mut Rng) -> bool {
    // form ids: 0 = one byte, 1 = 255 + (v-253), 2 = 254 + (v-506), 3 = 253 + u16
    let canonical: u8 = if v < 253 {
        0
    } else if v < 506 {
        1
    } else if v < 762 {
        2
    } else {
        3
    };
    let mut valid = [0u8; 4];
    let mut n = 0;
    if v < 253 {
        valid[n] = 0;
        n += 1;
    }
    if (253..=508).contains(&v) {
        valid[n] = 1;
        n += 1;
    }
    if (506..=761).contains(&v) {
        valid[n] = 2;
        n += 1;
    }
    valid[n] = 3;
    n += 1;
    let form = match mode {
        0 => canonical,
        2 => 3,
        _ => {
            if rng.one_in(3) {
                valid[rng.below(n as u64) as usize]
            } else {
                canonical
            }
        }
    };
    match form {
        0 => out.push(v as u8),
        1 => {
            out.push(255);
            out.push((v - 253) as u8);
        }
        2 => {
            out.push(254);
            out.push((v - 506) as u8);
        }
        _ => {
            out.push(253);
            push16(out, v);
        }
    }
    form != canonical
}

// ------------------------------------------------------------------------------------------------
// Triplet encoding (WOFF2 5.2)

#[derive(Clone, Copy, Debug, PartialEq, Eq)]
pub struct Triplet {
    pub byte_count: u8,
    pub x_bits: u8,
    pub y_bits: u8,
    pub delta_x: u16,
    pub delta_y: u16,
    pub x_is_negative: bool,
    pub y_is_negative: bool,
}

/// The 128 entry table of the specification, generated from its construction rule.
pub fn triplet_table() -> Vec<Triplet> {
    let mut t = Vec::with_capacity(128);
    for i in 0..128u16 {
        let e = if i < 10 {
            Triplet { byte_count: 1, x_bits: 0, y_bits: 8, delta_x: 0, delta_y: 256 * (i / 2), x_is_negative: false, y_is_negative: i % 2 == 0 }
        } else if i < 20 {
            let k = i - 10;
            Triplet { byte_count: 1, x_bits: 8, y_bits: 0, delta_x: 256 * (k / 2), delta_y: 0, x_is_negative: k % 2 == 0, y_is_negative: false }
        } else if i < 84 {
            let k = i - 20;
            Triplet {
                byte_count: 1,
                x_bits: 4,
                y_bits: 4,
                delta_x: 1 + 16 * (k / 16),
                delta_y: 1 + 16 * ((k / 4) % 4),
                x_is_negative: k & 1 == 0,
                y_is_negative: k & 2 == 0,
            }
        } else if i < 120 {
            let k = i - 84;
            Triplet {
                byte_count: 2,
                x_bits: 8,
                y_bits: 8,
                delta_x: 1 + 256 * (k / 12),
                delta_y: 1 + 256 * ((k / 4) % 3),
                x_is_negative: k & 1 == 0,
                y_is_negative: k & 2 == 0,
            }
        } else if i < 124 {
            let k = i - 120;
            Triplet { byte_count: 3, x_bits: 12, y_bits: 12, delta_x: 0, delta_y: 0, x_is_negative: k & 1 == 0, y_is_negative: k & 2 == 0 }
        } else {
            let k = i - 124;
            Triplet { byte_count: 4, x_bits: 16, y_bits: 16, delta_x: 0, delta_y: 0, x_is_negative: k & 1 == 0, y_is_negative: k & 2 == 0 }
        };
        t.push(e);
    }
    t
}

fn axis_fits(bits: u8, delta: u16, negative: bool, d: i32) -> bool {
    if bits == 0 {
        return d == 0;
    }
    if (d < 0 && !negative) || (d > 0 && negative) {
        return false;
    }
    let a = d.abs();
    a >= i32::from(delta) && a - i32::from(delta) < (1i32 << bits)
}

fn triplet_fits(e: &Triplet, dx: i32, dy: i32) -> bool {
    axis_fits(e.x_bits, e.delta_x, e.x_is_negative, dx) && axis_fits(e.y_bits, e.delta_y, e.y_is_negative, dy)
}

/// The triplet index the reference encoder (google/woff2) picks: always one of the shortest.
pub fn canonical_triplet_index(dx: i32, dy: i32) -> u8 {
    let ax = dx.abs();
    let ay = dy.abs();
    let x_sign = if dx < 0 { 0 } else { 1 };
    let y_sign = if dy < 0 { 0 } else { 1 };
    let xy = x_sign + 2 * y_sign;
    let idx = if dx == 0 && ay < 1280 {
        ((ay & 0xf00) >> 7) + y_sign
    } else if dy == 0 && ax < 1280 {
        10 + ((ax & 0xf00) >> 7) + x_sign
    } else if ax < 65 && ay < 65 {
        20 + ((ax - 1) & 0x30) + (((ay - 1) & 0x30) >> 2) + xy
    } else if ax < 769 && ay < 769 {
        84 + 12 * (((ax - 1) & 0x300) >> 8) + (((ay - 1) & 0x300) >> 6) + xy
    } else if ax < 4096 && ay < 4096 {
        120 + xy
    } else {
        124 + xy
    };
    idx as u8
}

/// Append the coordinate bytes of (dx, dy) under triplet `idx` to `out`.
fn push_triplet_data(out: &mut Vec<u8>, e: &Triplet, dx: i32, dy: i32) {
    let vx = if e.x_bits == 0 { 0u64 } else { (dx.abs() - i32::from(e.delta_x)) as u64 };
    let vy = if e.y_bits == 0 { 0u64 } else { (dy.abs() - i32::from(e.delta_y)) as u64 };
    let total = u32::from(e.byte_count) * 8;
    let x_shift = total - u32::from(e.x_bits);
    let y_shift = total - u32::from(e.x_bits) - u32::from(e.y_bits);
    let data = (vx << x_shift) | (vy << y_shift);
    for k in (0..e.byte_count).rev() {
        out.push((data >> (8 * u32::from(k))) as u8);
    }
}

// ------------------------------------------------------------------------------------------------
// Source glyph parsing

struct SimpleSrc<'a> {
    end_pts: Vec<u16>,
    instructions: &'a [u8],
    /// (on curve, absolute x, absolute y)
    points: Vec<(bool, i32, i32)>,
    bbox: [i16; 4],
    overlap: bool,
}

struct CompositeSrc<'a> {
    bbox: [i16; 4],
    /// the component records, verbatim (flags, glyphIndex, arguments, transform)
    components: &'a [u8],
    have_instructions: bool,
    instructions: &'a [u8],
}

enum GlyphSrc<'a> {
    Empty { had_data: bool },
    Simple(SimpleSrc<'a>),
    Composite(CompositeSrc<'a>),
}

fn parse_glyph(d: &[u8]) -> Result<GlyphSrc<'_>, String> {
    if d.is_empty() {
        return Ok(GlyphSrc::Empty { had_data: false });
    }
    let short = || "glyph record truncated".to_string();
    let n_contours = be16i(d, 0).ok_or_else(short)?;
    if d.len() < 10 {
        return Err(short());
    }
    let bbox = [be16i(d, 2).unwrap(), be16i(d, 4).unwrap(), be16i(d, 6).unwrap(), be16i(d, 8).unwrap()];
    let mut p = 10usize;
    if n_contours == 0 {
        // A glyph record with a header but no contours: there is no way to carry its header through the
        // transform (nContours 0 = empty glyph, no other data). Encoded as an empty glyph.
        return Ok(GlyphSrc::Empty { had_data: true });
    }
    if n_contours > 0 {
        let n = n_contours as usize;
        let mut end_pts = Vec::with_capacity(n);
        for _ in 0..n {
            end_pts.push(be16(d, p).ok_or_else(short)?);
            p += 2;
        }
        for w in end_pts.windows(2) {
            if w[1] < w[0] {
                return Err("endPtsOfContours decreasing".to_string());
            }
        }
        let last = *end_pts.last().unwrap();
        if last == u16::MAX {
            return Err("65536 points in a glyph".to_string());
        }
        let n_points = usize::from(last) + 1;
        let ilen = usize::from(be16(d, p).ok_or_else(short)?);
        p += 2;
        let instructions = d.get(p..p + ilen).ok_or_else(short)?;
        p += ilen;
        let mut flags: Vec<u8> = Vec::with_capacity(n_points);
        while flags.len() < n_points {
            let f = *d.get(p).ok_or_else(short)?;
            p += 1;
            flags.push(f);
            if f & 0x08 != 0 {
                let rep = usize::from(*d.get(p).ok_or_else(short)?);
                p += 1;
                if flags.len() + rep > n_points {
                    return Err("flag repeat overruns the point count".to_string());
                }
                for _ in 0..rep {
                    flags.push(f);
                }
            }
        }
        let mut points = Vec::with_capacity(n_points);
        let mut x = 0i32;
        for &f in &flags {
            let dx = if f & 0x02 != 0 {
                let v = i32::from(*d.get(p).ok_or_else(short)?);
                p += 1;
                if f & 0x10 != 0 {
                    v
                } else {
                    -v
                }
            } else if f & 0x10 != 0 {
                0
            } else {
                let v = i32::from(be16i(d, p).ok_or_else(short)?);
                p += 2;
                v
            };
            x += dx;
            if x < i32::from(i16::MIN) || x > i32::from(i16::MAX) {
                return Err("x coordinate overflows int16".to_string());
            }
            points.push((f & 1 != 0, x, 0i32));
        }
        let mut y = 0i32;
        for (k, &f) in flags.iter().enumerate() {
            let dy = if f & 0x04 != 0 {
                let v = i32::from(*d.get(p).ok_or_else(short)?);
                p += 1;
                if f & 0x20 != 0 {
                    v
                } else {
                    -v
                }
            } else if f & 0x20 != 0 {
                0
            } else {
                let v = i32::from(be16i(d, p).ok_or_else(short)?);
                p += 2;
                v
            };
            y += dy;
            if y < i32::from(i16::MIN) || y > i32::from(i16::MAX) {
                return Err("y coordinate overflows int16".to_string());
            }
            points[k].2 = y;
        }
        let overlap = flags[0] & 0x40 != 0;
        Ok(GlyphSrc::Simple(SimpleSrc { end_pts, instructions, points, bbox, overlap }))
    } else {
        let start = p;
        let mut have_instructions = false;
        loop {
            let flags = be16(d, p).ok_or_else(short)?;
            let mut len = 4; // flags + glyphIndex
            len += if flags & 0x0001 != 0 { 4 } else { 2 };
            len += if flags & 0x0008 != 0 {
                2
            } else if flags & 0x0040 != 0 {
                4
            } else if flags & 0x0080 != 0 {
                8
            } else {
                0
            };
            if p + len > d.len() {
                return Err(short());
            }
            p += len;
            if flags & 0x0100 != 0 {
                have_instructions = true;
            }
            if flags & 0x0020 == 0 {
                break;
            }
        }
        let components = &d[start..p];
        let instructions: &[u8] = if have_instructions {
            let ilen = usize::from(be16(d, p).ok_or_else(short)?);
            p += 2;
            d.get(p..p + ilen).ok_or_else(short)?
        } else {
            &[]
        };
        Ok(GlyphSrc::Composite(CompositeSrc { bbox, components, have_instructions, instructions }))
    }
}

fn computed_bbox(points: &[(bool, i32, i32)]) -> [i16; 4] {
    let mut b = [points[0].1, points[0].2, points[0].1, points[0].2];
    for &(_, x, y) in points {
        b[0] = b[0].min(x);
        b[1] = b[1].min(y);
        b[2] = b[2].max(x);
        b[3] = b[3].max(y);
    }
    [b[0] as i16, b[1] as i16, b[2] as i16, b[3] as i16]
}

// ------------------------------------------------------------------------------------------------
// glyf / loca transform

struct GlyfTransform {
    data: Vec<u8>,
    /// xMin of each glyph as a decoder will see it (0 for empty glyphs)
    x_min: Vec<i16>,
    loca_len: usize,
}

fn transform_glyf(
    glyf: &[u8],
    loca: &[u8],
    num_glyphs: usize,
    index_format: u16,
    ch: &Choices,
    variant: u64,
    avoid: u32,
    info: &mut Woff2Info,
) -> Result<GlyfTransform, String> {
    if index_format > 1 {
        return Err(format!("head.indexToLocFormat = {}", index_format));
    }
    let entry = if index_format == 0 { 2 } else { 4 };
    let loca_len = (num_glyphs + 1) * entry;
    if loca.len() < loca_len {
        return Err(format!("loca too short: {} < {}", loca.len(), loca_len));
    }
    let offset = |i: usize| -> usize {
        if index_format == 0 {
            usize::from(be16(loca, i * 2).unwrap()) * 2
        } else {
            be32(loca, i * 4).unwrap() as usize
        }
    };
    let triplets = triplet_table();
    let mut rng_bbox = Rng::new(variant, 1);
    let mut rng_255 = Rng::new(variant, 2);
    let mut rng_trip = Rng::new(variant, 3);
    let mut rng_ovl = Rng::new(variant, 4);

    let mut n_contour_s: Vec<u8> = Vec::with_capacity(num_glyphs * 2);
    let mut n_points_s: Vec<u8> = Vec::new();
    let mut flag_s: Vec<u8> = Vec::new();
    let mut glyph_s: Vec<u8> = Vec::new();
    let mut composite_s: Vec<u8> = Vec::new();
    let bitmap_len = ((num_glyphs + 31) >> 5) << 2;
    let mut bbox_bitmap = vec![0u8; bitmap_len];
    let mut bbox_s: Vec<u8> = Vec::new();
    let mut instr_s: Vec<u8> = Vec::new();
    let mut overlap_bitmap = vec![0u8; (num_glyphs + 7) >> 3];
    let mut x_min = Vec::with_capacity(num_glyphs);
    let mut candidates: Vec<u8> = Vec::with_capacity(16);

    for gid in 0..num_glyphs {
        let (a, b) = (offset(gid), offset(gid + 1));
        if b < a {
            return Err(format!("loca not monotone at glyph {}", gid));
        }
        if b > glyf.len() {
            return Err(format!("loca[{}] = {} beyond glyf ({})", gid + 1, b, glyf.len()));
        }
        let g = parse_glyph(&glyf[a..b]).map_err(|e| format!("glyph {}: {}", gid, e))?;
        let mut set_bbox = |bbox: &[i16; 4], bbox_s: &mut Vec<u8>| {
            bbox_bitmap[gid >> 3] |= 0x80 >> (gid & 7);
            for v in bbox {
                push16(bbox_s, *v as u16);
            }
        };
        let mut extra_overlap = false;
        if ch.overlap_mode == 2 {
            extra_overlap = rng_ovl.one_in(5);
        }
        match g {
            GlyphSrc::Empty { had_data } => {
                push16(&mut n_contour_s, 0);
                info.n_empty += 1;
                if had_data {
                    info.n_zero_contour_with_data += 1;
                }
                x_min.push(0);
            }
            GlyphSrc::Simple(s) => {
                info.n_simple += 1;
                push16(&mut n_contour_s, s.end_pts.len() as u16);
                let mut prev_end: i32 = -1;
                for &e in &s.end_pts {
                    let n = (i32::from(e) - prev_end) as u16;
                    if push_255u16(&mut n_points_s, n, ch.u255_mode, &mut rng_255) {
                        info.n_alt_255 += 1;
                    }
                    prev_end = i32::from(e);
                }
                let (mut px, mut py) = (0i32, 0i32);
                for &(on, x, y) in &s.points {
                    let (dx, dy) = (x - px, y - py);
                    px = x;
                    py = y;
                    let canonical = canonical_triplet_index(dx, dy);
                    let mut idx = canonical;
                    if ch.triplet_mode == 1 && rng_trip.one_in(4) {
                        candidates.clear();
                        for (k, e) in triplets.iter().enumerate() {
                            if triplet_fits(e, dx, dy) {
                                candidates.push(k as u8);
                            }
                        }
                        idx = candidates[rng_trip.below(candidates.len() as u64) as usize];
                        if idx != canonical {
                            info.n_alt_triplets += 1;
                        }
                    }
                    let e = &triplets[usize::from(idx)];
                    debug_assert!(triplet_fits(e, dx, dy));
                    flag_s.push(idx | if on { 0 } else { 0x80 });
                    push_triplet_data(&mut glyph_s, e, dx, dy);
                }
                info.n_points += s.points.len();
                if push_255u16(&mut glyph_s, s.instructions.len() as u16, ch.u255_mode, &mut rng_255) {
                    info.n_alt_255 += 1;
                }
                instr_s.extend_from_slice(s.instructions);
                let required = computed_bbox(&s.points) != s.bbox;
                let explicit = required
                    || match ch.bbox_mode {
                        0 => false,
                        1 => true,
                        _ => rng_bbox.one_in(2),
                    };
                if explicit {
                    set_bbox(&s.bbox, &mut bbox_s);
                    info.n_explicit_bbox_simple += 1;
                    if required {
                        info.n_required_bbox_simple += 1;
                    }
                }
                if s.overlap {
                    info.n_overlap_source += 1;
                }
                if (s.overlap && avoid & AVOID_OVERLAP_BITMAP == 0) || extra_overlap {
                    overlap_bitmap[gid >> 3] |= 0x80 >> (gid & 7);
                    info.n_overlap_emitted += 1;
                }
                x_min.push(s.bbox[0]);
            }
            GlyphSrc::Composite(c) => {
                info.n_composite += 1;
                push16(&mut n_contour_s, 0xFFFF);
                composite_s.extend_from_slice(c.components);
                if c.have_instructions {
                    if push_255u16(&mut glyph_s, c.instructions.len() as u16, ch.u255_mode, &mut rng_255) {
                        info.n_alt_255 += 1;
                    }
                    instr_s.extend_from_slice(c.instructions);
                }
                set_bbox(&c.bbox, &mut bbox_s);
                if extra_overlap {
                    // "Flag values for composite glyphs are ignored" by decoders.
                    overlap_bitmap[gid >> 3] |= 0x80 >> (gid & 7);
                    info.n_overlap_emitted += 1;
                }
                x_min.push(c.bbox[0]);
            }
        }
    }

    let have_overlap_bitmap = match ch.overlap_mode {
        0 => info.n_overlap_emitted > 0,
        _ => true,
    };
    let option_flags: u16 = if have_overlap_bitmap { 1 } else { 0 };
    info.option_flags = option_flags;

    let bbox_stream_len = bitmap_len + bbox_s.len();
    let sizes = [n_contour_s.len(), n_points_s.len(), flag_s.len(), glyph_s.len(), composite_s.len(), bbox_stream_len, instr_s.len()];
    info.stream_sizes = sizes;
    let mut out = Vec::with_capacity(36 + sizes.iter().sum::<usize>() + overlap_bitmap.len());
    push16(&mut out, 0); // reserved
    push16(&mut out, option_flags);
    push16(&mut out, num_glyphs as u16);
    push16(&mut out, index_format);
    for s in sizes {
        push32(&mut out, u32::try_from(s).map_err(|_| "stream too large".to_string())?);
    }
    out.extend_from_slice(&n_contour_s);
    out.extend_from_slice(&n_points_s);
    out.extend_from_slice(&flag_s);
    out.extend_from_slice(&glyph_s);
    out.extend_from_slice(&composite_s);
    out.extend_from_slice(&bbox_bitmap);
    out.extend_from_slice(&bbox_s);
    out.extend_from_slice(&instr_s);
    if have_overlap_bitmap {
        out.extend_from_slice(&overlap_bitmap);
    }
    info.transformed_glyf_len = out.len();
    Ok(GlyfTransform { data: out, x_min, loca_len })
}

// ------------------------------------------------------------------------------------------------
// hmtx transform

/// Returns (flags, transformed table) or the reason why the transform is not applied.
fn transform_hmtx(
    hmtx: &[u8],
    num_glyphs: usize,
    num_h_metrics: usize,
    x_min: &[i16],
    ch: &Choices,
    avoid: u32,
    info: &mut Woff2Info,
) -> Result<(u8, Vec<u8>), String> {
    if num_h_metrics == 0 {
        return Err("numberOfHMetrics = 0".to_string());
    }
    if num_h_metrics > num_glyphs {
        return Err(format!("numberOfHMetrics {} > numGlyphs {}", num_h_metrics, num_glyphs));
    }
    let expect = 4 * num_h_metrics + 2 * (num_glyphs - num_h_metrics);
    if hmtx.len() != expect {
        // a longer table has trailing bytes the transform cannot carry: it would not be lossless
        return Err(format!("hmtx length {} != {}", hmtx.len(), expect));
    }
    let lsb_of = |gid: usize| -> i16 {
        if gid < num_h_metrics {
            be16i(hmtx, gid * 4 + 2).unwrap()
        } else {
            be16i(hmtx, num_h_metrics * 4 + (gid - num_h_metrics) * 2).unwrap()
        }
    };
    let lsb_legal = (0..num_h_metrics).all(|g| lsb_of(g) == x_min[g]);
    let tail_legal = (num_h_metrics..num_glyphs).all(|g| lsb_of(g) == x_min[g]);
    info.hmtx_lsb_legal = lsb_legal;
    info.hmtx_tail_legal = tail_legal;
    let tail_empty = num_glyphs == num_h_metrics;
    let tail_allowed = tail_legal
        && avoid & AVOID_HMTX_ELIDE_TAIL == 0
        && !(tail_empty && avoid & (AVOID_HMTX_ELIDE_EMPTY_TAIL | AVOID_HMTX_ELIDE_TAIL) != 0);
    let mut flags = 0u8;
    match ch.hmtx_mode {
        0 => {
            if lsb_legal {
                flags |= 1;
            }
            if tail_allowed && !tail_empty {
                flags |= 2;
            }
        }
        1 => {
            if lsb_legal {
                flags = 1;
            } else if tail_allowed && !tail_empty {
                flags = 2;
            }
        }
        2 => {
            if tail_allowed {
                flags = 2;
            } else if lsb_legal {
                flags = 1;
            }
        }
        _ => {
            if lsb_legal {
                flags |= 1;
            }
            if tail_allowed {
                flags |= 2;
            }
        }
    }
    if flags == 0 {
        return Err(format!("lsb != xMin (lsb[] legal: {}, leftSideBearing[] legal: {})", lsb_legal, tail_legal));
    }
    let mut out = Vec::with_capacity(1 + hmtx.len());
    out.push(flags);
    for g in 0..num_h_metrics {
        out.extend_from_slice(&hmtx[g * 4..g * 4 + 2]);
    }
    if flags & 1 == 0 {
        for g in 0..num_h_metrics {
            out.extend_from_slice(&hmtx[g * 4 + 2..g * 4 + 4]);
        }
    }
    if flags & 2 == 0 {
        out.extend_from_slice(&hmtx[num_h_metrics * 4..]);
    }
    Ok((flags, out))
}

// ------------------------------------------------------------------------------------------------
// Stored brotli stream

struct BitWriter {
    out: Vec<u8>,
    acc: u64,
    n: u32,
}

impl BitWriter {
    fn bits(&mut self, value: u64, count: u32) {
        self.acc |= value << self.n;
        self.n += count;
        while self.n >= 8 {
            self.out.push(self.acc as u8);
            self.acc >>= 8;
            self.n -= 8;
        }
    }
    fn align(&mut self) {
        if self.n > 0 {
            self.out.push(self.acc as u8);
            self.acc = 0;
            self.n = 0;
        }
    }
}

/// WBITS = 16 (one 0 bit), then per chunk: ISLAST=0, MNIBBLES=0 (4 nibbles), MLEN-1 (16 bits),
/// ISUNCOMPRESSED=1, padding to the byte boundary, raw bytes; finally ISLAST=1, ISLASTEMPTY=1.
pub fn brotli_stored(raw: &[u8], chunk: usize) -> Vec<u8> {
    let mut w = BitWriter { out: Vec::with_capacity(raw.len() + raw.len() / 16384 + 16), acc: 0, n: 0 };
    w.bits(0, 1); // WBITS: 16
    let mut p = 0usize;
    while p < raw.len() {
        let len = chunk.clamp(1, 65536).min(raw.len() - p);
        w.bits(0, 1); // ISLAST
        w.bits(0, 2); // MNIBBLES: 4
        w.bits((len - 1) as u64, 16); // MLEN - 1
        w.bits(1, 1); // ISUNCOMPRESSED
        w.align();
        w.out.extend_from_slice(&raw[p..p + len]);
        p += len;
    }
    w.bits(1, 1); // ISLAST
    w.bits(1, 1); // ISLASTEMPTY
    w.align();
    w.out
}

// ------------------------------------------------------------------------------------------------
// The encoder

struct Entry<'a> {
    tag: u32,
    /// transformation version bits (6..7 of the directory flags byte)
    version: u8,
    orig_length: u32,
    transform_length: Option<u32>,
    data: std::borrow::Cow<'a, [u8]>,
}

pub fn build_woff2_with_info(tables: &[(u32, Vec<u8>)], flavour: u32, opts: &Woff2Options) -> Option<(Vec<u8>, Woff2Info)> {
    let ch = Choices::new(opts.variant, opts.avoid);
    let mut info = Woff2Info { choices: format!("{:?}", ch), chunk: ch.chunk, ..Woff2Info::default() };

    // De-duplicate (first occurrence wins, as a table lookup would).
    let mut uniq: Vec<(u32, &[u8])> = Vec::with_capacity(tables.len());
    for (tag, data) in tables {
        if !uniq.iter().any(|(t, _)| t == tag) {
            uniq.push((*tag, data.as_slice()));
        }
    }
    if uniq.len() > usize::from(u16::MAX) {
        return None;
    }
    for (_, d) in &uniq {
        if u32::try_from(d.len()).is_err() {
            return None;
        }
    }
    let find = |tag: u32| uniq.iter().find(|(t, _)| *t == tag).map(|(_, d)| *d);

    // ---- decide on the transforms
    let mut glyf_tx: Option<GlyfTransform> = None;
    let mut hmtx_tx: Option<(u8, Vec<u8>)> = None;
    let num_glyphs = find(MAXP).and_then(|m| be16(m, 4)).map(usize::from);
    let index_format = find(HEAD).filter(|h| h.len() >= 54).and_then(|h| be16(h, 50));
    let num_h_metrics = find(HHEA).filter(|h| h.len() >= 36).and_then(|h| be16(h, 34)).map(usize::from);
    if let Some(n) = num_glyphs {
        info.num_glyphs = n;
    }
    if let Some(n) = num_h_metrics {
        info.num_h_metrics = n;
    }
    if opts.transform_glyf {
        let res = match (find(GLYF), find(LOCA), num_glyphs, index_format) {
            (None, _, _, _) => Err("no glyf table".to_string()),
            (_, None, _, _) => Err("no loca table".to_string()),
            (_, _, None, _) => Err("no usable maxp table".to_string()),
            (_, _, _, None) => Err("no usable head table".to_string()),
            (Some(glyf), Some(loca), Some(ng), Some(fmt)) => {
                if num_h_metrics.is_none() && opts.avoid & AVOID_GLYF_TRANSFORM_WITHOUT_HHEA != 0 {
                    Err("no usable hhea table (avoided)".to_string())
                } else {
                    let mut scratch = info.clone();
                    let r = transform_glyf(glyf, loca, ng, fmt, &ch, opts.variant, opts.avoid, &mut scratch);
                    if r.is_ok() {
                        info = scratch;
                        info.index_format = fmt;
                    }
                    r
                }
            }
        };
        match res {
            Ok(t) => {
                info.glyf_transformed = true;
                glyf_tx = Some(t);
            }
            Err(e) => info.glyf_reason = e,
        }
    }
    if opts.transform_hmtx {
        let res = match (&glyf_tx, find(HMTX), num_glyphs, num_h_metrics) {
            (None, _, _, _) => Err("glyf not transformed".to_string()),
            (_, None, _, _) => Err("no hmtx table".to_string()),
            (_, _, None, _) => Err("no usable maxp table".to_string()),
            (_, _, _, None) => Err("no usable hhea table".to_string()),
            (Some(g), Some(hmtx), Some(ng), Some(nh)) => transform_hmtx(hmtx, ng, nh, &g.x_min, &ch, opts.avoid, &mut info),
        };
        match res {
            Ok((flags, data)) => {
                info.hmtx_transformed = true;
                info.hmtx_flags = flags;
                hmtx_tx = Some((flags, data));
            }
            Err(e) => info.hmtx_reason = e,
        }
    }

    // ---- table order
    let mut order: Vec<u32> = uniq.iter().map(|(t, _)| *t).collect();
    match ch.order_mode {
        0 => order.sort_unstable(),
        1 => {}
        2 => {
            order.sort_unstable();
            order.reverse();
        }
        _ => {
            let mut r = Rng::new(opts.variant, 5);
            order.sort_unstable();
            for i in (1..order.len()).rev() {
                let j = r.below(i as u64 + 1) as usize;
                order.swap(i, j);
            }
        }
    }
    // loca directly follows glyf, in the directory and in the stream
    if order.contains(&GLYF) && order.contains(&LOCA) {
        order.retain(|t| *t != LOCA);
        let g = order.iter().position(|t| *t == GLYF).unwrap();
        order.insert(g + 1, LOCA);
    }

    // ---- entries
    let transformed_any = glyf_tx.is_some() || hmtx_tx.is_some();
    let mut entries: Vec<Entry<'_>> = Vec::with_capacity(order.len());
    for &tag in &order {
        let data = find(tag).unwrap();
        let orig_length = data.len() as u32;
        let e = match tag {
            GLYF => match glyf_tx.as_mut() {
                Some(t) => {
                    let d = std::mem::take(&mut t.data);
                    Entry { tag, version: 0, orig_length, transform_length: Some(u32::try_from(d.len()).ok()?), data: d.into() }
                }
                None => Entry { tag, version: 3, orig_length, transform_length: None, data: data.into() },
            },
            LOCA => match glyf_tx.as_ref() {
                // origLength: the size the decoder must reconstruct, (numGlyphs + 1) entries
                Some(t) => Entry { tag, version: 0, orig_length: t.loca_len as u32, transform_length: Some(0), data: Vec::new().into() },
                None => Entry { tag, version: 3, orig_length, transform_length: None, data: data.into() },
            },
            HMTX => match hmtx_tx.as_mut() {
                Some((_, t)) => {
                    let d = std::mem::take(t);
                    Entry { tag, version: 1, orig_length, transform_length: Some(d.len() as u32), data: d.into() }
                }
                None => Entry { tag, version: 0, orig_length, transform_length: None, data: data.into() },
            },
            HEAD if transformed_any && data.len() >= 18 => {
                // bit 11 of head.flags: "font data is lossless as a result of having been subjected to
                // optimizing transformation". checkSumAdjustment is left as is (decoders recompute it).
                let mut d = data.to_vec();
                d[16] |= 0x08;
                info.head_bit11_set = true;
                Entry { tag, version: 0, orig_length, transform_length: None, data: d.into() }
            }
            _ => Entry { tag, version: 0, orig_length, transform_length: None, data: data.into() },
        };
        entries.push(e);
    }

    // ---- directory + raw table block
    let mut r_tag = Rng::new(opts.variant, 6);
    let mut dir = Vec::new();
    let mut raw = Vec::with_capacity(entries.iter().map(|e| e.data.len()).sum());
    let mut total_sfnt: u64 = 12 + 16 * entries.len() as u64;
    for e in &entries {
        let tb = e.tag.to_be_bytes();
        let known = KNOWN_TAGS.iter().position(|k| **k == tb);
        let explicit = match ch.tag_mode {
            0 => false,
            1 => true,
            _ => r_tag.one_in(2),
        };
        match known {
            Some(i) if !explicit => dir.push((e.version << 6) | i as u8),
            _ => {
                dir.push((e.version << 6) | 0x3f);
                dir.extend_from_slice(&tb);
                info.explicit_tags.push(e.tag);
            }
        }
        push_base128(&mut dir, e.orig_length);
        if let Some(t) = e.transform_length {
            push_base128(&mut dir, t);
        }
        raw.extend_from_slice(&e.data);
        total_sfnt += (u64::from(e.orig_length) + 3) & !3;
    }
    let total_sfnt = u32::try_from(total_sfnt).ok()?;
    let stored = brotli_stored(&raw, ch.chunk);
    let stored_len = u32::try_from(stored.len()).ok()?;

    // ---- header
    let (major, minor) = match find(HEAD).and_then(|h| be32(h, 4)) {
        Some(rev) => ((rev >> 16) as u16, rev as u16),
        None => (1, 0),
    };
    let mut out = Vec::with_capacity(48 + dir.len() + stored.len() + 4);
    push32(&mut out, tg(b"wOF2"));
    push32(&mut out, flavour);
    push32(&mut out, 0); // length, patched below
    push16(&mut out, entries.len() as u16);
    push16(&mut out, 0); // reserved
    push32(&mut out, total_sfnt);
    push32(&mut out, stored_len);
    push16(&mut out, major);
    push16(&mut out, minor);
    out.extend_from_slice(&[0u8; 20]); // metaOffset, metaLength, metaOrigLength, privOffset, privLength
    out.extend_from_slice(&dir);
    out.extend_from_slice(&stored);
    while out.len() % 4 != 0 {
        out.push(0);
    }
    let total = u32::try_from(out.len()).ok()?;
    out[8..12].copy_from_slice(&total.to_be_bytes());

    info.num_tables = entries.len();
    info.order = order;
    info.total_sfnt_size = total_sfnt;
    info.raw_len = raw.len();
    info.compressed_len = stored.len();
    info.file_len = out.len();
    Some((out, info))
}

//! The simulated disk: an independent (non-allsorts) sfnt/TTC splitter and writer, the
//! per-table disk model, byte-level fault application and the WOFF2 stored-block re-wrapper.

use std::collections::BTreeMap;
use std::rc::Rc;

use crate::trace::{tag_from_str, Fault};

#[derive(Clone)]
pub struct Disk {
    pub flavour: u32,
    pub tables: BTreeMap<u32, Rc<Vec<u8>>>,
    /// `ProviderErr` faults: tag -> ParseError variant name.
    pub errs: BTreeMap<u32, String>,
}

fn be16(d: &[u8], o: usize) -> Option<u16> {
    d.get(o..o + 2).map(|b| u16::from_be_bytes([b[0], b[1]]))
}
fn be32(d: &[u8], o: usize) -> Option<u32> {
    d.get(o..o + 4)
        .map(|b| u32::from_be_bytes([b[0], b[1], b[2], b[3]]))
}

pub const TTCF: u32 = 0x7474_6366;
pub const WOFF: u32 = 0x774F_4646;
pub const WOF2: u32 = 0x774F_4632;

#[derive(Clone, Debug)]
pub struct DirEntry {
    pub tag: u32,
    pub rec_off: usize,
    pub offset: usize,
    pub length: usize,
}

/// Offset of the sfnt offset table of member `index` (0 for a bare sfnt).
pub fn sfnt_offset(data: &[u8], index: usize) -> Result<usize, String> {
    let magic = be32(data, 0).ok_or("short file")?;
    if magic == TTCF {
        let n = be32(data, 8).ok_or("short ttc")? as usize;
        if index >= n {
            return Err(format!("ttc index {} out of range {}", index, n));
        }
        Ok(be32(data, 12 + 4 * index).ok_or("short ttc")? as usize)
    } else {
        Ok(0)
    }
}

pub fn ttc_count(data: &[u8]) -> usize {
    match be32(data, 0) {
        Some(TTCF) => be32(data, 8).unwrap_or(0) as usize,
        _ => 1,
    }
}

pub fn sfnt_directory(data: &[u8], index: usize) -> Result<(u32, Vec<DirEntry>), String> {
    let base = sfnt_offset(data, index)?;
    let flavour = be32(data, base).ok_or("short sfnt")?;
    let n = be16(data, base + 4).ok_or("short sfnt")? as usize;
    let mut out = Vec::with_capacity(n);
    for i in 0..n {
        let r = base + 12 + 16 * i;
        let tag = be32(data, r).ok_or("short dir")?;
        let offset = be32(data, r + 8).ok_or("short dir")? as usize;
        let length = be32(data, r + 12).ok_or("short dir")? as usize;
        out.push(DirEntry {
            tag,
            rec_off: r,
            offset,
            length,
        });
    }
    Ok((flavour, out))
}

/// Split a bare sfnt or TTC member into the disk model. Independent of allsorts.
pub fn split_sfnt(data: &[u8], index: usize) -> Result<Disk, String> {
    let (flavour, dir) = sfnt_directory(data, index)?;
    let mut tables = BTreeMap::new();
    for e in dir {
        let end = e
            .offset
            .checked_add(e.length)
            .ok_or("table overflows")?;
        let bytes = data
            .get(e.offset..end)
            .ok_or_else(|| format!("table {:08x} out of file", e.tag))?;
        tables.insert(e.tag, Rc::new(bytes.to_vec()));
    }
    Ok(Disk {
        flavour,
        tables,
        errs: BTreeMap::new(),
    })
}

fn table_checksum(data: &[u8]) -> u32 {
    let mut sum = 0u32;
    let mut i = 0;
    while i < data.len() {
        let mut w = [0u8; 4];
        let n = (data.len() - i).min(4);
        w[..n].copy_from_slice(&data[i..i + n]);
        sum = sum.wrapping_add(u32::from_be_bytes(w));
        i += 4;
    }
    sum
}

/// Serialise the disk model as a bare sfnt (own writer; checksums are filled in but nothing
/// in the harness relies on them).
pub fn build_sfnt(disk: &Disk) -> Vec<u8> {
    let n = disk.tables.len();
    let mut entry_selector = 0u16;
    while (1usize << (entry_selector + 1)) <= n.max(1) {
        entry_selector += 1;
    }
    let search_range = (1u16 << entry_selector).wrapping_mul(16);
    let range_shift = (n as u16).wrapping_mul(16).wrapping_sub(search_range);
    let mut out = Vec::new();
    out.extend_from_slice(&disk.flavour.to_be_bytes());
    out.extend_from_slice(&(n as u16).to_be_bytes());
    out.extend_from_slice(&search_range.to_be_bytes());
    out.extend_from_slice(&entry_selector.to_be_bytes());
    out.extend_from_slice(&range_shift.to_be_bytes());
    let mut offset = 12 + 16 * n;
    let mut body = Vec::new();
    for (tag, data) in &disk.tables {
        out.extend_from_slice(&tag.to_be_bytes());
        out.extend_from_slice(&table_checksum(data).to_be_bytes());
        out.extend_from_slice(&(offset as u32).to_be_bytes());
        out.extend_from_slice(&(data.len() as u32).to_be_bytes());
        body.extend_from_slice(data);
        let pad = (4 - data.len() % 4) % 4;
        body.extend(std::iter::repeat(0).take(pad));
        offset += data.len() + pad;
    }
    out.extend_from_slice(&body);
    out
}

const WOFF2_KNOWN_TAGS: [&[u8; 4]; 63] = [
    b"cmap", b"head", b"hhea", b"hmtx", b"maxp", b"name", b"OS/2", b"post", b"cvt ", b"fpgm", b"glyf",
    b"loca", b"prep", b"CFF ", b"VORG", b"EBDT", b"EBLC", b"gasp", b"hdmx", b"kern", b"LTSH", b"PCLT",
    b"VDMX", b"vhea", b"vmtx", b"BASE", b"GDEF", b"GPOS", b"GSUB", b"EBSC", b"JSTF", b"MATH", b"CBDT",
    b"CBLC", b"COLR", b"CPAL", b"SVG ", b"sbix", b"acnt", b"avar", b"bdat", b"bloc", b"bsln", b"cvar",
    b"fdsc", b"feat", b"fmtx", b"fvar", b"gvar", b"hsty", b"just", b"lcar", b"mort", b"morx", b"opbd",
    b"prop", b"trak", b"Zapf", b"Silf", b"Glat", b"Gloc", b"Feat", b"Sill",
];

fn push_base128(out: &mut Vec<u8>, v: u32) {
    let mut started = false;
    for shift in [28u32, 21, 14, 7] {
        let b = ((v >> shift) & 0x7f) as u8;
        if b != 0 || started {
            out.push(b | 0x80);
            started = true;
        }
    }
    out.push((v & 0x7f) as u8);
}

/// Wrap the disk model as a WOFF2 file: null transforms for every table (glyf/loca transform
/// version 3), the table data block emitted as stored brotli meta-blocks. A minimal encoder so
/// that any corpus font (e.g. the variable ones) can be served by the real `Woff2TableProvider`.
pub fn build_woff2(disk: &Disk) -> Vec<u8> {
    let n = disk.tables.len();
    let mut dir = Vec::new();
    let mut raw = Vec::new();
    let mut sfnt_size = 12 + 16 * n;
    for (tag, data) in &disk.tables {
        let tb = tag.to_be_bytes();
        let idx = WOFF2_KNOWN_TAGS.iter().position(|k| **k == tb);
        let version: u8 = if &tb == b"glyf" || &tb == b"loca" { 3 } else { 0 };
        match idx {
            Some(i) => dir.push((version << 6) | i as u8),
            None => {
                dir.push((version << 6) | 0x3f);
                dir.extend_from_slice(&tb);
            }
        }
        push_base128(&mut dir, data.len() as u32);
        raw.extend_from_slice(data);
        sfnt_size += (data.len() + 3) / 4 * 4;
    }
    let stored = brotli_stored(&raw);
    let mut out = Vec::with_capacity(48 + dir.len() + stored.len() + 4);
    out.extend_from_slice(&WOF2.to_be_bytes());
    out.extend_from_slice(&disk.flavour.to_be_bytes());
    out.extend_from_slice(&0u32.to_be_bytes()); // length, patched below
    out.extend_from_slice(&(n as u16).to_be_bytes());
    out.extend_from_slice(&0u16.to_be_bytes()); // reserved
    out.extend_from_slice(&(sfnt_size as u32).to_be_bytes());
    out.extend_from_slice(&(stored.len() as u32).to_be_bytes());
    out.extend_from_slice(&[0, 1, 0, 0]); // major/minor version
    out.extend_from_slice(&[0; 20]); // meta / private: none
    out.extend_from_slice(&dir);
    out.extend_from_slice(&stored);
    while out.len() % 4 != 0 {
        out.push(0);
    }
    let total = out.len() as u32;
    out[8..12].copy_from_slice(&total.to_be_bytes());
    out
}

/// Apply a byte-level fault to a buffer. Returns false when the fault does not fit (no change).
pub fn apply_bytes(buf: &mut Vec<u8>, f: &Fault) -> bool {
    match f {
        Fault::BitFlip { off, mask, .. } => {
            if let Some(b) = buf.get_mut(*off) {
                *b ^= *mask;
                *mask != 0
            } else {
                false
            }
        }
        Fault::Set {
            off, width, val, ..
        } => {
            let w = usize::from(*width);
            if !(w == 1 || w == 2 || w == 4) || off.checked_add(w).map_or(true, |e| e > buf.len()) {
                return false;
            }
            let bytes = val.to_be_bytes();
            let old = buf[*off..*off + w].to_vec();
            buf[*off..*off + w].copy_from_slice(&bytes[4 - w..]);
            old != buf[*off..*off + w]
        }
        Fault::Write { off, bytes, .. } => {
            let end = match off.checked_add(bytes.len()) {
                Some(e) if e <= buf.len() && !bytes.is_empty() => e,
                _ => return false,
            };
            let changed = buf[*off..end] != bytes[..];
            buf[*off..end].copy_from_slice(bytes);
            changed
        }
        Fault::Truncate { len, .. } => {
            if *len < buf.len() {
                buf.truncate(*len);
                true
            } else {
                false
            }
        }
        Fault::ZeroRange { off, len, .. } => {
            let end = off.saturating_add(*len).min(buf.len());
            if *off >= end {
                return false;
            }
            let mut changed = false;
            for b in &mut buf[*off..end] {
                changed |= *b != 0;
                *b = 0;
            }
            changed
        }
        Fault::CopyRange { src, dst, len, .. } => {
            let n = buf.len();
            if *src >= n || *dst >= n {
                return false;
            }
            let len = (*len).min(n - *src).min(n - *dst);
            if len == 0 {
                return false;
            }
            let tmp = buf[*src..*src + len].to_vec();
            let changed = tmp != buf[*dst..*dst + len];
            buf[*dst..*dst + len].copy_from_slice(&tmp);
            changed
        }
        _ => false,
    }
}

/// Apply a fault list to the disk model (Provider mode). Returns per-fault "applied" flags.
pub fn apply_to_disk(disk: &mut Disk, faults: &[Fault]) -> Vec<bool> {
    let mut applied = Vec::with_capacity(faults.len());
    for f in faults {
        let ok = match f {
            Fault::DropTable { tag } => disk.tables.remove(&tag_from_str(tag)).is_some(),
            Fault::SwapTables { a, b } => {
                let (ta, tb) = (tag_from_str(a), tag_from_str(b));
                match (disk.tables.get(&ta).cloned(), disk.tables.get(&tb).cloned()) {
                    (Some(da), Some(db)) if ta != tb => {
                        disk.tables.insert(ta, db);
                        disk.tables.insert(tb, da);
                        true
                    }
                    _ => false,
                }
            }
            Fault::ProviderErr { tag, err } => {
                let t = tag_from_str(tag);
                if disk.tables.contains_key(&t) {
                    disk.errs.insert(t, err.clone());
                    true
                } else {
                    false
                }
            }
            other => {
                let targets = other.targets();
                let t = tag_from_str(&targets[0]);
                match disk.tables.get_mut(&t) {
                    Some(rc) => apply_bytes(Rc::make_mut(rc), other),
                    None => false,
                }
            }
        };
        applied.push(ok);
    }
    applied
}

// ---------------------------------------------------------------------------------------
// WOFF2: locate the compressed stream and re-emit the decompressed block as stored
// (uncompressed) brotli meta-blocks so that byte faults reach the inner decoders.

fn read_base128(d: &[u8], p: &mut usize) -> Option<u32> {
    let mut v: u32 = 0;
    for i in 0..5 {
        let b = *d.get(*p)?;
        *p += 1;
        if i == 0 && b == 0x80 {
            return None;
        }
        if v & 0xFE00_0000 != 0 {
            return None;
        }
        v = (v << 7) | u32::from(b & 0x7f);
        if b & 0x80 == 0 {
            return Some(v);
        }
    }
    None
}

fn read_255u16(d: &[u8], p: &mut usize) -> Option<u16> {
    let c = *d.get(*p)?;
    *p += 1;
    match c {
        253 => {
            let v = be16(d, *p)?;
            *p += 2;
            Some(v)
        }
        255 => {
            let v = u16::from(*d.get(*p)?) + 253;
            *p += 1;
            Some(v)
        }
        254 => {
            let v = u16::from(*d.get(*p)?) + 506;
            *p += 1;
            Some(v)
        }
        _ => Some(u16::from(c)),
    }
}

pub struct Woff2Layout {
    pub start: usize,
    pub len: usize,
    /// (known-tag index or 0x3f, tag, offset in the decompressed block, length there, transformed)
    pub entries: Vec<(u8, u32, usize, usize, bool)>,
}

/// Directory walk of a well-formed WOFF2 file.
pub fn woff2_layout(d: &[u8]) -> Option<Woff2Layout> {
    if be32(d, 0)? != WOF2 {
        return None;
    }
    let flavor = be32(d, 4)?;
    let num_tables = be16(d, 12)? as usize;
    let comp_size = be32(d, 20)? as usize;
    let mut p = 48;
    let mut entries = Vec::new();
    let mut block_off = 0usize;
    for _ in 0..num_tables {
        let flags = *d.get(p)?;
        p += 1;
        let tag_idx = flags & 0x3f;
        let tag = if tag_idx == 0x3f {
            let t = be32(d, p)?;
            p += 4;
            t
        } else {
            0
        };
        let version = (flags >> 6) & 3;
        let is_glyf_loca = if tag_idx == 0x3f {
            tag == 0x676c_7966 || tag == 0x6c6f_6361
        } else {
            tag_idx == 10 || tag_idx == 11
        };
        let orig = read_base128(d, &mut p)? as usize;
        let transformed = if is_glyf_loca {
            version == 0
        } else {
            version != 0
        };
        let len = if transformed {
            read_base128(d, &mut p)? as usize
        } else {
            orig
        };
        entries.push((tag_idx, tag, block_off, len, transformed));
        block_off += len;
    }
    if flavor == TTCF {
        let _version = be32(d, p)?;
        p += 4;
        let num_fonts = read_255u16(d, &mut p)?;
        for _ in 0..num_fonts {
            let n = read_255u16(d, &mut p)?;
            p += 4; // flavor
            for _ in 0..n {
                read_255u16(d, &mut p)?;
            }
        }
    }
    if p + comp_size > d.len() {
        return None;
    }
    Some(Woff2Layout {
        start: p,
        len: comp_size,
        entries,
    })
}

/// (start, length) of the compressed stream of a well-formed WOFF2 file.
pub fn woff2_stream(d: &[u8]) -> Option<(usize, usize)> {
    woff2_layout(d).map(|l| (l.start, l.len))
}

/// Encode `raw` as a brotli stream of stored meta-blocks.
pub fn brotli_stored(raw: &[u8]) -> Vec<u8> {
    brotli_stored_tail(raw, 0)
}

/// As [`brotli_stored`], followed by `tail_blocks` *compressed* meta-blocks of 16 MiB of zero
/// bytes each (one literal and one copy command of distance 1; every prefix code has a single
/// symbol, so a block costs 13 bytes): a stream whose decompressed size is out of all
/// proportion to its length and to the table sizes the WOFF2 directory declares.
pub fn brotli_stored_tail(raw: &[u8], tail_blocks: u32) -> Vec<u8> {
    // Bit writer, LSB first.
    struct Bw {
        out: Vec<u8>,
        acc: u64,
        n: u32,
    }
    impl Bw {
        fn put(&mut self, v: u64, bits: u32) {
            self.acc |= v << self.n;
            self.n += bits;
            while self.n >= 8 {
                self.out.push(self.acc as u8);
                self.acc >>= 8;
                self.n -= 8;
            }
        }
        fn align(&mut self) {
            if self.n > 0 {
                self.out.push(self.acc as u8);
                self.acc = 0;
                self.n = 0;
            }
        }
    }
    let mut w = Bw {
        out: Vec::with_capacity(raw.len() + raw.len() / 65536 * 4 + 8),
        acc: 0,
        n: 0,
    };
    w.put(0, 1); // WBITS = 16
    for chunk in raw.chunks(65536) {
        w.put(0, 1); // ISLAST = 0
        w.put(0, 2); // MNIBBLES = 4
        w.put((chunk.len() - 1) as u64, 16); // MLEN - 1
        w.put(1, 1); // ISUNCOMPRESSED
        w.align();
        w.out.extend_from_slice(chunk);
    }
    for _ in 0..tail_blocks {
        const MLEN: u64 = 1 << 24;
        w.put(0, 1); // ISLAST = 0
        w.put(2, 2); // MNIBBLES = 6
        w.put(MLEN - 1, 24); // MLEN - 1
        w.put(0, 1); // ISUNCOMPRESSED = 0
        w.put(0, 1); // NBLTYPESL = 1
        w.put(0, 1); // NBLTYPESI = 1
        w.put(0, 1); // NBLTYPESD = 1
        w.put(0, 2); // NPOSTFIX
        w.put(0, 4); // NDIRECT
        w.put(0, 2); // context mode of the single literal block type
        w.put(0, 1); // NTREESL = 1
        w.put(0, 1); // NTREESD = 1
        // literal code: simple, one symbol (byte 0)
        w.put(1, 2);
        w.put(0, 2);
        w.put(0, 8);
        // insert-and-copy code: simple, one symbol: insert code 1 (one literal), copy code 23
        // (2118 + 24 extra bits), explicit distance -> cell 384..447
        w.put(1, 2);
        w.put(0, 2);
        w.put(384 + (1 << 3) + 7, 10);
        // distance code: simple, one symbol 16 (distance 1 + one extra bit)
        w.put(1, 2);
        w.put(0, 2);
        w.put(16, 6);
        // the command: no bits for the three symbols; copy length extra, distance extra
        w.put(MLEN - 1 - 2118, 24);
        w.put(0, 1);
    }
    w.put(1, 1); // ISLAST
    w.put(1, 1); // ISLASTEMPTY
    w.align();
    w.out
}

/// Inflate the WOFF2 stream, let `mutate` edit the decompressed block, re-wrap it as stored
/// blocks and patch `totalCompressedSize` and `length`.
pub fn woff2_rewrap(file: &[u8], mutate: impl FnOnce(&mut Vec<u8>)) -> Option<Vec<u8>> {
    woff2_rewrap_tail(file, 0, mutate)
}

/// Make the table directory of a (non-collection) WOFF2 file claim `extra` more bytes for its
/// last table, so that a longer decompressed stream is what the directory announces.
pub fn woff2_claim_more(file: &[u8], extra: u32) -> Option<Vec<u8>> {
    if be32(file, 0)? != WOF2 || be32(file, 4)? == TTCF {
        return None;
    }
    let num_tables = be16(file, 12)? as usize;
    let mut p = 48;
    let mut last: Option<(usize, usize, u32)> = None;
    for _ in 0..num_tables {
        let flags = *file.get(p)?;
        p += 1;
        let tag_idx = flags & 0x3f;
        let mut tag = 0;
        if tag_idx == 0x3f {
            tag = be32(file, p)?;
            p += 4;
        }
        let version = (flags >> 6) & 3;
        let is_glyf_loca = if tag_idx == 0x3f { tag == 0x676c_7966 || tag == 0x6c6f_6361 } else { tag_idx == 10 || tag_idx == 11 };
        let s0 = p;
        let orig = read_base128(file, &mut p)?;
        last = Some((s0, p, orig));
        let transformed = if is_glyf_loca { version == 0 } else { version != 0 };
        if transformed {
            let s1 = p;
            let tl = read_base128(file, &mut p)?;
            last = Some((s1, p, tl));
        }
    }
    let (s, e, v) = last?;
    let mut enc = Vec::new();
    push_base128(&mut enc, v.checked_add(extra)?);
    let mut out = Vec::with_capacity(file.len() + 4);
    out.extend_from_slice(&file[..s]);
    out.extend_from_slice(&enc);
    out.extend_from_slice(&file[e..]);
    let total = out.len() as u32;
    out[8..12].copy_from_slice(&total.to_be_bytes());
    Some(out)
}

/// Append an extended-metadata block of `blocks` run-length meta-blocks to a re-wrapped WOFF2
/// file (whose metadata fields are zero) and point the header at it.
pub fn woff2_attach_meta(file: &mut Vec<u8>, blocks: u32) {
    if blocks == 0 || file.len() < 48 {
        return;
    }
    while file.len() % 4 != 0 {
        file.push(0);
    }
    let meta = brotli_stored_tail(&[], blocks);
    let off = file.len() as u32;
    file.extend_from_slice(&meta);
    let total = file.len() as u32;
    file[8..12].copy_from_slice(&total.to_be_bytes());
    file[28..32].copy_from_slice(&off.to_be_bytes());
    file[32..36].copy_from_slice(&(meta.len() as u32).to_be_bytes());
    file[36..40].copy_from_slice(&(blocks.saturating_mul(1 << 24)).to_be_bytes());
}

/// As [`woff2_rewrap`], with `tail_blocks` run-length meta-blocks appended to the stream.
pub fn woff2_rewrap_tail(file: &[u8], tail_blocks: u32, mutate: impl FnOnce(&mut Vec<u8>)) -> Option<Vec<u8>> {
    use std::io::Read;
    let (start, len) = woff2_stream(file)?;
    let mut raw = Vec::new();
    let mut dec = brotli_decompressor::Decompressor::new(&file[start..start + len], 4096);
    dec.read_to_end(&mut raw).ok()?;
    mutate(&mut raw);
    let stored = brotli_stored_tail(&raw, tail_blocks);
    let mut out = Vec::with_capacity(start + stored.len() + 4);
    out.extend_from_slice(&file[..start]);
    out.extend_from_slice(&stored);
    // Keep whatever followed the stream (metadata / private data are located by absolute
    // offsets in the header, which we do not relocate: pad to 4 and drop the tail instead).
    while out.len() % 4 != 0 {
        out.push(0);
    }
    let total = out.len() as u32;
    out[8..12].copy_from_slice(&total.to_be_bytes());
    out[20..24].copy_from_slice(&(stored.len() as u32).to_be_bytes());
    // metaOffset/metaLength/privOffset/privLength -> 0 (tail dropped)
    for b in &mut out[28..48] {
        *b = 0;
    }
    // restore majorVersion/minorVersion (bytes 24..28 untouched), zero only 28..48
    Some(out)
}

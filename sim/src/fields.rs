//! Field locators: where the fields that the properties call out live, found by the harness'
//! own byte arithmetic on the *pristine* table (independent of allsorts).

use crate::rng::Rng;

#[derive(Clone, Debug)]
pub struct Field {
    pub name: String,
    pub off: usize,
    pub width: u8,
    /// When set, the fault is a block write of these bytes instead of a boundary value.
    pub bytes: Option<Vec<u8>>,
}

fn be16(d: &[u8], o: usize) -> Option<usize> {
    d.get(o..o + 2)
        .map(|b| usize::from(u16::from_be_bytes([b[0], b[1]])))
}
fn be32(d: &[u8], o: usize) -> Option<usize> {
    d.get(o..o + 4)
        .map(|b| u32::from_be_bytes([b[0], b[1], b[2], b[3]]) as usize)
}

fn f(out: &mut Vec<Field>, name: &str, off: usize, width: u8, len: usize) {
    if off + usize::from(width) <= len {
        out.push(Field {
            name: name.to_string(),
            off,
            width,
            bytes: None,
        });
    }
}

fn fw(out: &mut Vec<Field>, name: &str, off: usize, bytes: Vec<u8>, len: usize) {
    if off + bytes.len() <= len {
        out.push(Field {
            name: name.to_string(),
            off,
            width: 1,
            bytes: Some(bytes),
        });
    }
}

/// A DICT real-number operand of `digits` characters followed by the two-character "E-" nibble
/// and the terminator: exercises the fixed-size text buffer of the real-number parser.
fn long_real(digits: usize) -> Vec<u8> {
    let mut v = vec![0x1e];
    let mut nibbles: Vec<u8> = vec![1; digits];
    nibbles.push(0xc);
    nibbles.push(0xf);
    if nibbles.len() % 2 == 1 {
        nibbles.push(0xf);
    }
    for p in nibbles.chunks(2) {
        v.push(p[0] << 4 | p[1]);
    }
    v
}

/// A CFF2 INDEX (32-bit count): (count, offSize, [start, end) of each object, end of the INDEX).
fn cff2_index(d: &[u8], at: usize) -> Option<(usize, usize, Vec<(usize, usize)>, usize)> {
    let count = be32(d, at)?;
    if count == 0 {
        return Some((0, 0, Vec::new(), at + 4));
    }
    let off_size = usize::from(*d.get(at + 4)?);
    if !(1..=4).contains(&off_size) || count > 70000 {
        return None;
    }
    let offs = at + 5;
    let data = offs + (count + 1) * off_size - 1;
    let rd = |i: usize| -> Option<usize> {
        let b = d.get(offs + i * off_size..offs + (i + 1) * off_size)?;
        Some(b.iter().fold(0usize, |a, &x| (a << 8) | usize::from(x)))
    };
    let mut objs = Vec::with_capacity(count);
    let mut prev = rd(0)?;
    for i in 1..=count {
        let o = rd(i)?;
        if o < prev {
            return None;
        }
        objs.push((data + prev, data + o));
        prev = o;
    }
    Some((count, off_size, objs, data + prev))
}

/// CharStrings, FDArray / Private DICT / local subroutines and the variation store of a CFF2 table.
fn cff2_deep_fields(out: &mut Vec<Field>, d: &[u8], hs: usize, tl: usize, rng: &mut Rng) {
    use crate::sfnt_check::cff_dict;
    let n = d.len();
    let Some(top) = d.get(hs..hs + tl) else { return };
    let dict = cff_dict(top);
    let find = |op: u16| dict.iter().find(|(o, _)| *o == op).and_then(|(_, v)| v.last().copied());
    if let Some(cs_off) = find(17).filter(|o| *o > 0) {
        let cs_off = cs_off as usize;
        f(out, "CFF2.charstrings.count", cs_off, 4, n);
        f(out, "CFF2.charstrings.offSize", cs_off + 4, 1, n);
        if let Some((count, off_size, objs, _)) = cff2_index(d, cs_off) {
            if count > 0 {
                let k = pick_index(rng, count + 1);
                let w = if off_size == 3 { 2 } else { off_size };
                f(out, "CFF2.charstrings.offset[k]", cs_off + 5 + k * off_size + (off_size - w), w as u8, n);
                let g = if rng.pct(70) { rng.usize_below(count.min(256)) } else { rng.usize_below(count) };
                let (s, e) = objs[g];
                if e > s {
                    f(out, &format!("CFF2.charstring.first#g{}", g), s, 1, n);
                    f(out, &format!("CFF2.charstring.last#g{}", g), e - 1, 1, n);
                    f(out, &format!("CFF2.charstring.byte#g{}", g), s + rng.usize_below(e - s), 1, n);
                    {
                        // flex family (no corpus glyph uses it): moveto, arguments, 12 <op>
                        let (op, nargs) = *rng.pick(&[(34u8, 7usize), (35, 13), (36, 9), (37, 11)]);
                        let nargs = if rng.pct(80) { nargs } else { nargs.saturating_sub(1 + rng.usize_below(3)) };
                        let mut prog = vec![139u8, 139, 21];
                        for k in 0..nargs {
                            prog.push((139 + 7 * (k as i32 % 5) - 10) as u8);
                        }
                        prog.extend_from_slice(&[12, op]);
                        if e - s >= prog.len() {
                            fw(out, &format!("CFF2.charstring.flex#g{}", g), s, prog, n);
                        }
                    }
                    // a whole program: `k` operands and a stem operator first (in a CFF CharString
                    // the width joins the operands of the first stack clearing operator, and CFF
                    // allows 48 in all), `0 0 rmoveto`s up to the end of the slot
                    {
                        let k = *rng.pick(&[44usize, 46, 47, 48, 48, 49, 50]) & !1;
                        if e - s >= k + 4 {
                            let mut prog: Vec<u8> = Vec::with_capacity(e - s);
                            for j in 0..k {
                                prog.push(139 + 1 + (j % 3) as u8);
                            }
                            prog.push(*rng.pick(&[1u8, 3, 18, 23]));
                            while prog.len() + 3 <= e - s {
                                prog.extend_from_slice(&[139, 139, 21]);
                            }
                            while prog.len() < e - s {
                                prog.push(139);
                            }
                            fw(out, &format!("CFF2.charstring.stemsThenMoves#g{}", g), s, prog, n);
                        }
                    }
                    // many operands before one path operator (CFF2 allows 513 stack entries)
                    let ops: [u8; 10] = [5, 6, 7, 8, 24, 25, 26, 27, 30, 31];
                    let nops = *rng.pick(&[47usize, 48, 49, 52, 96, 200, 512, 513, 514]);
                    if e - s > nops + 4 {
                        // `0 0 rmoveto` first: path operators before any moveto are rejected early
                        let mut prog = vec![139u8, 139, 21];
                        prog.extend(std::iter::repeat(139u8 + (rng.below(20) as u8)).take(nops));
                        prog.push(ops[rng.usize_below(ops.len())]);
                        fw(out, &format!("CFF2.charstring.manyOperands#g{}", g), s, prog, n);
                    }
                    // blend with a count that does not match the operands present
                    if e - s >= 8 {
                        let nb = 139u8 + rng.below(8) as u8;
                        fw(out, &format!("CFF2.charstring.blend#g{}", g), s, vec![140, 141, 142, 143, 144, nb, 16, 21], n);
                    }
                    // vsindex beyond the variation store, then blend
                    if e - s >= 6 {
                        fw(out, "CFF2.charstring.vsindex", s, vec![139 + 50, 15, 140, 140, 16, 21], n);
                    }
                    if e - s >= 4 {
                        let op = if rng.pct(50) { 10 } else { 29 };
                        fw(out, "CFF2.charstring.callsubr", s, vec![[139u8, 32, 246][rng.usize_below(3)], op], n);
                    }
                }
            }
        }
    }
    if let Some(vs) = find(24).filter(|o| *o > 0) {
        let vs = vs as usize;
        f(out, "CFF2.vstore.length", vs, 2, n);
        f(out, "CFF2.vstore.format", vs + 2, 2, n);
        f(out, "CFF2.vstore.regionListOffset", vs + 4, 4, n);
        f(out, "CFF2.vstore.dataCount", vs + 8, 2, n);
        f(out, "CFF2.vstore.dataOffset0", vs + 10, 4, n);
        if let Some(rl) = be32(d, vs + 4) {
            f(out, "CFF2.vstore.axisCount", vs + 2 + rl, 2, n);
            f(out, "CFF2.vstore.regionCount", vs + 2 + rl + 2, 2, n);
        }
        if let Some(d0) = be32(d, vs + 10) {
            let a = vs + 2 + d0;
            f(out, "CFF2.vstore.data0.itemCount", a, 2, n);
            f(out, "CFF2.vstore.data0.wordDeltaCount", a + 2, 2, n);
            f(out, "CFF2.vstore.data0.regionIndexCount", a + 4, 2, n);
            f(out, "CFF2.vstore.data0.regionIndex0", a + 6, 2, n);
        }
    }
    if let Some(fda) = find(0x0c24).filter(|o| *o > 0) {
        let fda = fda as usize;
        f(out, "CFF2.fdarray.count", fda, 4, n);
        f(out, "CFF2.fdarray.offSize", fda + 4, 1, n);
        if let Some((count, _, objs, _)) = cff2_index(d, fda) {
            if let Some(&(s, e)) = objs.get(rng.usize_below(count.max(1))) {
                if e > s {
                    f(out, "CFF2.fontdict.byte", s + rng.usize_below(e - s), 1, n);
                    let fd = cff_dict(&d[s..e]);
                    if let Some((_, v)) = fd.iter().find(|(o, _)| *o == 18) {
                        if let [size, off] = v[..] {
                            let (size, off) = (size.max(0) as usize, off.max(0) as usize);
                            if size > 0 && off + size <= n {
                                let real = long_real(*rng.pick(&[30usize, 62, 63, 64, 65]));
                                if size > real.len() {
                                    fw(out, "CFF2.private.longReal", off, real, n);
                                }
                                f(out, "CFF2.private.byte", off + rng.usize_below(size), 1, n);
                                // a real-number operand in place of an integer of the same
                                // encoded length (reals reach the blend of the Private DICT)
                                let toks = crate::surgery::dict_tokens(&d[off..off + size]);
                                let cands: Vec<(usize, usize)> = toks
                                    .iter()
                                    .flat_map(|(_, ops)| ops.iter().map(|(s, l, _)| (*s, *l)))
                                    .filter(|(_, l)| *l == 2 || *l == 3 || *l == 5)
                                    .collect();
                                if !cands.is_empty() {
                                    let (ts, tl) = cands[rng.usize_below(cands.len())];
                                    let real: Vec<u8> = match tl {
                                        2 => vec![30, [0x5f, 0xa1, 0xe9, 0xbf][rng.usize_below(4)]],
                                        3 => vec![30, [0x1a, 0xe1, 0x9b][rng.usize_below(3)], [0x5f, 0xff, 0x2f][rng.usize_below(3)]],
                                        _ => vec![30, 0x1a, 0x25, 0xb3, 0x0f],
                                    };
                                    fw(out, "CFF2.private.realOperand", off + ts, real, n);
                                }
                                let pd = cff_dict(&d[off..off + size]);
                                if let Some(so) = pd.iter().find(|(o, _)| *o == 19).and_then(|(_, v)| v.last().copied()) {
                                    let subrs = off + so.max(0) as usize;
                                    f(out, "CFF2.localsubrs.count", subrs, 4, n);
                                    f(out, "CFF2.localsubrs.offSize", subrs + 4, 1, n);
                                    if let Some((c, _, sobjs, _)) = cff2_index(d, subrs) {
                                        if let Some(&(a, b)) = sobjs.get(rng.usize_below(c.max(1))) {
                                            if b > a {
                                                f(out, "CFF2.localsubr.byte", a + rng.usize_below(b - a), 1, n);
                                                if b - a >= 2 {
                                                    fw(out, "CFF2.localsubr.recursive", a, vec![[139u8, 32, 140][rng.usize_below(3)], 10], n);
                                                }
                                            }
                                        }
                                    }
                                }
                            }
                        }
                    }
                }
            }
        }
    }
    if let Some(fds) = find(0x0c25).filter(|o| *o > 0) {
        let fds = fds as usize;
        f(out, "CFF2.fdselect.format", fds, 1, n);
        f(out, "CFF2.fdselect.nRanges", fds + 1, 2, n);
        f(out, "CFF2.fdselect.range0.fd", fds + 5, 1, n);
    }
}

/// Subroutine fan-out: a subroutine INDEX rewritten in place (same byte span, so nothing else
/// moves) as ten subroutines of which the first nine consist of calls to the next one, plus a
/// glyph program that consists of calls to the first. Nesting stays within the interpreter's
/// limit of ten while the number of calls is the product of the call counts per level - work
/// out of proportion to the bytes involved. Two writes: the caller adds both.
pub fn cff_subr_bomb(tag: &str, d: &[u8], rng: &mut Rng) -> Option<Vec<Field>> {
    use crate::sfnt_check::{cff_dict, cff_index};
    let n = d.len();
    let cff2 = tag == "CFF2";
    // (index start, index end, global?) candidates and the CharStrings objects
    let mut cands: Vec<(usize, usize, bool)> = Vec::new();
    let glyphs: Vec<(usize, usize)>;
    if cff2 {
        let hs = usize::from(*d.get(2)?);
        let tl = be16(d, 3)?;
        let dict = cff_dict(d.get(hs..hs + tl)?);
        let find = |op: u16| dict.iter().find(|(o, _)| *o == op).and_then(|(_, v)| v.last().copied());
        if let Some((c, _, _, end)) = cff2_index(d, hs + tl) {
            if c > 0 {
                cands.push((hs + tl, end, true));
            }
        }
        // local subroutines of the first font DICT (only if every glyph uses it)
        if find(0x0c25).is_none() {
            if let Some((_, _, fobjs, _)) = find(0x0c24).and_then(|o| cff2_index(d, o.max(0) as usize)) {
                if let Some(&(a, b)) = fobjs.first() {
                    let fd = cff_dict(d.get(a..b)?);
                    if let Some((_, v)) = fd.iter().find(|(o, _)| *o == 18) {
                        if let [size, off] = v[..] {
                            let (size, off) = (size.max(0) as usize, off.max(0) as usize);
                            let pd = cff_dict(d.get(off..off + size)?);
                            if let Some(so) = pd.iter().find(|(o, _)| *o == 19).and_then(|(_, v)| v.last().copied()) {
                                let at = off + so.max(0) as usize;
                                if let Some((c, _, _, end)) = cff2_index(d, at) {
                                    if c > 0 {
                                        cands.push((at, end, false));
                                    }
                                }
                            }
                        }
                    }
                }
            }
        }
        let (_, _, objs, _) = cff2_index(d, find(17)?.max(0) as usize)?;
        glyphs = objs;
    } else {
        let hdr = usize::from(*d.get(2)?);
        let names = cff_index(d, hdr)?;
        let tops = cff_index(d, names.end)?;
        let &(ts, te) = tops.objs.first()?;
        let dict = cff_dict(d.get(ts..te)?);
        let find = |op: u16| dict.iter().find(|(o, _)| *o == op).map(|(_, v)| v.clone());
        let strings = cff_index(d, tops.end)?;
        if let Some(gs) = cff_index(d, strings.end) {
            if gs.count > 0 {
                cands.push((strings.end, gs.end, true));
            }
        }
        if find(0x0c1e).is_none() {
            // name-keyed: one Private DICT
            if let Some(v) = find(18) {
                if let [size, off] = v[..] {
                    let (size, off) = (size.max(0) as usize, off.max(0) as usize);
                    if let Some(pd) = d.get(off..off + size) {
                        let pd = cff_dict(pd);
                        if let Some(so) = pd.iter().find(|(o, _)| *o == 19).and_then(|(_, v)| v.last().copied()) {
                            let at = off + so.max(0) as usize;
                            if let Some(ix) = cff_index(d, at) {
                                if ix.count > 0 {
                                    cands.push((at, ix.end, false));
                                }
                            }
                        }
                    }
                }
            }
        }
        let cs = cff_index(d, find(17)?.last().copied()?.max(0) as usize)?;
        glyphs = cs.objs;
    }
    if cands.is_empty() || glyphs.is_empty() {
        return None;
    }
    let &(at, end, global) = rng.pick(&cands);
    if end > n || end <= at {
        return None;
    }
    let span = end - at;
    let cnt = if cff2 { 4 } else { 2 };
    // pick the offset size that leaves an even number of data bytes (CFF2 programs have no
    // terminator, so every byte of every object is executed)
    let off_size = [4usize, 3]
        .into_iter()
        .find(|os| span >= cnt + 1 + 11 * os + 18 && (span - (cnt + 1 + 11 * os)) % 2 == 0)?;
    let data_len = span - (cnt + 1 + 11 * off_size);
    let cap = *rng.pick(&[2usize, 6, 24, 1000]);
    let per = (data_len / 9) & !1;
    let call = if global { 29u8 } else { 10u8 };
    let mut objs: Vec<Vec<u8>> = Vec::new();
    let mut used = 0;
    for i in 0..9usize {
        // the last caller takes the remainder (CFF: minus one byte for the leaf's `return`)
        let room = if i == 8 { data_len - used - if cff2 { 0 } else { 1 } } else { per };
        let k = if cff2 { room / 2 } else { (room.saturating_sub(1) / 2).min(cap).max(1) };
        let mut o = Vec::with_capacity(room);
        for _ in 0..k {
            // biased index: i + 1 - 107 as a one byte operand
            o.push((i as i32 + 1 - 107 + 139) as u8);
            o.push(call);
        }
        if !cff2 {
            o.push(11);
            o.resize(room.max(o.len()), 11);
        }
        used += o.len();
        objs.push(o);
    }
    let _ = cap;
    objs.push(if cff2 { Vec::new() } else { vec![11; data_len.saturating_sub(used)] });
    let total: usize = objs.iter().map(|o| o.len()).sum();
    if total != data_len {
        return None;
    }
    let mut ix: Vec<u8> = Vec::with_capacity(span);
    if cff2 {
        ix.extend_from_slice(&10u32.to_be_bytes());
    } else {
        ix.extend_from_slice(&10u16.to_be_bytes());
    }
    ix.push(off_size as u8);
    let mut o = 1usize;
    for k in 0..=10 {
        ix.extend_from_slice(&(o as u32).to_be_bytes()[4 - off_size..]);
        if k < 10 {
            o += objs[k].len();
        }
    }
    for ob in &objs {
        ix.extend_from_slice(ob);
    }
    if ix.len() != span {
        return None;
    }
    // the glyph program: calls of subroutine 0
    let even: Vec<usize> = (0..glyphs.len().min(2000))
        .filter(|&g| {
            let (s, e) = glyphs[g];
            e <= n && e > s + 4 && (!cff2 || (e - s) % 2 == 0)
        })
        .collect();
    if even.is_empty() {
        return None;
    }
    let g = *rng.pick(&even);
    let (s, e) = glyphs[g];
    let m = ((e - s - usize::from(!cff2)) / 2).min(if cff2 { usize::MAX } else { *rng.pick(&[1usize, 4, 1000]) });
    let mut prog = Vec::with_capacity(e - s);
    for _ in 0..m {
        prog.push((0 - 107 + 139) as u8);
        prog.push(call);
    }
    if !cff2 {
        prog.push(14);
    } else if prog.len() != e - s {
        return None;
    }
    let t = if cff2 { "CFF2" } else { "CFF" };
    Some(vec![
        Field { name: format!("{}.subrs.fanout#g{}", t, g), off: at, width: 1, bytes: Some(ix) },
        Field { name: format!("{}.charstring.fanoutCalls#g{}", t, g), off: s, width: 1, bytes: Some(prog) },
    ])
}

/// CharStrings, charset, FDSelect, Private DICT and local subroutines of a CFF table.
fn cff_deep_fields(out: &mut Vec<Field>, d: &[u8], rng: &mut Rng) {
    use crate::sfnt_check::{cff_dict, cff_index};
    let n = d.len();
    let hdr = usize::from(d.get(2).copied().unwrap_or(4));
    let Some(names) = cff_index(d, hdr) else { return };
    let Some(tops) = cff_index(d, names.end) else { return };
    let Some(&(ts, te)) = tops.objs.first() else { return };
    let Some(top) = d.get(ts..te) else { return };
    let dict = cff_dict(top);
    let find = |op: u16| dict.iter().find(|(o, _)| *o == op).map(|(_, v)| v.clone());
    if let Some(cs_off) = find(17).and_then(|v| v.last().copied()).filter(|o| *o > 0) {
        let cs_off = cs_off as usize;
        f(out, "CFF.charstrings.count", cs_off, 2, n);
        f(out, "CFF.charstrings.offSize", cs_off + 2, 1, n);
        if let Some(cs) = cff_index(d, cs_off) {
            if cs.count > 0 {
                let off_size = usize::from(d[cs_off + 2]);
                let k = pick_index(rng, cs.count + 1);
                let w = if off_size == 3 { 2 } else { off_size.min(4) };
                f(out, "CFF.charstrings.offset[k]", cs_off + 3 + k * off_size + (off_size - w), w as u8, n);
                // SIDs of the first glyphs (charset), to aim `seac` at existing glyphs
                let charset_off = find(15).and_then(|v| v.last().copied()).unwrap_or(0);
                let mut sids: Vec<u16> = vec![0];
                if charset_off <= 2 {
                    sids.extend(1..300u16);
                } else {
                    let co = charset_off as usize;
                    match d.get(co) {
                        Some(0) => {
                            for k in 0..299 {
                                match be16(d, co + 1 + 2 * k) {
                                    Some(v) => sids.push(v as u16),
                                    None => break,
                                }
                            }
                        }
                        Some(fmt @ (1 | 2)) => {
                            let mut p = co + 1;
                            while sids.len() < 300 {
                                let first = be16(d, p);
                                let left = if *fmt == 1 { d.get(p + 2).map(|&b| usize::from(b)) } else { be16(d, p + 2) };
                                let (Some(first), Some(left)) = (first, left) else { break };
                                for j in 0..=left {
                                    if sids.len() >= 300 {
                                        break;
                                    }
                                    sids.push((first + j) as u16);
                                }
                                p += if *fmt == 1 { 3 } else { 4 };
                            }
                        }
                        _ => {}
                    }
                }
                // glyphs reachable through a standard-encoding code (SID 1..=95 <-> code 32..=126)
                let encodable: Vec<(usize, u8)> = sids
                    .iter()
                    .enumerate()
                    .filter(|(g, sid)| (1..=95).contains(*sid) && *g < cs.count)
                    .map(|(g, sid)| (g, (*sid + 31) as u8))
                    .collect();
                // one glyph program (biased to the first 256 glyphs, which deep walks visit)
                let mut g = if rng.pct(70) { rng.usize_below(cs.count.min(256)) } else { rng.usize_below(cs.count) };
                let mut self_code: Option<u8> = None;
                if !encodable.is_empty() && rng.pct(50) {
                    let (eg, code) = encodable[rng.usize_below(encodable.len())];
                    g = eg;
                    self_code = Some(code);
                }
                let (s, e) = cs.objs[g];
                if e > s {
                    f(out, &format!("CFF.charstring.first#g{}", g), s, 1, n);
                    f(out, &format!("CFF.charstring.last#g{}", g), e - 1, 1, n);
                    f(out, &format!("CFF.charstring.byte#g{}", g), s + rng.usize_below(e - s), 1, n);
                    {
                        // flex family (no corpus glyph uses it): moveto, arguments, 12 <op>, endchar
                        let (op, nargs) = *rng.pick(&[(34u8, 7usize), (35, 13), (36, 9), (37, 11)]);
                        let nargs = if rng.pct(80) { nargs } else { nargs.saturating_sub(1 + rng.usize_below(3)) };
                        let mut prog = vec![139u8, 139, 21];
                        for k in 0..nargs {
                            prog.push((139 + 7 * (k as i32 % 5) - 10) as u8);
                        }
                        prog.extend_from_slice(&[12, op, 14]);
                        if e - s >= prog.len() {
                            fw(out, &format!("CFF.charstring.flex#g{}", g), s, prog, n);
                        }
                    }
                    // `dx dy bchar achar endchar`: accented character built from two others
                    // (standard encoding codes), possibly from itself
                    let any_code = |rng: &mut Rng| -> u8 {
                        if !encodable.is_empty() && rng.pct(70) {
                            encodable[rng.usize_below(encodable.len())].1
                        } else {
                            32 + rng.below(95) as u8
                        }
                    };
                    let c1 = match self_code {
                        Some(c) if rng.pct(60) => c,
                        _ => any_code(rng),
                    };
                    let c2 = if rng.pct(50) { c1 } else { any_code(rng) };
                    // operand encoding of an integer v in -107..=107 is the single byte v + 139
                    let enc = |c: u8| -> Vec<u8> {
                        if c <= 107 {
                            vec![c + 139]
                        } else {
                            vec![247, c - 108]
                        }
                    };
                    let mut prog = vec![139u8, 139];
                    prog.extend(enc(c1));
                    prog.extend(enc(c2));
                    prog.push(14);
                    if e - s >= prog.len() {
                        fw(out, &format!("CFF.charstring.seac#g{}", g), s, prog, n);
                    }
                    // callsubr / callgsubr with an arbitrary index
                    let idx = [139u8, 32, 246, 28][rng.usize_below(4)];
                    if e - s >= 4 {
                        let op = if rng.pct(50) { 10 } else { 29 };
                        if idx == 28 {
                            fw(out, "CFF.charstring.callsubr", s, vec![28, 0x7f, 0xff, op], n);
                        } else {
                            fw(out, "CFF.charstring.callsubr", s, vec![idx, op, 14], n);
                        }
                    }
                }
            }
        }
    }
    if let Some(off) = find(15).and_then(|v| v.last().copied()).filter(|o| *o > 2) {
        let off = off as usize;
        f(out, "CFF.charset.format", off, 1, n);
        f(out, "CFF.charset.first", off + 1, 2, n);
        f(out, "CFF.charset.nLeft", off + 3, 1, n);
        f(out, "CFF.charset.second", off + 3, 2, n);
        // the whole charset as one wide format 2 (or format 1) range: sums of first + nLeft and
        // of nLeft + 1 that do not fit 16 bits
        let (first, n_left) = [(2u16, 0xFFFFu16), (1, 0xFFFF), (0x8000, 0xFFFF), (0xFFFF, 0xFFFF), (1, 0xFFFE), (0x8000, 0x8000), (0xFFFF, 1)]
            [rng.usize_below(7)];
        if d.len() >= off + 5 {
            let (fb, nb) = (first.to_be_bytes(), n_left.to_be_bytes());
            if rng.pct(75) {
                fw(out, "CFF.charset.format2Range", off, vec![2, fb[0], fb[1], nb[0], nb[1]], n);
            } else {
                fw(out, "CFF.charset.format1Range", off, vec![1, fb[0], fb[1], 0xFF], n);
            }
        }
    }
    if let Some(off) = find(16).and_then(|v| v.last().copied()).filter(|o| *o > 1) {
        let off = off as usize;
        f(out, "CFF.encoding.format", off, 1, n);
        f(out, "CFF.encoding.count", off + 1, 1, n);
    }
    if let Some(off) = find(0x0c25).and_then(|v| v.last().copied()) {
        let off = off as usize;
        f(out, "CFF.fdselect.format", off, 1, n);
        f(out, "CFF.fdselect.nRanges", off + 1, 2, n);
        f(out, "CFF.fdselect.range0.first", off + 3, 2, n);
        f(out, "CFF.fdselect.range0.fd", off + 5, 1, n);
        if let Some(nr) = be16(d, off + 1) {
            f(out, "CFF.fdselect.sentinel", off + 3 + 3 * nr, 2, n);
        }
    }
    if let Some(off) = find(0x0c24).and_then(|v| v.last().copied()) {
        let off = off as usize;
        f(out, "CFF.fdarray.count", off, 2, n);
        f(out, "CFF.fdarray.offSize", off + 2, 1, n);
        if let Some(fda) = cff_index(d, off) {
            if let Some(&(s, e)) = fda.objs.get(rng.usize_below(fda.count.max(1))) {
                if e > s {
                    f(out, "CFF.fontdict.byte", s + rng.usize_below(e - s), 1, n);
                }
            }
        }
    }
    // Private DICT: operands are (size, offset)
    if let Some(v) = find(18) {
        if let [size, off] = v[..] {
            let (size, off) = (size.max(0) as usize, off.max(0) as usize);
            if size > 0 {
                f(out, "CFF.private.byte", off + rng.usize_below(size), 1, n);
            }
            let real = long_real(*rng.pick(&[30usize, 62, 63, 64, 65]));
            if size > real.len() {
                fw(out, "CFF.private.longReal", off, real, n);
            }
            if let Some(pd) = d.get(off..off + size) {
                let pdict = cff_dict(pd);
                if let Some(so) = pdict.iter().find(|(o, _)| *o == 19).and_then(|(_, v)| v.last().copied()) {
                    let subrs = off + so.max(0) as usize;
                    f(out, "CFF.localsubrs.count", subrs, 2, n);
                    f(out, "CFF.localsubrs.offSize", subrs + 2, 1, n);
                    if let Some(ix) = cff_index(d, subrs) {
                        if let Some(&(s, e)) = ix.objs.get(rng.usize_below(ix.count.max(1))) {
                            if e > s {
                                f(out, "CFF.localsubr.byte", s + rng.usize_below(e - s), 1, n);
                                f(out, "CFF.localsubr.last", e - 1, 1, n);
                                if e - s >= 3 {
                                    // a subroutine that calls a subroutine
                                    fw(out, "CFF.localsubr.recursive", s, vec![[139u8, 32, 140][rng.usize_below(3)], 10, 11], n);
                                }
                            }
                        }
                    }
                }
            }
        }
    }
    // global subroutines follow the string INDEX
    if let Some(strings) = cff_index(d, tops.end) {
        if let Some(gs) = cff_index(d, strings.end) {
            if let Some(&(s, e)) = gs.objs.get(rng.usize_below(gs.count.max(1))) {
                if e > s {
                    f(out, "CFF.gsubr.byte", s + rng.usize_below(e - s), 1, n);
                    if e - s >= 3 {
                        fw(out, "CFF.gsubr.recursive", s, vec![[139u8, 32, 140][rng.usize_below(3)], 29, 11], n);
                    }
                }
            }
        }
    }
}

fn pick_index(rng: &mut Rng, n: usize) -> usize {
    if n == 0 {
        return 0;
    }
    match rng.below(4) {
        0 => 0,
        1 => n - 1,
        _ => rng.usize_below(n),
    }
}

fn coverage_fields(out: &mut Vec<Field>, d: &[u8], cov: usize, prefix: &str) {
    f(out, &format!("{}.coverage.format", prefix), cov, 2, d.len());
    f(out, &format!("{}.coverage.count", prefix), cov + 2, 2, d.len());
    f(out, &format!("{}.coverage.first", prefix), cov + 4, 2, d.len());
    f(out, &format!("{}.coverage.second", prefix), cov + 6, 2, d.len());
    // format 2: first range = (start, end, startCoverageIndex); then the second range
    f(out, &format!("{}.coverage.startCoverageIndex", prefix), cov + 8, 2, d.len());
    f(out, &format!("{}.coverage.range1.start", prefix), cov + 10, 2, d.len());
    f(out, &format!("{}.coverage.range1.startCoverageIndex", prefix), cov + 14, 2, d.len());
}

fn layout_fields(out: &mut Vec<Field>, d: &[u8], rng: &mut Rng, t: &str) {
    let n = d.len();
    f(out, &format!("{}.minorVersion", t), 2, 2, n);
    f(out, &format!("{}.scriptListOffset", t), 4, 2, n);
    f(out, &format!("{}.featureListOffset", t), 6, 2, n);
    f(out, &format!("{}.lookupListOffset", t), 8, 2, n);
    if be16(d, 2) == Some(1) {
        f(out, &format!("{}.featureVariationsOffset", t), 10, 4, n);
        if let Some(fv) = be32(d, 10) {
            f(out, &format!("{}.featureVariations.count", t), fv + 4, 4, n);
            f(out, &format!("{}.featureVariations.conditionSetOffset", t), fv + 8, 4, n);
            f(out, &format!("{}.featureVariations.substitutionOffset", t), fv + 12, 4, n);
        }
    }
    if let Some(sl) = be16(d, 4) {
        f(out, &format!("{}.scriptCount", t), sl, 2, n);
        if let Some(cnt) = be16(d, sl) {
            let k = pick_index(rng, cnt);
            f(out, &format!("{}.script.offset", t), sl + 2 + 6 * k + 4, 2, n);
            if let Some(so) = be16(d, sl + 2 + 6 * k + 4) {
                let st = sl + so;
                f(out, &format!("{}.script.defaultLangSys", t), st, 2, n);
                f(out, &format!("{}.script.langSysCount", t), st + 2, 2, n);
                if let Some(dl) = be16(d, st) {
                    let ls = st + dl;
                    f(out, &format!("{}.langsys.requiredFeature", t), ls + 2, 2, n);
                    f(out, &format!("{}.langsys.featureCount", t), ls + 4, 2, n);
                    f(out, &format!("{}.langsys.featureIndex", t), ls + 6, 2, n);
                }
            }
        }
    }
    if let Some(fl) = be16(d, 6) {
        f(out, &format!("{}.featureCount", t), fl, 2, n);
        if let Some(cnt) = be16(d, fl) {
            let k = pick_index(rng, cnt);
            f(out, &format!("{}.feature.offset", t), fl + 2 + 6 * k + 4, 2, n);
            if let Some(fo) = be16(d, fl + 2 + 6 * k + 4) {
                f(out, &format!("{}.feature.lookupCount", t), fl + fo + 2, 2, n);
                f(out, &format!("{}.feature.lookupIndex", t), fl + fo + 4, 2, n);
            }
        }
    }
    if let Some(ll) = be16(d, 8) {
        f(out, &format!("{}.lookupCount", t), ll, 2, n);
        if let Some(cnt) = be16(d, ll) {
            // contextual lookups get extra weight: their nested-lookup records are where
            // recursion limits and sequence-index checks live
            let contextual: Vec<usize> = (0..cnt.min(512))
                .filter(|i| {
                    be16(d, ll + 2 + 2 * i)
                        .and_then(|lo| be16(d, ll + lo))
                        .map_or(false, |ty| if t == "GSUB" { ty == 5 || ty == 6 } else { ty == 7 || ty == 8 })
                })
                .collect();
            let k = if !contextual.is_empty() && rng.pct(40) {
                contextual[rng.usize_below(contextual.len())]
            } else {
                pick_index(rng, cnt)
            };
            f(out, &format!("{}.lookup.offset", t), ll + 2 + 2 * k, 2, n);
            if let Some(lo) = be16(d, ll + 2 + 2 * k) {
                let l = ll + lo;
                f(out, &format!("{}.lookup.type", t), l, 2, n);
                f(out, &format!("{}.lookup.flag", t), l + 2, 2, n);
                f(out, &format!("{}.lookup.subTableCount", t), l + 4, 2, n);
                if let Some(sc) = be16(d, l + 4) {
                    let j = pick_index(rng, sc);
                    f(out, &format!("{}.lookup.subtableOffset", t), l + 6 + 2 * j, 2, n);
                    f(out, &format!("{}.lookup.markFilteringSet", t), l + 6 + 2 * sc, 2, n);
                    if let Some(so) = be16(d, l + 6 + 2 * j) {
                        let mut s = l + so;
                        // Extension lookups (GSUB 7 / GPOS 9): follow to the real subtable.
                        let ty = be16(d, l).unwrap_or(0);
                        let is_ext = (t == "GSUB" && ty == 7) || (t == "GPOS" && ty == 9);
                        if is_ext {
                            f(out, &format!("{}.ext.type", t), s + 2, 2, n);
                            f(out, &format!("{}.ext.offset", t), s + 4, 4, n);
                            if let Some(eo) = be32(d, s + 4) {
                                s += eo;
                            }
                        }
                        let real_ty = if is_ext { be16(d, l + so + 2).unwrap_or(0) } else { ty };
                        let ctx = (t == "GSUB" && real_ty == 5) || (t == "GPOS" && real_ty == 7);
                        let chain = (t == "GSUB" && real_ty == 6) || (t == "GPOS" && real_ty == 8);
                        if ctx || chain {
                            context_record_fields(out, d, s, chain, k, cnt, rng, t);
                        }
                        if t == "GPOS" && real_ty == 5 {
                            // MarkLigPos: LigatureArray -> LigatureAttach.componentCount (GSUB
                            // decides how many components a ligature has, GPOS how many it
                            // has anchors for)
                            if let Some(lao) = be16(d, s + 10) {
                                let la = s + lao;
                                f(out, "GPOS.markLig.ligatureCount", la, 2, n);
                                if let Some(lc) = be16(d, la) {
                                    let j = pick_index(rng, lc);
                                    if let Some(lo) = be16(d, la + 2 + 2 * j) {
                                        f(out, "GPOS.markLig.componentCount", la + lo, 2, n);
                                    }
                                }
                            }
                        }
                        f(out, &format!("{}.subtable.format", t), s, 2, n);
                        f(out, &format!("{}.subtable.field1", t), s + 2, 2, n);
                        f(out, &format!("{}.subtable.field2", t), s + 4, 2, n);
                        f(out, &format!("{}.subtable.field3", t), s + 6, 2, n);
                        f(out, &format!("{}.subtable.field4", t), s + 8, 2, n);
                        f(out, &format!("{}.subtable.field5", t), s + 10, 2, n);
                        if let Some(co) = be16(d, s + 2) {
                            coverage_fields(out, d, s + co, &format!("{}.subtable", t));
                        }
                        // One level down: first offset in the subtable's array, if any.
                        for probe in [6usize, 8, 10, 12] {
                            if let Some(o) = be16(d, s + probe) {
                                if o != 0 && s + o + 2 <= n {
                                    f(out, &format!("{}.subtable.child@{}", t, probe), s + o, 2, n);
                                    f(out, &format!("{}.subtable.child@{}+2", t, probe), s + o + 2, 2, n);
                                }
                            }
                        }
                    }
                }
            }
        }
    }
}

/// Sequence lookup records of a (chained) context subtable at `s`: their lookupListIndex can be
/// made to name the lookup itself (`own`) or any other lookup, their sequenceIndex to leave the
/// input sequence.
#[allow(clippy::too_many_arguments)]
fn context_record_fields(
    out: &mut Vec<Field>,
    d: &[u8],
    s: usize,
    chain: bool,
    own: usize,
    lookup_count: usize,
    rng: &mut Rng,
    t: &str,
) {
    let n = d.len();
    // (offset of the first record, record count)
    let mut recs: Option<(usize, usize)> = None;
    match be16(d, s) {
        Some(3) => {
            if chain {
                let mut p = s + 2;
                let mut ok = true;
                for _ in 0..3 {
                    match be16(d, p) {
                        Some(c) => p += 2 + 2 * c,
                        None => {
                            ok = false;
                            break;
                        }
                    }
                }
                if ok {
                    if let Some(c) = be16(d, p) {
                        recs = Some((p + 2, c));
                    }
                }
            } else if let (Some(gc), Some(sc)) = (be16(d, s + 2), be16(d, s + 4)) {
                recs = Some((s + 6 + 2 * gc, sc));
            }
        }
        Some(1) | Some(2) => {
            // rule sets: format 1 at s+4 (count) / s+6 (offsets); format 2 (non-chain) at s+6 / s+8,
            // chain format 2 at s+10 / s+12
            let sets_at = match (be16(d, s), chain) {
                (Some(1), _) => s + 4,
                (Some(2), false) => s + 6,
                _ => s + 10,
            };
            if let Some(sc) = be16(d, sets_at) {
                let offs: Vec<usize> = (0..sc.min(64))
                    .filter_map(|i| be16(d, sets_at + 2 + 2 * i))
                    .filter(|o| *o != 0)
                    .collect();
                if !offs.is_empty() {
                    let set = s + offs[rng.usize_below(offs.len())];
                    if let Some(rc) = be16(d, set) {
                        if rc > 0 {
                            if let Some(ro) = be16(d, set + 2 + 2 * rng.usize_below(rc.min(32))) {
                                let r = set + ro;
                                if chain {
                                    let mut p = r;
                                    let mut ok = true;
                                    for part in 0..3 {
                                        match be16(d, p) {
                                            Some(c) => {
                                                let items = if part == 1 { c.saturating_sub(1) } else { c };
                                                p += 2 + 2 * items;
                                            }
                                            None => {
                                                ok = false;
                                                break;
                                            }
                                        }
                                    }
                                    if ok {
                                        if let Some(c) = be16(d, p) {
                                            recs = Some((p + 2, c));
                                        }
                                    }
                                } else if let (Some(gc), Some(c)) = (be16(d, r), be16(d, r + 2)) {
                                    recs = Some((r + 4 + 2 * gc.saturating_sub(1), c));
                                }
                            }
                        }
                    }
                }
            }
        }
        _ => {}
    }
    if let Some((at, count)) = recs {
        if count > 0 {
            let k = rng.usize_below(count.min(16));
            f(out, &format!("{}.context.record.sequenceIndex", t), at + 4 * k, 2, n);
            f(out, &format!("{}.context.record.lookupIndex", t), at + 4 * k + 2, 2, n);
            // the nested lookup is the lookup itself, or another (possibly contextual) one
            fw(out, &format!("{}.context.record.self", t), at + 4 * k + 2, (own as u16).to_be_bytes().to_vec(), n);
            // ... applied at the first glyph of the sequence, where the same context matches again
            let mut rec = vec![0u8, 0];
            rec.extend_from_slice(&(own as u16).to_be_bytes());
            fw(out, &format!("{}.context.record.selfAtStart", t), at + 4 * k, rec, n);
            if lookup_count > 0 {
                let other = rng.usize_below(lookup_count) as u16;
                fw(out, &format!("{}.context.record.other", t), at + 4 * k + 2, other.to_be_bytes().to_vec(), n);
            }
        }
    }
}

fn cff_index(d: &[u8], at: usize) -> Option<(usize, usize, usize)> {
    // -> (count, offSize, end)
    let count = be16(d, at)?;
    if count == 0 {
        return Some((0, 0, at + 2));
    }
    let off_size = usize::from(*d.get(at + 2)?);
    if off_size == 0 || off_size > 4 {
        return None;
    }
    let last = at + 3 + count * off_size;
    let mut v = 0usize;
    for i in 0..off_size {
        v = (v << 8) | usize::from(*d.get(last + i)?);
    }
    let data_start = at + 3 + (count + 1) * off_size - 1;
    Some((count, off_size, data_start + v))
}

/// Candidate fields of `tag` (4-char string) within pristine table bytes `d`.
pub fn locate(tag: &str, d: &[u8], rng: &mut Rng) -> Vec<Field> {
    let mut out = Vec::new();
    let n = d.len();
    match tag {
        "maxp" => {
            f(&mut out, "maxp.version", 0, 4, n);
            f(&mut out, "maxp.numGlyphs", 4, 2, n);
        }
        "hhea" | "vhea" => {
            f(&mut out, "hhea.version", 0, 4, n);
            f(&mut out, "hhea.numberOfHMetrics", 34, 2, n);
        }
        "head" => {
            f(&mut out, "head.unitsPerEm", 18, 2, n);
            f(&mut out, "head.indexToLocFormat", 50, 2, n);
            f(&mut out, "head.magic", 12, 4, n);
            f(&mut out, "head.glyphDataFormat", 52, 2, n);
        }
        "loca" => {
            let k = pick_index(rng, n / 2);
            f(&mut out, "loca.short[k]", 2 * k, 2, n);
            f(&mut out, "loca.long[k]", 4 * (k / 2), 4, n);
            f(&mut out, "loca.last2", n.saturating_sub(2), 2, n);
            f(&mut out, "loca.last4", n.saturating_sub(4), 4, n);
        }
        "hmtx" | "vmtx" => {
            let k = pick_index(rng, n / 4);
            f(&mut out, "hmtx.advance[k]", 4 * k, 2, n);
        }
        "glyf" => {
            // Glyph headers are found through 10-byte probing of plausible starts: take a
            // few even offsets; real starts are passed in by the generator via loca when known.
            let k = pick_index(rng, n / 2) * 2;
            f(&mut out, "glyf.word", k, 2, n);
            f(&mut out, "glyf.glyph0.numberOfContours", 0, 2, n);
            f(&mut out, "glyf.glyph0.endPts0", 10, 2, n);
        }
        "cmap" => {
            f(&mut out, "cmap.version", 0, 2, n);
            f(&mut out, "cmap.numTables", 2, 2, n);
            if let Some(cnt) = be16(d, 2) {
                let k = pick_index(rng, cnt);
                let r = 4 + 8 * k;
                f(&mut out, "cmap.record.platformID", r, 2, n);
                f(&mut out, "cmap.record.encodingID", r + 2, 2, n);
                f(&mut out, "cmap.record.offset", r + 4, 4, n);
                if let Some(so) = be32(d, r + 4) {
                    f(&mut out, "cmap.subtable.format", so, 2, n);
                    match be16(d, so) {
                        Some(0) => {
                            f(&mut out, "cmap0.length", so + 2, 2, n);
                        }
                        Some(2) => {
                            f(&mut out, "cmap2.length", so + 2, 2, n);
                            let k = pick_index(rng, 256);
                            f(&mut out, "cmap2.subHeaderKey", so + 6 + 2 * k, 2, n);
                            f(&mut out, "cmap2.subHeader0.firstCode", so + 518, 2, n);
                            f(&mut out, "cmap2.subHeader0.entryCount", so + 520, 2, n);
                            f(&mut out, "cmap2.subHeader0.idRangeOffset", so + 524, 2, n);
                        }
                        Some(4) => {
                            f(&mut out, "cmap4.length", so + 2, 2, n);
                            f(&mut out, "cmap4.segCountX2", so + 6, 2, n);
                            if let Some(sx2) = be16(d, so + 6) {
                                let seg = sx2 / 2;
                                let k = pick_index(rng, seg);
                                f(&mut out, "cmap4.endCode", so + 14 + 2 * k, 2, n);
                                f(&mut out, "cmap4.startCode", so + 16 + sx2 + 2 * k, 2, n);
                                f(&mut out, "cmap4.idDelta", so + 16 + 2 * sx2 + 2 * k, 2, n);
                                f(&mut out, "cmap4.idRangeOffset", so + 16 + 3 * sx2 + 2 * k, 2, n);
                                // every segment spans the whole BMP: enumerating the mappings
                                // costs 65536 per 8 bytes of table (endCode[], pad, startCode[]
                                // are adjacent; idRangeOffset[] zeroed by a second variant)
                                if seg >= 2 && seg <= 8192 {
                                    // (at most 48 wide segments - 3 M mappings - the others
                                    // keep their end code: the point is the shape, not seconds
                                    // of hash map insertions per run)
                                    let mut b = Vec::with_capacity(2 * sx2 + 2);
                                    for k in 0..seg {
                                        if k < 48 {
                                            b.extend_from_slice(&[0xFF, 0xFF]);
                                        } else {
                                            b.extend_from_slice(&d[so + 14 + 2 * k..so + 16 + 2 * k]);
                                        }
                                    }
                                    b.extend_from_slice(&[0, 0]);
                                    b.resize(2 * sx2 + 2, 0);
                                    fw(&mut out, "cmap4.segments.allWide", so + 14, b.clone(), n);
                                    // same, with idDelta[] and idRangeOffset[] zeroed as well
                                    b.resize(4 * sx2 + 2, 0);
                                    fw(&mut out, "cmap4.segments.allWideDirect", so + 14, b, n);
                                }
                            }
                        }
                        Some(6) => {
                            f(&mut out, "cmap6.length", so + 2, 2, n);
                            f(&mut out, "cmap6.firstCode", so + 6, 2, n);
                            f(&mut out, "cmap6.entryCount", so + 8, 2, n);
                        }
                        Some(10) => {
                            f(&mut out, "cmap10.length", so + 4, 4, n);
                            f(&mut out, "cmap10.startCharCode", so + 12, 4, n);
                            f(&mut out, "cmap10.numChars", so + 16, 4, n);
                        }
                        Some(12) | Some(13) => {
                            f(&mut out, "cmap12.length", so + 4, 4, n);
                            f(&mut out, "cmap12.numGroups", so + 12, 4, n);
                            if let Some(g) = be32(d, so + 12) {
                                let k = pick_index(rng, g);
                                f(&mut out, "cmap12.startCharCode", so + 16 + 12 * k, 4, n);
                                f(&mut out, "cmap12.endCharCode", so + 20 + 12 * k, 4, n);
                                f(&mut out, "cmap12.startGlyphID", so + 24 + 12 * k, 4, n);
                                // every group spans all of Unicode (groups are required to be
                                // sorted and disjoint; nothing in the format enforces it)
                                if g >= 2 {
                                    let m = g.min(*rng.pick(&[8usize, 64, 1000]));
                                    let mut b = Vec::with_capacity(12 * m);
                                    for _ in 0..m {
                                        // (glyph ids have to stay below 65536 or the
                                        // enumeration stops with an error at once)
                                        let wide = rng.pct(70);
                                        b.extend_from_slice(&0u32.to_be_bytes());
                                        b.extend_from_slice(&(if wide { 0xFFFEu32 } else { 0x10FFFF }).to_be_bytes());
                                        b.extend_from_slice(&(if wide { 0u32 } else { 1 }).to_be_bytes());
                                    }
                                    fw(&mut out, "cmap12.groups.allWide", so + 16, b, n);
                                }
                            }
                        }
                        Some(14) => {
                            f(&mut out, "cmap14.length", so + 2, 4, n);
                            f(&mut out, "cmap14.numVarSelectorRecords", so + 6, 4, n);
                        }
                        _ => {}
                    }
                }
            }
        }
        "CFF " => {
            f(&mut out, "CFF.major", 0, 1, n);
            f(&mut out, "CFF.hdrSize", 2, 1, n);
            f(&mut out, "CFF.offSize", 3, 1, n);
            let mut at = usize::from(d.get(2).copied().unwrap_or(4));
            for name in ["name", "topdict", "string", "gsubr"] {
                f(&mut out, &format!("CFF.{}.count", name), at, 2, n);
                f(&mut out, &format!("CFF.{}.offSize", name), at + 2, 1, n);
                match cff_index(d, at) {
                    Some((count, off_size, end)) => {
                        if count > 0 {
                            let k = pick_index(rng, count + 1);
                            let w = off_size.min(4);
                            if w == 1 || w == 2 || w == 4 {
                                f(
                                    &mut out,
                                    &format!("CFF.{}.offset[k]", name),
                                    at + 3 + k * off_size,
                                    w as u8,
                                    n,
                                );
                            } else {
                                f(
                                    &mut out,
                                    &format!("CFF.{}.offset[k].lo", name),
                                    at + 3 + k * off_size + 1,
                                    2,
                                    n,
                                );
                            }
                            if name == "topdict" {
                                // bytes of the first top dict
                                let ds = at + 3 + (count + 1) * off_size;
                                let k = rng.usize_below(end.saturating_sub(ds).max(1));
                                f(&mut out, "CFF.topdict.byte", ds + k, 1, n);
                            }
                        }
                        at = end;
                    }
                    None => break,
                }
            }
            cff_deep_fields(&mut out, d, rng);
        }
        "CFF2" => {
            f(&mut out, "CFF2.major", 0, 1, n);
            f(&mut out, "CFF2.headerSize", 2, 1, n);
            f(&mut out, "CFF2.topDictLength", 3, 2, n);
            let hs = usize::from(d.get(2).copied().unwrap_or(5));
            let tl = be16(d, 3).unwrap_or(0);
            let k = rng.usize_below(tl.max(1));
            f(&mut out, "CFF2.topdict.byte", hs + k, 1, n);
            f(&mut out, "CFF2.gsubr.count", hs + tl, 4, n);
            f(&mut out, "CFF2.gsubr.offSize", hs + tl + 4, 1, n);
            cff2_deep_fields(&mut out, d, hs, tl, rng);
        }
        "fvar" => {
            f(&mut out, "fvar.axesArrayOffset", 4, 2, n);
            f(&mut out, "fvar.axisCount", 8, 2, n);
            f(&mut out, "fvar.axisSize", 10, 2, n);
            f(&mut out, "fvar.instanceCount", 12, 2, n);
            f(&mut out, "fvar.instanceSize", 14, 2, n);
            if let (Some(ao), Some(ac)) = (be16(d, 4), be16(d, 8)) {
                let k = pick_index(rng, ac);
                let a = ao + 20 * k;
                f(&mut out, "fvar.axis.min", a + 4, 4, n);
                f(&mut out, "fvar.axis.default", a + 8, 4, n);
                f(&mut out, "fvar.axis.max", a + 12, 4, n);
            }
        }
        "avar" => {
            f(&mut out, "avar.axisCount", 6, 2, n);
            f(&mut out, "avar.map0.count", 8, 2, n);
            f(&mut out, "avar.map0.from0", 10, 2, n);
            f(&mut out, "avar.map0.to0", 12, 2, n);
        }
        "gvar" => {
            f(&mut out, "gvar.axisCount", 4, 2, n);
            f(&mut out, "gvar.sharedTupleCount", 6, 2, n);
            f(&mut out, "gvar.sharedTuplesOffset", 8, 4, n);
            f(&mut out, "gvar.glyphCount", 12, 2, n);
            f(&mut out, "gvar.flags", 14, 2, n);
            f(&mut out, "gvar.dataOffset", 16, 4, n);
            if let Some(gc) = be16(d, 12) {
                let k = pick_index(rng, gc + 1);
                let long = be16(d, 14).unwrap_or(0) & 1 == 1;
                if long {
                    f(&mut out, "gvar.offset[k]", 20 + 4 * k, 4, n);
                } else {
                    f(&mut out, "gvar.offset[k]", 20 + 2 * k, 2, n);
                }
                // header of glyph k's variation data
                let data = be32(d, 16).unwrap_or(0);
                let off = if long {
                    be32(d, 20 + 4 * k).unwrap_or(0)
                } else {
                    be16(d, 20 + 2 * k).unwrap_or(0) * 2
                };
                f(&mut out, "gvar.glyph.tupleVariationCount", data + off, 2, n);
                f(&mut out, "gvar.glyph.dataOffset", data + off + 2, 2, n);
                f(&mut out, "gvar.glyph.tuple0.size", data + off + 4, 2, n);
                f(&mut out, "gvar.glyph.tuple0.index", data + off + 6, 2, n);
            }
        }
        "HVAR" | "VVAR" => {
            f(&mut out, "HVAR.storeOffset", 4, 4, n);
            f(&mut out, "HVAR.advanceMapOffset", 8, 4, n);
            f(&mut out, "HVAR.lsbMapOffset", 12, 4, n);
            if let Some(so) = be32(d, 4) {
                f(&mut out, "ivs.format", so, 2, n);
                f(&mut out, "ivs.regionListOffset", so + 2, 4, n);
                f(&mut out, "ivs.dataCount", so + 6, 2, n);
                f(&mut out, "ivs.data0Offset", so + 8, 4, n);
                if let Some(ro) = be32(d, so + 2) {
                    f(&mut out, "ivs.region.axisCount", so + ro, 2, n);
                    f(&mut out, "ivs.region.regionCount", so + ro + 2, 2, n);
                }
                if let Some(dof) = be32(d, so + 8) {
                    f(&mut out, "ivs.data0.itemCount", so + dof, 2, n);
                    f(&mut out, "ivs.data0.wordDeltaCount", so + dof + 2, 2, n);
                    f(&mut out, "ivs.data0.regionIndexCount", so + dof + 4, 2, n);
                }
            }
            if let Some(mo) = be32(d, 8) {
                f(&mut out, "HVAR.map.format", mo, 1, n);
                f(&mut out, "HVAR.map.entryFormat", mo + 1, 1, n);
                f(&mut out, "HVAR.map.mapCount", mo + 2, 2, n);
            }
        }
        "MVAR" => {
            f(&mut out, "MVAR.valueRecordSize", 6, 2, n);
            f(&mut out, "MVAR.valueRecordCount", 8, 2, n);
            f(&mut out, "MVAR.storeOffset", 10, 2, n);
        }
        "STAT" => {
            f(&mut out, "STAT.designAxisSize", 4, 2, n);
            f(&mut out, "STAT.designAxisCount", 6, 2, n);
            f(&mut out, "STAT.designAxesOffset", 8, 4, n);
            f(&mut out, "STAT.axisValueCount", 12, 2, n);
            f(&mut out, "STAT.axisValueOffsetsOffset", 14, 4, n);
            if let Some(o) = be32(d, 14) {
                f(&mut out, "STAT.axisValueOffset0", o, 2, n);
                if let Some(v) = be16(d, o) {
                    f(&mut out, "STAT.axisValue0.format", o + v, 2, n);
                    f(&mut out, "STAT.axisValue0.axisIndex", o + v + 2, 2, n);
                }
            }
        }
        "GSUB" | "GPOS" => layout_fields(&mut out, d, rng, tag),
        "GDEF" => {
            f(&mut out, "GDEF.minorVersion", 2, 2, n);
            for (i, name) in ["glyphClassDef", "attachList", "ligCaretList", "markAttachClassDef", "markGlyphSets"]
                .iter()
                .enumerate()
            {
                f(&mut out, &format!("GDEF.{}Offset", name), 4 + 2 * i, 2, n);
                if let Some(o) = be16(d, 4 + 2 * i) {
                    if o != 0 && i != 1 && i != 2 {
                        f(&mut out, &format!("GDEF.{}.format", name), o, 2, n);
                        f(&mut out, &format!("GDEF.{}.field1", name), o + 2, 2, n);
                        f(&mut out, &format!("GDEF.{}.field2", name), o + 4, 2, n);
                        f(&mut out, &format!("GDEF.{}.field3", name), o + 6, 2, n);
                    }
                }
            }
        }
        "kern" => {
            f(&mut out, "kern.version", 0, 2, n);
            f(&mut out, "kern.nTables", 2, 2, n);
            // walk the subtables by their length field (format 0: by nPairs when length is 0)
            let nt = be16(d, 2).unwrap_or(0).min(8);
            let want = rng.usize_below(nt.max(1));
            let mut s = 4;
            for i in 0..nt {
                let (Some(len), Some(cov)) = (be16(d, s + 2), be16(d, s + 4)) else { break };
                if i == want {
                    f(&mut out, "kern.sub.length", s + 2, 2, n);
                    if len > 16 {
                        // the last element of the subtable loses its last byte(s)
                        let nl = (len - *rng.pick(&[1usize, 1, 2, 3])) as u16;
                        fw(&mut out, "kern.sub.lengthMinus", s + 2, nl.to_be_bytes().to_vec(), n);
                    }
                    f(&mut out, "kern.sub.coverage", s + 4, 2, n);
                    f(&mut out, "kern.sub.format", s + 4, 1, n);
                    if cov >> 8 == 2 {
                        f(&mut out, "kern.fmt2.rowWidth", s + 6, 2, n);
                        f(&mut out, "kern.fmt2.leftClassOffset", s + 8, 2, n);
                        f(&mut out, "kern.fmt2.rightClassOffset", s + 10, 2, n);
                        f(&mut out, "kern.fmt2.arrayOffset", s + 12, 2, n);
                        for (name, at) in [("left", s + 8), ("right", s + 10)] {
                            if let Some(o) = be16(d, at) {
                                let c = s + o;
                                f(&mut out, &format!("kern.fmt2.{}.firstGlyph", name), c, 2, n);
                                f(&mut out, &format!("kern.fmt2.{}.nGlyphs", name), c + 2, 2, n);
                                let ng = be16(d, c + 2).unwrap_or(1).max(1);
                                f(
                                    &mut out,
                                    &format!("kern.fmt2.{}.class[k]", name),
                                    c + 4 + 2 * pick_index(rng, ng),
                                    2,
                                    n,
                                );
                                // the largest class value of this side, one byte further: the
                                // pair of the two largest values then straddles the end of the array
                                let vals: Vec<usize> = (0..ng.min(4096)).filter_map(|k| be16(d, c + 4 + 2 * k)).collect();
                                if let Some((k, v)) = vals.iter().enumerate().max_by_key(|(_, v)| **v) {
                                    let nv = (*v as u16).wrapping_add(*rng.pick(&[1u16, 1, 2]));
                                    fw(
                                        &mut out,
                                        &format!("kern.fmt2.{}.maxClassPlus", name),
                                        c + 4 + 2 * k,
                                        nv.to_be_bytes().to_vec(),
                                        n,
                                    );
                                }
                            }
                        }
                    } else {
                        f(&mut out, "kern.fmt0.nPairs", s + 6, 2, n);
                        f(&mut out, "kern.fmt0.searchRange", s + 8, 2, n);
                        let np = be16(d, s + 6).unwrap_or(1).max(1);
                        let k = pick_index(rng, np);
                        f(&mut out, "kern.fmt0.pair.left", s + 14 + 6 * k, 2, n);
                        f(&mut out, "kern.fmt0.pair.right", s + 16 + 6 * k, 2, n);
                        f(&mut out, "kern.fmt0.pair.value", s + 18 + 6 * k, 2, n);
                    }
                }
                let adv = if len >= 6 {
                    len
                } else {
                    14 + 6 * be16(d, s + 6).unwrap_or(0)
                };
                s += adv;
                if s >= n {
                    break;
                }
            }
        }
        "post" => {
            f(&mut out, "post.version", 0, 4, n);
            f(&mut out, "post.numGlyphs", 32, 2, n);
            if let Some(g) = be16(d, 32) {
                let k = pick_index(rng, g);
                f(&mut out, "post.glyphNameIndex[k]", 34 + 2 * k, 2, n);
                f(&mut out, "post.name0.length", 34 + 2 * g, 1, n);
            }
        }
        "name" => {
            f(&mut out, "name.format", 0, 2, n);
            f(&mut out, "name.count", 2, 2, n);
            f(&mut out, "name.stringOffset", 4, 2, n);
            if let Some(c) = be16(d, 2) {
                let k = pick_index(rng, c);
                f(&mut out, "name.record.platformID", 6 + 12 * k, 2, n);
                f(&mut out, "name.record.encodingID", 6 + 12 * k + 2, 2, n);
                f(&mut out, "name.record.nameID", 6 + 12 * k + 6, 2, n);
                f(&mut out, "name.record.length", 6 + 12 * k + 8, 2, n);
                f(&mut out, "name.record.offset", 6 + 12 * k + 10, 2, n);
            }
        }
        "OS/2" => {
            f(&mut out, "OS/2.version", 0, 2, n);
            f(&mut out, "OS/2.usFirstCharIndex", 64, 2, n);
        }
        "sbix" => {
            f(&mut out, "sbix.flags", 2, 2, n);
            f(&mut out, "sbix.numStrikes", 4, 4, n);
            let ns = be32(d, 4).unwrap_or(0).clamp(1, 16);
            let k = pick_index(rng, ns);
            f(&mut out, "sbix.strikeOffset", 8 + 4 * k, 4, n);
            if let Some(so) = be32(d, 8 + 4 * k) {
                f(&mut out, "sbix.strike.ppem", so, 2, n);
                f(&mut out, "sbix.strike.ppi", so + 2, 2, n);
                // number of glyphs inferred from the first data offset (offset array + header)
                let ng = be32(d, so + 4).map(|o| (o.saturating_sub(4) / 4).saturating_sub(1)).unwrap_or(0).min(70000);
                if ng > 0 {
                    let g = pick_index(rng, ng);
                    f(&mut out, "sbix.strike.glyphOffset[g]", so + 4 + 4 * g, 4, n);
                    f(&mut out, "sbix.strike.glyphOffset[last]", so + 4 + 4 * ng, 4, n);
                    // glyphs that have data
                    let with_data: Vec<(usize, usize, usize)> = (0..ng.min(2000))
                        .filter_map(|g| {
                            let (a, b) = (be32(d, so + 4 + 4 * g)?, be32(d, so + 8 + 4 * g)?);
                            if b > a && b - a >= 10 && so + b <= n {
                                Some((g, so + a, so + b))
                            } else {
                                None
                            }
                        })
                        .collect();
                    if !with_data.is_empty() {
                        let i = rng.usize_below(with_data.len());
                        let (g, a, _b) = with_data[i];
                        f(&mut out, "sbix.glyph.originOffsetX", a, 2, n);
                        f(&mut out, "sbix.glyph.graphicType", a + 4, 4, n);
                        f(&mut out, "sbix.glyph.data", a + 8, 2, n);
                        // `dupe` records: this glyph refers to another glyph's image
                        let dupe = |target: usize| -> Vec<u8> {
                            let mut v = vec![0, 0, 0, 0];
                            v.extend_from_slice(b"dupe");
                            v.extend_from_slice(&(target as u16).to_be_bytes());
                            v
                        };
                        fw(&mut out, "sbix.glyph.dupe.self", a, dupe(g), n);
                        if let Some(&(g2, a2, _)) = with_data.get(i + 1) {
                            // two records that refer to each other (one block write when adjacent)
                            if a2 >= a + 10 && a2 + 10 <= n && a2 - a <= 65536 {
                                let mut span = d[a..a2 + 10].to_vec();
                                span[..10].copy_from_slice(&dupe(g2));
                                let l = span.len();
                                span[l - 10..].copy_from_slice(&dupe(g));
                                fw(&mut out, "sbix.glyph.dupe.cycle", a, span, n);
                            }
                            fw(&mut out, "sbix.glyph.dupe.other", a, dupe(g2), n);
                        }
                    }
                }
            }
        }
        "SVG " => {
            f(&mut out, "SVG.docListOffset", 2, 4, n);
            if let Some(o) = be32(d, 2) {
                f(&mut out, "SVG.numEntries", o, 2, n);
                f(&mut out, "SVG.doc0.startGlyph", o + 2, 2, n);
                f(&mut out, "SVG.doc0.endGlyph", o + 4, 2, n);
                f(&mut out, "SVG.doc0.offset", o + 6, 4, n);
                f(&mut out, "SVG.doc0.length", o + 10, 4, n);
                // lengths that cut a gzip-compressed document inside its 3-byte magic, at the end
                // of its 10-byte header, and before its 8-byte trailer
                let l = *rng.pick(&[3u32, 3, 4, 9, 10, 17, 18]);
                fw(&mut out, "SVG.doc0.lengthInsideGzipFraming", o + 10, l.to_be_bytes().to_vec(), n);
            }
        }
        "CBLC" | "EBLC" => {
            f(&mut out, "CBLC.numSizes", 4, 4, n);
            let sizes = be32(d, 4).unwrap_or(1).clamp(1, 8);
            let z = 8 + 48 * pick_index(rng, sizes);
            f(&mut out, "CBLC.size.indexSubTableArrayOffset", z, 4, n);
            f(&mut out, "CBLC.size.indexTablesSize", z + 4, 4, n);
            f(&mut out, "CBLC.size.numberOfIndexSubTables", z + 8, 4, n);
            f(&mut out, "CBLC.size.startGlyphIndex", z + 40, 2, n);
            f(&mut out, "CBLC.size.endGlyphIndex", z + 42, 2, n);
            f(&mut out, "CBLC.size.ppemX", z + 44, 1, n);
            f(&mut out, "CBLC.size.ppemY", z + 45, 1, n);
            f(&mut out, "CBLC.size.bitDepth", z + 46, 1, n);
            f(&mut out, "CBLC.size.flags", z + 47, 1, n);
            if let Some(a) = be32(d, z) {
                let subs = be32(d, z + 8).unwrap_or(1).clamp(1, 8);
                let e = a + 8 * pick_index(rng, subs);
                f(&mut out, "CBLC.sub.firstGlyph", e, 2, n);
                f(&mut out, "CBLC.sub.lastGlyph", e + 2, 2, n);
                f(&mut out, "CBLC.sub.additionalOffset", e + 4, 4, n);
                if let Some(add) = be32(d, e + 4) {
                    let h = a + add;
                    f(&mut out, "CBLC.sub.indexFormat", h, 2, n);
                    f(&mut out, "CBLC.sub.imageFormat", h + 2, 2, n);
                    f(&mut out, "CBLC.sub.imageDataOffset", h + 4, 4, n);
                    f(&mut out, "CBLC.sub.word0", h + 8, 4, n);
                    f(&mut out, "CBLC.sub.word1", h + 12, 4, n);
                    f(&mut out, "CBLC.sub.word2", h + 16, 4, n);
                    f(&mut out, "CBLC.sub.half", h + 8 + 2 * rng.usize_below(16), 2, n);
                    if matches!(be16(d, h), Some(2) | Some(5)) {
                        // constant metrics of index formats 2 and 5: imageSize, BigGlyphMetrics
                        f(&mut out, "CBLC.sub.imageSize", h + 8, 4, n);
                        f(&mut out, "CBLC.sub.bigMetrics.height", h + 12, 1, n);
                        f(&mut out, "CBLC.sub.bigMetrics.width", h + 13, 1, n);
                    }
                }
            }
        }
        "CBDT" | "EBDT" => {
            f(&mut out, "CBDT.version", 0, 4, n);
            // metrics at the start of the first glyph record (image formats 1, 2, 6, 7, 17, 18)
            f(&mut out, "CBDT.glyph0.height", 4, 1, n);
            f(&mut out, "CBDT.glyph0.width", 5, 1, n);
            let k = rng.usize_below(n.max(1));
            f(&mut out, "CBDT.byte", k, 1, n);
        }
        "morx" => {
            f(&mut out, "morx.version", 0, 2, n);
            f(&mut out, "morx.nChains", 4, 4, n);
            morx_fields(&mut out, d, rng);
        }
        _ => {}
    }
    out
}

fn lookup_table_fields(out: &mut Vec<Field>, d: &[u8], at: usize, prefix: &str, rng: &mut Rng) {
    let n = d.len();
    f(out, &format!("{}.format", prefix), at, 2, n);
    match be16(d, at) {
        Some(0) => {
            f(out, &format!("{}.fmt0.value", prefix), at + 2 + 2 * rng.usize_below(64), 2, n);
        }
        Some(2) | Some(4) | Some(6) => {
            f(out, &format!("{}.bsearch.unitSize", prefix), at + 2, 2, n);
            f(out, &format!("{}.bsearch.nUnits", prefix), at + 4, 2, n);
            f(out, &format!("{}.bsearch.searchRange", prefix), at + 6, 2, n);
            let unit = be16(d, at + 2).unwrap_or(6).max(2);
            let units = be16(d, at + 4).unwrap_or(1).max(1);
            let k = pick_index(rng, units);
            for w in 0..(unit / 2).min(3) {
                f(out, &format!("{}.unit.word{}", prefix, w), at + 12 + unit * k + 2 * w, 2, n);
            }
        }
        Some(8) => {
            f(out, &format!("{}.fmt8.firstGlyph", prefix), at + 2, 2, n);
            f(out, &format!("{}.fmt8.glyphCount", prefix), at + 4, 2, n);
            f(out, &format!("{}.fmt8.value", prefix), at + 6 + 2 * rng.usize_below(32), 2, n);
        }
        Some(10) => {
            f(out, &format!("{}.fmt10.unitSize", prefix), at + 2, 2, n);
            f(out, &format!("{}.fmt10.firstGlyph", prefix), at + 4, 2, n);
            f(out, &format!("{}.fmt10.glyphCount", prefix), at + 6, 2, n);
        }
        _ => {}
    }
}

/// Fields of one (seeded) chain / subtable of a morx table.
fn morx_fields(out: &mut Vec<Field>, d: &[u8], rng: &mut Rng) {
    let n = d.len();
    let nchains = be32(d, 4).unwrap_or(0).min(8);
    if nchains == 0 {
        return;
    }
    let want_chain = rng.usize_below(nchains);
    let mut c = 8;
    for ci in 0..nchains {
        let (Some(clen), Some(nfeat), Some(nsub)) = (be32(d, c + 4), be32(d, c + 8), be32(d, c + 12)) else {
            return;
        };
        if ci == want_chain {
            f(out, "morx.chain.defaultFlags", c, 4, n);
            f(out, "morx.chain.length", c + 4, 4, n);
            f(out, "morx.chain.nFeatures", c + 8, 4, n);
            f(out, "morx.chain.nSubtables", c + 12, 4, n);
            if nfeat > 0 {
                let k = rng.usize_below(nfeat.min(64));
                f(out, "morx.feature.type", c + 16 + 12 * k, 2, n);
                f(out, "morx.feature.setting", c + 18 + 12 * k, 2, n);
                f(out, "morx.feature.enableFlags", c + 20 + 12 * k, 4, n);
                f(out, "morx.feature.disableFlags", c + 24 + 12 * k, 4, n);
            }
            let mut s = c + 16 + 12 * nfeat.min(4096);
            let want_sub = rng.usize_below(nsub.clamp(1, 16));
            for si in 0..nsub.min(16) {
                let (Some(slen), Some(cov)) = (be32(d, s), be32(d, s + 4)) else {
                    return;
                };
                if si == want_sub {
                    f(out, "morx.subtable.length", s, 4, n);
                    f(out, "morx.subtable.coverage", s + 4, 4, n);
                    f(out, "morx.subtable.type", s + 7, 1, n);
                    f(out, "morx.subtable.subFeatureFlags", s + 8, 4, n);
                    let body = s + 12;
                    let kind = cov & 0xff;
                    if kind == 4 {
                        lookup_table_fields(out, d, body, "morx.noncontextual.lookup", rng);
                    } else {
                        f(out, "morx.stx.nClasses", body, 4, n);
                        f(out, "morx.stx.classTableOffset", body + 4, 4, n);
                        f(out, "morx.stx.stateArrayOffset", body + 8, 4, n);
                        f(out, "morx.stx.entryTableOffset", body + 12, 4, n);
                        if kind == 1 {
                            f(out, "morx.contextual.substitutionTableOffset", body + 16, 4, n);
                            if let Some(so) = be32(d, body + 16) {
                                let first = be32(d, body + so).unwrap_or(4);
                                let cnt = (first / 4).max(1);
                                let k = rng.usize_below(cnt.min(16));
                                f(out, "morx.contextual.lookupOffset", body + so + 4 * k, 4, n);
                                if let Some(lo) = be32(d, body + so + 4 * k) {
                                    lookup_table_fields(out, d, body + so + lo, "morx.contextual.lookup", rng);
                                }
                            }
                        } else if kind == 2 {
                            f(out, "morx.ligature.ligActionOffset", body + 16, 4, n);
                            f(out, "morx.ligature.componentOffset", body + 20, 4, n);
                            f(out, "morx.ligature.ligatureListOffset", body + 24, 4, n);
                            if let Some(ao) = be32(d, body + 16) {
                                f(out, "morx.ligature.action", body + ao + 4 * rng.usize_below(12), 4, n);
                            }
                            if let Some(co) = be32(d, body + 20) {
                                f(out, "morx.ligature.component", body + co + 2 * rng.usize_below(24), 2, n);
                            }
                        }
                        if let Some(cto) = be32(d, body + 4) {
                            lookup_table_fields(out, d, body + cto, "morx.class.lookup", rng);
                        }
                        if let (Some(sa), Some(et)) = (be32(d, body + 8), be32(d, body + 12)) {
                            // one cell of the state array, one field of an entry
                            let span = et.saturating_sub(sa).max(2);
                            f(out, "morx.stateArray.cell", body + sa + 2 * rng.usize_below(span / 2), 2, n);
                            let k = rng.usize_below(12);
                            let esize = if kind == 1 { 8 } else { 6 };
                            f(out, "morx.entry.newState", body + et + esize * k, 2, n);
                            f(out, "morx.entry.flags", body + et + esize * k + 2, 2, n);
                            f(out, "morx.entry.index", body + et + esize * k + 4, 2, n);
                        }
                    }
                }
                s += slen.max(12);
                if s >= n {
                    break;
                }
            }
        }
        c += clen.max(16);
        if c >= n {
            return;
        }
    }
}

/// Fields of one glyph of a glyf table, found through the pristine loca offsets.
pub fn locate_glyf(d: &[u8], offsets: &[usize], rng: &mut Rng) -> Vec<Field> {
    let mut out = Vec::new();
    let n = d.len();
    let glyphs: Vec<(usize, usize, usize)> = offsets
        .windows(2)
        .enumerate()
        .filter(|(_, w)| w[1] > w[0] && w[1] <= n && w[1] - w[0] >= 10)
        .map(|(g, w)| (g, w[0], w[1]))
        .collect();
    if glyphs.is_empty() {
        return out;
    }
    let composites: Vec<&(usize, usize, usize)> = glyphs
        .iter()
        .filter(|(_, s, _)| d[*s] & 0x80 != 0)
        .collect();
    let &(g, s, e) = if !composites.is_empty() && rng.pct(45) {
        *rng.pick(&composites)
    } else if rng.pct(70) {
        &glyphs[rng.usize_below(glyphs.len().min(400))]
    } else {
        rng.pick(&glyphs)
    };
    f(&mut out, "glyf.numberOfContours", s, 2, n);
    f(&mut out, "glyf.xMin", s + 2, 2, n);
    f(&mut out, "glyf.yMin", s + 4, 2, n);
    f(&mut out, "glyf.xMax", s + 6, 2, n);
    f(&mut out, "glyf.yMax", s + 8, 2, n);
    let ncont = i16::from_be_bytes([d[s], d[s + 1]]);
    if e - s >= 526 {
        // the largest simple glyph the format allows: one contour of 65535 points, written
        // with 256 repeated flags (on-curve, x and y "same"), no coordinate bytes
        let mut g = Vec::with_capacity(526);
        g.extend_from_slice(&1i16.to_be_bytes());
        g.extend_from_slice(&d[s + 2..s + 10]);
        g.extend_from_slice(&65534u16.to_be_bytes());
        g.extend_from_slice(&0u16.to_be_bytes());
        for _ in 0..256 {
            g.extend_from_slice(&[0x39, 0xFF]);
        }
        fw(&mut out, "glyf.simple.maxPoints", s, g, n);
    }
    if ncont >= 0 {
        let nc = ncont as usize;
        if nc > 0 && s + 10 + 2 * nc + 2 <= e {
            f(&mut out, "glyf.simple.endPt[k]", s + 10 + 2 * pick_index(rng, nc), 2, n);
            f(&mut out, "glyf.simple.endPt[last]", s + 10 + 2 * (nc - 1), 2, n);
            let il = s + 10 + 2 * nc;
            f(&mut out, "glyf.simple.instructionLength", il, 2, n);
            let ilen = be16(d, il).unwrap_or(0);
            let flags = il + 2 + ilen;
            if flags < e {
                f(&mut out, "glyf.simple.flag0", flags, 1, n);
                f(&mut out, "glyf.simple.flagOrCoord", flags + rng.usize_below(e - flags), 1, n);
                f(&mut out, "glyf.simple.lastByte", e - 1, 1, n);
            }
        }
    } else {
        // walk the component records
        let mut comps: Vec<(usize, usize)> = Vec::new(); // (offset of flags, record length)
        let mut p = s + 10;
        loop {
            let Some(flags) = be16(d, p) else { break };
            let mut len = 4 + if flags & 1 != 0 { 4 } else { 2 };
            if flags & 0x8 != 0 {
                len += 2;
            } else if flags & 0x40 != 0 {
                len += 4;
            } else if flags & 0x80 != 0 {
                len += 8;
            }
            if p + len > e {
                break;
            }
            comps.push((p, len));
            p += len;
            if flags & 0x20 == 0 || comps.len() > 64 {
                break;
            }
        }
        if let Some(&(c, len)) = comps.get(rng.usize_below(comps.len().max(1))) {
            f(&mut out, "glyf.component.flags", c, 2, n);
            f(&mut out, "glyf.component.glyphIndex", c + 2, 2, n);
            f(&mut out, "glyf.component.arg", c + 4, 2, n);
            if len > 8 {
                f(&mut out, "glyf.component.scale", c + len - 2, 2, n);
            }
            // a component that refers to the composite itself
            fw(&mut out, "glyf.component.self", c + 2, (g as u16).to_be_bytes().to_vec(), n);
        }
        if let (Some(&(first, _)), Some(&(last, last_len))) = (comps.first(), comps.last()) {
            if comps.len() >= 2 {
                // WE_HAVE_INSTRUCTIONS carried by the first component instead of the last one
                // (readers accept the flag on any component)
                let mut span = d[first..last + last_len].to_vec();
                let lf = last - first;
                let had = span[lf] & 0x01 != 0;
                span[0] |= 0x01;
                span[lf] &= !0x01;
                if had {
                    fw(&mut out, "glyf.composite.instructionsFlagOnFirst", first, span, n);
                }
            }
            // MORE_COMPONENTS on the last record
            let mut fl = d[last..last + 2].to_vec();
            fl[1] |= 0x20;
            fw(&mut out, "glyf.composite.moreComponentsOnLast", last, fl, n);
            // instruction length after the last record
            let after = last + last_len;
            if after + 2 <= e {
                f(&mut out, "glyf.composite.instructionLength", after, 2, n);
            }
        }
    }
    // Fan-out chain: consecutive glyphs g, g+1, ... rewritten (in place, loca untouched) as
    // composites whose every component names the next glyph; the glyph after the chain is left
    // alone. The nesting stays within the recursion limit (6) while the number of leaf visits
    // is the product of the component counts - work out of proportion to the bytes involved.
    {
        let cap = *rng.pick(&[4usize, 16, 64, 4096]);
        let max_levels = 2 + rng.usize_below(5);
        // ARGS_ARE_XY_VALUES, or point matching (arguments are point numbers)
        let xy: u16 = if rng.pct(65) { 0x0002 } else { 0 };
        let mut block: Vec<u8> = Vec::new();
        let mut levels = 0;
        let mut gi = g;
        while levels < max_levels && gi + 2 < offsets.len() {
            let (a, b) = (offsets[gi], offsets[gi + 1]);
            if b <= a || b > n || b - a < 22 || a != s + block.len() {
                break;
            }
            let k = ((b - a - 10) / 6).min(cap);
            let mut gl = Vec::with_capacity(b - a);
            gl.extend_from_slice(&(-1i16).to_be_bytes());
            gl.extend_from_slice(&d[a + 2..a + 10]);
            for j in 0..k {
                let flags: u16 = if j + 1 < k { 0x0020 | xy } else { xy };
                gl.extend_from_slice(&flags.to_be_bytes());
                gl.extend_from_slice(&((gi + 1) as u16).to_be_bytes());
                gl.extend_from_slice(&[0, 0]);
            }
            gl.resize(b - a, 0);
            block.extend_from_slice(&gl);
            levels += 1;
            gi += 1;
        }
        if levels >= 2 {
            fw(&mut out, "glyf.composite.fanoutChain", s, block.clone(), n);
            // same chain ending in an empty glyph (no points, no components: nothing but the
            // visits themselves is left to count)
            let empty = offsets.windows(2).position(|w| w[1] == w[0]).filter(|e| *e < g || *e >= g + levels);
            if let Some(eg) = empty {
                let mut b2 = block.clone();
                let last = offsets[g + levels - 1] - s;
                let mut p = last + 10;
                while p + 6 <= b2.len() {
                    let more = b2[p + 1] & 0x20 != 0;
                    b2[p + 2..p + 4].copy_from_slice(&(eg as u16).to_be_bytes());
                    p += 6;
                    if !more {
                        break;
                    }
                }
                fw(&mut out, "glyf.composite.fanoutChainEmptyLeaf", s, b2, n);
            }
        }
        if levels >= 3 {
            // same chain closed into a cycle that does not pass through the first glyph: the
            // last level names the second glyph of the chain
            let last = offsets[g + levels - 1] - s;
            let mut p = last + 10;
            while p + 6 <= block.len() {
                let more = block[p + 1] & 0x20 != 0;
                block[p + 2..p + 4].copy_from_slice(&((g + 1) as u16).to_be_bytes());
                p += 6;
                if !more {
                    break;
                }
            }
            fw(&mut out, "glyf.composite.cycleBelowRoot", s, block, n);
        }
    }
    // name the glyph, so that the generator can aim outline / subset ops at it
    for fld in &mut out {
        fld.name = format!("{}#g{}", fld.name, g);
    }
    out
}

/// Fields of the container (file-level).
pub fn locate_file(d: &[u8], rng: &mut Rng) -> Vec<Field> {
    let mut out = Vec::new();
    let n = d.len();
    let magic = be32(d, 0).unwrap_or(0) as u32;
    match magic {
        0x7474_6366 => {
            f(&mut out, "ttc.majorVersion", 4, 2, n);
            f(&mut out, "ttc.numFonts", 8, 4, n);
            if let Some(c) = be32(d, 8) {
                let k = pick_index(rng, c);
                f(&mut out, "ttc.offset[k]", 12 + 4 * k, 4, n);
                if let Some(o) = be32(d, 12 + 4 * k) {
                    sfnt_fields(&mut out, d, o, rng);
                }
            }
        }
        0x774F_4646 => {
            f(&mut out, "woff.flavor", 4, 4, n);
            f(&mut out, "woff.length", 8, 4, n);
            f(&mut out, "woff.numTables", 12, 2, n);
            f(&mut out, "woff.reserved", 14, 2, n);
            f(&mut out, "woff.totalSfntSize", 16, 4, n);
            f(&mut out, "woff.metaOffset", 24, 4, n);
            f(&mut out, "woff.metaLength", 28, 4, n);
            f(&mut out, "woff.metaOrigLength", 32, 4, n);
            if let Some(c) = be16(d, 12) {
                let k = pick_index(rng, c);
                let r = 44 + 20 * k;
                f(&mut out, "woff.entry.tag", r, 4, n);
                f(&mut out, "woff.entry.offset", r + 4, 4, n);
                f(&mut out, "woff.entry.compLength", r + 8, 4, n);
                f(&mut out, "woff.entry.origLength", r + 12, 4, n);
                if let Some(o) = be32(d, r + 4) {
                    f(&mut out, "woff.table.firstbytes", o, 2, n);
                }
            }
        }
        0x774F_4632 => {
            f(&mut out, "woff2.flavor", 4, 4, n);
            f(&mut out, "woff2.length", 8, 4, n);
            f(&mut out, "woff2.numTables", 12, 2, n);
            f(&mut out, "woff2.totalSfntSize", 16, 4, n);
            f(&mut out, "woff2.totalCompressedSize", 20, 4, n);
            f(&mut out, "woff2.metaOffset", 28, 4, n);
            f(&mut out, "woff2.metaLength", 32, 4, n);
            let k = rng.usize_below(64);
            f(&mut out, "woff2.directory.byte", 48 + k, 1, n);
            f(&mut out, "woff2.directory.flags0", 48, 1, n);
        }
        _ => sfnt_fields(&mut out, d, 0, rng),
    }
    out
}

fn sfnt_fields(out: &mut Vec<Field>, d: &[u8], base: usize, rng: &mut Rng) {
    let n = d.len();
    f(out, "sfnt.version", base, 4, n);
    f(out, "sfnt.numTables", base + 4, 2, n);
    if let Some(c) = be16(d, base + 4) {
        let k = pick_index(rng, c);
        let r = base + 12 + 16 * k;
        f(out, "sfnt.record.tag", r, 4, n);
        f(out, "sfnt.record.offset", r + 8, 4, n);
        f(out, "sfnt.record.length", r + 12, 4, n);
    }
}

/// Fields inside the decompressed WOFF2 table block (transformed glyf header first).
pub fn locate_woff2_inner(inner_len: usize, glyf_start: Option<usize>, rng: &mut Rng) -> Vec<Field> {
    let mut out = Vec::new();
    if let Some(g) = glyf_start {
        f(&mut out, "woff2.glyf.version", g, 2, inner_len);
        f(&mut out, "woff2.glyf.optionFlags", g + 2, 2, inner_len);
        f(&mut out, "woff2.glyf.numGlyphs", g + 4, 2, inner_len);
        f(&mut out, "woff2.glyf.indexFormat", g + 6, 2, inner_len);
        for (i, name) in [
            "nContourStreamSize",
            "nPointsStreamSize",
            "flagStreamSize",
            "glyphStreamSize",
            "compositeStreamSize",
            "bboxStreamSize",
            "instructionStreamSize",
        ]
        .iter()
        .enumerate()
        {
            f(&mut out, &format!("woff2.glyf.{}", name), g + 8 + 4 * i, 4, inner_len);
        }
        let k = rng.usize_below(256);
        f(&mut out, "woff2.glyf.streambyte", g + 36 + k, 1, inner_len);
    }
    let k = rng.usize_below(inner_len.max(1));
    f(&mut out, "woff2.inner.byte", k, 1, inner_len);
    out
}

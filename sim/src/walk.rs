//! "Table access" ops: typed parse and deep walk of every table allsorts can read.
//! Results are canonical strings; errors are `(class, detail)`.

use std::convert::TryFrom;

use allsorts::binary::read::ReadScope;
use allsorts::bitmap::cbdt::{CBDTTable, CBLCTable};
use allsorts::bitmap::sbix::Sbix;
use allsorts::bitmap::BitDepth;
use allsorts::cff::cff2::CFF2;
use allsorts::cff::CFF;
use allsorts::error::ParseError;
use allsorts::font::read_cmap_subtable;
use allsorts::outline::OutlineBuilder;
use allsorts::layout::{new_layout_cache, GDEFTable, LayoutTable, GPOS, GSUB};
use allsorts::post::PostTable;
use allsorts::tables::cmap::{Cmap, CmapSubtable};
use allsorts::tables::glyf::GlyfTable;
use allsorts::tables::kern::KernTable;
use allsorts::tables::loca::LocaTable;
use allsorts::tables::morx::MorxTable;
use allsorts::tables::os2::Os2;
use allsorts::tables::svg::SvgTable;
use allsorts::tables::variable_fonts::avar::AvarTable;
use allsorts::tables::variable_fonts::cvar::CvarTable;
use allsorts::tables::variable_fonts::fvar::FvarTable;
use allsorts::tables::variable_fonts::gvar::{GvarTable, NumPoints};
use allsorts::tables::variable_fonts::hvar::HvarTable;
use allsorts::tables::variable_fonts::mvar::MvarTable;
use allsorts::tables::variable_fonts::stat::StatTable;
use allsorts::tables::{
    CvtTable, F2Dot14, FontTableProvider, HeadTable, HheaTable, HmtxTable, MaxpTable, NameTable,
};
use allsorts::tag;

use crate::rng::Fnv;
use crate::util::bytes_digest;

pub type WalkErr = (String, String);

struct CountSink(u64);
impl allsorts::outline::OutlineSink for CountSink {
    fn move_to(&mut self, _: allsorts::pathfinder_geometry::vector::Vector2F) {
        crate::util::tick();
        self.0 += 1
    }
    fn line_to(&mut self, _: allsorts::pathfinder_geometry::vector::Vector2F) {
        crate::util::tick();
        self.0 += 1
    }
    fn quadratic_curve_to(
        &mut self,
        _: allsorts::pathfinder_geometry::vector::Vector2F,
        _: allsorts::pathfinder_geometry::vector::Vector2F,
    ) {
        crate::util::tick();
        self.0 += 1
    }
    fn cubic_curve_to(
        &mut self,
        _: allsorts::pathfinder_geometry::line_segment::LineSegment2F,
        _: allsorts::pathfinder_geometry::vector::Vector2F,
    ) {
        crate::util::tick();
        self.0 += 1
    }
    fn close(&mut self) {
        crate::util::tick();
        self.0 += 1
    }
}

/// (first left glyph, count, first right glyph, count) of the format 2 subtables of a version 0
/// `kern` table, from the raw bytes.
fn kern_fmt2_ranges(d: &[u8]) -> Vec<(u16, u16, u16, u16)> {
    let be = |o: usize| -> Option<u16> { d.get(o..o + 2).map(|b| u16::from_be_bytes([b[0], b[1]])) };
    let mut out = Vec::new();
    if be(0) != Some(0) {
        return out;
    }
    let n = be(2).unwrap_or(0);
    let mut s = 4usize;
    for _ in 0..n.min(16) {
        let (Some(len), Some(cov)) = (be(s + 2), be(s + 4)) else { break };
        if cov >> 8 == 2 {
            if let (Some(lo), Some(ro)) = (be(s + 8), be(s + 10)) {
                let (l, r) = (s + usize::from(lo), s + usize::from(ro));
                if let (Some(lf), Some(ln), Some(rf), Some(rn)) = (be(l), be(l + 2), be(r), be(r + 2)) {
                    out.push((lf, ln, rf, rn));
                }
            }
        }
        if len < 6 {
            break;
        }
        s += usize::from(len);
    }
    out
}

fn pe(e: ParseError) -> WalkErr {
    let s = format!("{:?}", e);
    let v: String = s.chars().take_while(|c| c.is_alphanumeric()).collect();
    (v, s)
}

fn data<'p>(p: &'p impl FontTableProvider, t: u32) -> Result<std::borrow::Cow<'p, [u8]>, WalkErr> {
    match p.table_data(t) {
        Ok(Some(d)) => Ok(d),
        Ok(None) => Err(("absent".into(), "absent".into())),
        Err(e) => Err(pe(e)),
    }
}

pub fn os2_summary(t: &Os2) -> String {
    format!(
        "v{} w{} first={} last={}",
        t.version, t.us_weight_class, t.us_first_char_index, t.us_last_char_index
    )
}

const GID_CAP: u16 = 400;

/// A handful of glyph ids worth probing for a font with `n` glyphs.
fn probe_gids(n: u16) -> Vec<u16> {
    let mut v: Vec<u16> = (0..n.min(GID_CAP)).collect();
    for g in [
        n.wrapping_sub(1),
        n,
        n.wrapping_add(1),
        0x7fff,
        0xfffe,
        0xffff,
    ] {
        if !v.contains(&g) {
            v.push(g);
        }
    }
    v
}

fn maxp_head(p: &impl FontTableProvider) -> Result<(MaxpTable, HeadTable), WalkErr> {
    let maxp = ReadScope::new(&data(p, tag::MAXP)?)
        .read::<MaxpTable>()
        .map_err(pe)?;
    let head = ReadScope::new(&data(p, tag::HEAD)?)
        .read::<HeadTable>()
        .map_err(pe)?;
    Ok((maxp, head))
}

pub fn parse_table(p: &impl FontTableProvider, t: u32) -> Result<String, WalkErr> {
    let d = data(p, t)?;
    let scope = ReadScope::new(&d);
    match t {
        tag::HEAD => Ok(format!("{:?}", scope.read::<HeadTable>().map_err(pe)?)),
        tag::HHEA | tag::VHEA => Ok(format!("{:?}", scope.read::<HheaTable>().map_err(pe)?)),
        tag::MAXP => Ok(format!("{:?}", scope.read::<MaxpTable>().map_err(pe)?)),
        tag::HMTX | tag::VMTX => {
            let (maxp, _) = maxp_head(p)?;
            let hea_tag = if t == tag::HMTX { tag::HHEA } else { tag::VHEA };
            let hhea = ReadScope::new(&data(p, hea_tag)?)
                .read::<HheaTable>()
                .map_err(pe)?;
            let hmtx = scope
                .read_dep::<HmtxTable<'_>>((
                    usize::from(maxp.num_glyphs),
                    usize::from(hhea.num_h_metrics),
                ))
                .map_err(pe)?;
            let mut h = Fnv::new();
            for g in probe_gids(maxp.num_glyphs) {
                h.write(format!("{:?}{:?}", hmtx.horizontal_advance(g), hmtx.metric(g)).as_bytes());
            }
            Ok(format!("hmtx {:016x}", h.finish()))
        }
        tag::NAME => {
            let name = scope.read::<NameTable<'_>>().map_err(pe)?;
            let mut h = Fnv::new();
            for id in 0..26u16 {
                h.write(format!("{:?}", name.string_for_id(id)).as_bytes());
            }
            Ok(format!(
                "name records={} {:016x}",
                name.name_records.len(),
                h.finish()
            ))
        }
        tag::OS_2 => {
            let os2 = scope.read_dep::<Os2>(d.len()).map_err(pe)?;
            Ok(os2_summary(&os2))
        }
        tag::POST => {
            let post = scope.read::<PostTable<'_>>().map_err(pe)?;
            let n = maxp_head(p).map(|(m, _)| m.num_glyphs).unwrap_or(300);
            let mut h = Fnv::new();
            for g in probe_gids(n) {
                h.write(format!("{:?}", post.glyph_name(g)).as_bytes());
            }
            Ok(format!("post v{:08x} {:016x}", post.header.version, h.finish()))
        }
        tag::CVT => {
            let cvt = scope.read_dep::<CvtTable<'_>>(d.len() as u32).map_err(pe)?;
            Ok(format!("cvt {}", cvt.values.len()))
        }
        tag::LOCA => {
            let (maxp, head) = maxp_head(p)?;
            let loca = scope
                .read_dep::<LocaTable<'_>>((usize::from(maxp.num_glyphs), head.index_to_loc_format))
                .map_err(pe)?;
            let mut h = Fnv::new();
            for o in loca.offsets.iter() {
                h.write_u64(u64::from(o));
            }
            Ok(format!("loca {} {:016x}", loca.offsets.len(), h.finish()))
        }
        tag::GLYF => {
            let (maxp, head) = maxp_head(p)?;
            let loca_data = data(p, tag::LOCA)?;
            let loca = ReadScope::new(&loca_data)
                .read_dep::<LocaTable<'_>>((usize::from(maxp.num_glyphs), head.index_to_loc_format))
                .map_err(pe)?;
            let mut glyf = scope.read_dep::<GlyfTable<'_>>(&loca).map_err(pe)?;
            let mut h = Fnv::new();
            let n = glyf.num_glyphs();
            let mut errs = 0;
            for g in 0..n.min(GID_CAP) {
                match glyf.get_parsed_glyph(g) {
                    Ok(glyph) => h.write(
                        format!(
                            "{}:{:?}",
                            glyph.number_of_contours(),
                            glyph.bounding_box()
                        )
                        .as_bytes(),
                    ),
                    Err(e) => {
                        errs += 1;
                        h.write(format!("{:?}", e).as_bytes())
                    }
                }
            }
            Ok(format!("glyf n={} errs={} {:016x}", n, errs, h.finish()))
        }
        tag::CMAP => {
            let cmap = scope.read::<Cmap<'_>>().map_err(pe)?;
            let mut h = Fnv::new();
            let mut subtables = 0;
            for rec in cmap.encoding_records() {
                h.write(format!("{}:{}:{}", rec.platform_id.0, rec.encoding_id.0, rec.offset).as_bytes());
                let off = match usize::try_from(rec.offset) {
                    Ok(o) => o,
                    Err(_) => continue,
                };
                match cmap.scope.offset(off).read::<CmapSubtable<'_>>() {
                    Ok(sub) => {
                        subtables += 1;
                        for c in [0u32, 0x20, 0x41, 0xff, 0x100, 0x25cc, 0xffff, 0x10000, 0x10ffff] {
                            h.write(format!("{:?}", sub.map_glyph(c)).as_bytes());
                        }
                    }
                    Err(e) => h.write(format!("{:?}", e).as_bytes()),
                }
            }
            Ok(format!("cmap subtables={} {:016x}", subtables, h.finish()))
        }
        tag::KERN => {
            let kern = scope.read::<KernTable<'_>>().map_err(pe)?;
            let mut h = Fnv::new();
            let mut n = 0;
            for sub in kern.sub_tables() {
                match sub {
                    Ok(sub) => {
                        n += 1;
                        h.write(
                            format!(
                                "{}{}{}{}",
                                sub.is_horizontal(),
                                sub.is_minimum(),
                                sub.is_cross_stream(),
                                sub.is_override()
                            )
                            .as_bytes(),
                        );
                        for (l, r) in [(0u16, 0u16), (1, 2), (36, 55), (0xffff, 0xffff)] {
                            h.write(format!("{:?}", sub.data().lookup(l, r)).as_bytes());
                        }
                        // every pair of the glyphs a class-based (format 2) subtable covers, and
                        // one glyph beyond each range (ranges read from the raw bytes: the
                        // parsed form keeps them private)
                        for (lf, ln, rf, rn) in kern_fmt2_ranges(&d).into_iter().take(4) {
                            for l in lf..=lf.saturating_add(ln.min(300)) {
                                for r in rf..=rf.saturating_add(rn.min(300)) {
                                    crate::util::tick();
                                    if let Some(v) = sub.data().lookup(l, r) {
                                        h.write(&v.to_be_bytes());
                                    }
                                }
                            }
                        }
                    }
                    Err(e) => {
                        h.write(format!("{:?}", e).as_bytes());
                        break;
                    }
                }
            }
            let owned = kern.to_owned();
            let _ = owned;
            Ok(format!("kern subtables={} {:016x}", n, h.finish()))
        }
        tag::GDEF => {
            let gdef = scope.read::<GDEFTable>().map_err(pe)?;
            let mut h = Fnv::new();
            for g in probe_gids(300) {
                h.write_u64(u64::from(allsorts::gdef::glyph_class(Some(&gdef), g)));
                h.write_u64(u64::from(allsorts::gdef::mark_attach_class(Some(&gdef), g)));
                h.write_u64(u64::from(allsorts::gdef::glyph_is_mark_in_set(
                    Some(&gdef),
                    g,
                    0,
                )));
            }
            Ok(format!("gdef {:016x}", h.finish()))
        }
        tag::GSUB => {
            let table = scope.read::<LayoutTable<GSUB>>().map_err(pe)?;
            let count = lookup_count(&d);
            let cache = new_layout_cache::<GSUB>(table);
            let mut h = Fnv::new();
            let mut errs = 0;
            walk_scripts(&cache.layout_table, &mut h);
            if let Some(list) = &cache.layout_table.opt_lookup_list {
                for i in 0..count {
                    match list.lookup_cache_gsub(&cache, i) {
                        Ok(item) => h.write_u64(u64::from(item.lookup_flag.0)),
                        Err(e) => {
                            errs += 1;
                            h.write(format!("{:?}", e).as_bytes())
                        }
                    }
                }
            }
            Ok(format!(
                "gsub lookups={} errs={} {:016x}",
                count,
                errs,
                h.finish()
            ))
        }
        tag::GPOS => {
            let table = scope.read::<LayoutTable<GPOS>>().map_err(pe)?;
            let count = lookup_count(&d);
            let cache = new_layout_cache::<GPOS>(table);
            let mut h = Fnv::new();
            let mut errs = 0;
            walk_scripts(&cache.layout_table, &mut h);
            if let Some(list) = &cache.layout_table.opt_lookup_list {
                for i in 0..count {
                    match list.lookup_cache_gpos(&cache, i) {
                        Ok(item) => h.write_u64(u64::from(item.lookup_flag.0)),
                        Err(e) => {
                            errs += 1;
                            h.write(format!("{:?}", e).as_bytes())
                        }
                    }
                }
            }
            Ok(format!(
                "gpos lookups={} errs={} {:016x}",
                count,
                errs,
                h.finish()
            ))
        }
        tag::MORX => {
            let n = maxp_head(p).map(|(m, _)| m.num_glyphs).unwrap_or(0);
            let morx = scope.read_dep::<MorxTable<'_>>(n).map_err(pe)?;
            Ok(format!("morx chains={}", morx.chains.len()))
        }
        tag::FVAR => {
            let fvar = scope.read::<FvarTable<'_>>().map_err(pe)?;
            let mut h = Fnv::new();
            for a in fvar.axes() {
                h.write(format!("{:?}", a).as_bytes());
            }
            let mut inst = 0;
            for i in fvar.instances() {
                inst += 1;
                match i {
                    Ok(i) => h.write(format!("{:?}", i.subfamily_name_id).as_bytes()),
                    Err(e) => h.write(format!("{:?}", e).as_bytes()),
                }
                if inst > 2000 {
                    break;
                }
            }
            let axis_count = usize::from(fvar.axis_count());
            let avar_data = p.table_data(tag::AVAR).ok().flatten();
            let avar = avar_data
                .as_ref()
                .and_then(|d| ReadScope::new(d).read::<AvarTable<'_>>().ok());
            for raw in [i32::MIN, -65536, 0, 1, 65536, 400 << 16, 900 << 16, i32::MAX] {
                let user = vec![allsorts::tables::Fixed::from_raw(raw); axis_count];
                h.write(
                    format!("{:?}", fvar.normalize(user.iter().copied(), avar.as_ref())).as_bytes(),
                );
            }
            Ok(format!(
                "fvar axes={} instances={} {:016x}",
                axis_count,
                inst,
                h.finish()
            ))
        }
        tag::AVAR => {
            let avar = scope.read::<AvarTable<'_>>().map_err(pe)?;
            let mut h = Fnv::new();
            let mut n = 0;
            for m in avar.segment_maps() {
                n += 1;
                for v in m.axis_value_mappings() {
                    h.write(format!("{:?}", v).as_bytes());
                }
                for raw in [-65536, -32768, 0, 1, 32768, 65536] {
                    h.write(
                        format!("{:?}", m.normalize(allsorts::tables::Fixed::from_raw(raw)))
                            .as_bytes(),
                    );
                }
                if n > 1000 {
                    break;
                }
            }
            Ok(format!("avar maps={} {:016x}", n, h.finish()))
        }
        tag::GVAR => {
            let gvar = scope.read::<GvarTable<'_>>().map_err(pe)?;
            let mut h = Fnv::new();
            let n = maxp_head(p).map(|(m, _)| m.num_glyphs).unwrap_or(16);
            let mut errs = 0;
            for g in probe_gids(n.min(64)) {
                match gvar.glyph_variation_data(g, NumPoints::new(8)) {
                    Ok(Some(store)) => {
                        let mut k = 0;
                        for hdr in store.headers() {
                            k += 1;
                            h.write(format!("{:?}", hdr.peak_tuple(&gvar).is_ok()).as_bytes());
                            if k > 200 {
                                break;
                            }
                        }
                    }
                    Ok(None) => h.write(b"none"),
                    Err(e) => {
                        errs += 1;
                        h.write(format!("{:?}", e).as_bytes())
                    }
                }
            }
            for i in [0u16, 1, 0xffff] {
                h.write(format!("{:?}", gvar.shared_tuple(i).is_ok()).as_bytes());
            }
            Ok(format!("gvar errs={} {:016x}", errs, h.finish()))
        }
        tag::HVAR => {
            let hvar = scope.read::<HvarTable<'_>>().map_err(pe)?;
            let mut h = Fnv::new();
            if let Some(t) = unit_tuple(p) {
                for g in [0u16, 1, 2, 100, 0xffff] {
                    h.write(format!("{:?}", hvar.advance_delta(&t, g)).as_bytes());
                    h.write(format!("{:?}", hvar.left_side_bearing_delta(&t, g)).as_bytes());
                    h.write(format!("{:?}", hvar.right_side_bearing_delta(&t, g)).as_bytes());
                }
            }
            Ok(format!("hvar {:016x}", h.finish()))
        }
        tag::MVAR => {
            let mvar = scope.read::<MvarTable<'_>>().map_err(pe)?;
            let mut h = Fnv::new();
            let t = unit_tuple(p);
            let mut n = 0;
            for r in mvar.value_records() {
                n += 1;
                if let Some(t) = &t {
                    h.write(format!("{:?}", mvar.lookup(r.value_tag, t)).as_bytes());
                }
                if n > 2000 {
                    break;
                }
            }
            Ok(format!("mvar records={} {:016x}", n, h.finish()))
        }
        tag::STAT => {
            let stat = scope.read::<StatTable<'_>>().map_err(pe)?;
            let mut h = Fnv::new();
            let mut n = 0;
            for a in stat.design_axes() {
                n += 1;
                h.write(format!("{:?}", a).as_bytes());
                if n > 2000 {
                    break;
                }
            }
            let mut k = 0;
            for t in stat.axis_value_tables() {
                k += 1;
                match t {
                    Ok(t) => h.write(format!("{:?}", t.value_name_id()).as_bytes()),
                    Err(e) => h.write(format!("{:?}", e).as_bytes()),
                }
                if k > 2000 {
                    break;
                }
            }
            Ok(format!("stat axes={} values={} {:016x}", n, k, h.finish()))
        }
        tag::CVAR => {
            let fvar_d = data(p, tag::FVAR)?;
            let fvar = ReadScope::new(&fvar_d)
                .read::<FvarTable<'_>>()
                .map_err(pe)?;
            let cvt_d = data(p, tag::CVT)?;
            let n_cvt = (cvt_d.len() / 2) as u32;
            let cvar = scope
                .read_dep::<CvarTable<'_>>((fvar.axis_count(), n_cvt))
                .map_err(pe)?;
            let _ = cvar;
            Ok("cvar".into())
        }
        tag::SVG => {
            let svg = scope.read::<SvgTable<'_>>().map_err(pe)?;
            let mut h = Fnv::new();
            for g in probe_gids(64) {
                match svg.lookup_glyph(g) {
                    Ok(Some(r)) => h.write(format!("{}..{}", r.start_glyph_id, r.end_glyph_id).as_bytes()),
                    Ok(None) => h.write(b"none"),
                    Err(e) => h.write(format!("{:?}", e).as_bytes()),
                }
            }
            Ok(format!("svg {:016x}", h.finish()))
        }
        tag::SBIX => {
            let n = maxp_head(p).map(|(m, _)| m.num_glyphs).unwrap_or(0);
            let sbix = scope.read_dep::<Sbix<'_>>(usize::from(n)).map_err(pe)?;
            let mut h = Fnv::new();
            for g in probe_gids(n.min(32)) {
                for ppem in [0u16, 20, 128, 0xffff] {
                    if let Some(strike) = sbix.find_strike(g, ppem, BitDepth::ThirtyTwo) {
                        match strike.read_glyph(g) {
                            Ok(Some(gl)) => h.write(&gl.graphic_type.to_be_bytes()),
                            Ok(None) => h.write(b"none"),
                            Err(e) => h.write(format!("{:?}", e).as_bytes()),
                        }
                    }
                }
            }
            Ok(format!("sbix strikes={} {:016x}", sbix.strikes.len(), h.finish()))
        }
        tag::CBLC | tag::EBLC => {
            let cblc = scope.read::<CBLCTable<'_>>().map_err(pe)?;
            let dat_tag = if t == tag::CBLC { tag::CBDT } else { tag::EBDT };
            let mut h = Fnv::new();
            let cbdt_d = p.table_data(dat_tag).ok().flatten();
            let cbdt = cbdt_d
                .as_ref()
                .and_then(|d| ReadScope::new(d).read::<CBDTTable<'_>>().ok());
            for g in probe_gids(64) {
                for ppem in [0u8, 12, 109, 255] {
                    for depth in [BitDepth::One, BitDepth::ThirtyTwo] {
                        if let Some(strike) = cblc.find_strike(g, ppem, depth) {
                            h.write(b"s");
                            if let Some(cbdt) = &cbdt {
                                match strike.bitmap(cbdt) {
                                    Ok(b) => h.write(format!("{}", b.is_some()).as_bytes()),
                                    Err(e) => h.write(format!("{:?}", e).as_bytes()),
                                }
                            }
                        }
                    }
                }
            }
            Ok(format!(
                "cblc sizes={} {:016x}",
                cblc.bitmap_sizes.len(),
                h.finish()
            ))
        }
        tag::CBDT | tag::EBDT => {
            let t = scope.read::<CBDTTable<'_>>().map_err(pe)?;
            Ok(format!("cbdt v{}.{}", t.major_version, t.minor_version))
        }
        tag::CFF => {
            let mut cff = scope.read::<CFF<'_>>().map_err(pe)?;
            let mut h = Fnv::new();
            // enumeration of the charset (`CustomCharset::iter` borrows for the lifetime of the
            // data, hence a table object of its own; bounded: a range may span 65536 ids)
            let cff_b = scope.read::<CFF<'_>>().map_err(pe)?;
            if let Some(allsorts::cff::Charset::Custom(custom)) = cff_b.fonts.first().map(|f| &f.charset) {
                let mut k = 0u32;
                for id in custom.iter().take(70_000) {
                    k = k.wrapping_mul(31).wrapping_add(u32::from(id));
                }
                h.write(&k.to_be_bytes());
            }
            let mut errs = 0;
            let n = cff
                .fonts
                .first()
                .map(|f| f.char_strings_index.len())
                .unwrap_or(0)
                .min(256) as u16;
            if let Some(font) = cff.fonts.first() {
                h.write(format!("cid={}", font.is_cid_keyed()).as_bytes());
                for g in probe_gids(n) {
                    h.write(format!("{:?}", font.charset.id_for_glyph(g)).as_bytes());
                }
                for sid in [0u16, 1, 390, 391, 400, 0xffff] {
                    h.write(format!("{:?}", font.charset.sid_to_gid(sid)).as_bytes());
                    h.write(format!("{:?}", cff.read_string(sid).is_ok()).as_bytes());
                }
            }
            for g in 0..n {
                let mut sink = CountSink(0);
                match cff.visit(g, &mut sink) {
                    Ok(()) => h.write_u64(sink.0),
                    Err(e) => {
                        errs += 1;
                        h.write(format!("{:?}", e).as_bytes())
                    }
                }
            }
            Ok(format!(
                "cff fonts={} names={} visited={} errs={} {:016x}",
                cff.fonts.len(),
                cff.name_index.len(),
                n,
                errs,
                h.finish()
            ))
        }
        tag::CFF2 => {
            let cff2 = scope.read::<CFF2<'_>>().map_err(pe)?;
            let mut h = Fnv::new();
            let mut errs = 0;
            let n = cff2.char_strings_index.len().min(256) as u16;
            let tuple = unit_tuple(p);
            for (k, t) in [None, tuple.as_ref()].into_iter().enumerate() {
                if k == 1 && t.is_none() {
                    break;
                }
                let mut o = allsorts::cff::outline::CFF2Outlines { table: &cff2, tuple: t };
                for g in 0..n {
                    let mut sink = CountSink(0);
                    match o.visit(g, &mut sink) {
                        Ok(()) => h.write_u64(sink.0),
                        Err(e) => {
                            errs += 1;
                            h.write(format!("{:?}", e).as_bytes())
                        }
                    }
                }
            }
            Ok(format!(
                "cff2 fonts={} visited={} errs={} {:016x}",
                cff2.fonts.len(),
                n,
                errs,
                h.finish()
            ))
        }
        _ => Ok(format!("raw {}", bytes_digest(&d))),
    }
}

fn unit_tuple(
    p: &impl FontTableProvider,
) -> Option<allsorts::tables::variable_fonts::fvar::OwnedTuple> {
    let d = p.table_data(tag::FVAR).ok()??;
    let fvar = ReadScope::new(&d).read::<FvarTable<'_>>().ok()?;
    let vals = vec![F2Dot14::from_raw(0x4000); usize::from(fvar.axis_count())];
    fvar.owned_tuple(&vals)
}

/// Lookup count read straight from the bytes (the library keeps it private).
fn lookup_count(d: &[u8]) -> usize {
    let off = match d.get(8..10) {
        Some(b) => usize::from(u16::from_be_bytes([b[0], b[1]])),
        None => return 0,
    };
    match d.get(off..off + 2) {
        Some(b) => usize::from(u16::from_be_bytes([b[0], b[1]])).min(3000),
        None => 0,
    }
}

fn walk_scripts<T>(table: &LayoutTable<T>, h: &mut Fnv) {
    if let Some(sl) = &table.opt_script_list {
        for rec in sl.script_records() {
            h.write_u64(u64::from(rec.script_tag));
            let st = rec.script_table();
            if let Some(ls) = st.default_langsys_record() {
                for fi in ls.feature_indices_iter() {
                    h.write(format!("{:?}", table.feature_by_index(*fi).map(|f| f.feature_tag)).as_bytes());
                }
            }
            for lr in st.langsys_records() {
                h.write_u64(u64::from(lr.langsys_tag));
                for fi in lr.langsys_table().feature_indices_iter() {
                    h.write(format!("{:?}", table.feature_by_index(*fi).map(|f| f.feature_tag)).as_bytes());
                }
            }
        }
    }
}

pub fn cmap_ops(
    p: &impl FontTableProvider,
    codes: &[u32],
    enumerate: bool,
) -> Result<String, WalkErr> {
    let d = data(p, tag::CMAP)?;
    let cmap = ReadScope::new(&d).read::<Cmap<'_>>().map_err(pe)?;
    let (enc, sub) = match read_cmap_subtable(&cmap).map_err(pe)? {
        Some(x) => x,
        None => return Ok("no-suitable-subtable".into()),
    };
    let mut h = Fnv::new();
    for c in codes {
        h.write(format!("{:?}", sub.map_glyph(*c)).as_bytes());
    }
    let mut out = format!("enc={:?} lookups={:016x}", enc, h.finish());
    if enumerate {
        match sub.mappings() {
            Ok(m) => {
                let mut v: Vec<(u16, u32)> = m.into_iter().collect();
                v.sort_unstable();
                let mut h = Fnv::new();
                for (g, c) in &v {
                    h.write_u64(u64::from(*g) << 32 | u64::from(*c));
                }
                out.push_str(&format!(" mappings={} {:016x}", v.len(), h.finish()));
            }
            Err(e) => out.push_str(&format!(" mappings=Err({:?})", e)),
        }
        let mut n = 0u64;
        let mut h = Fnv::new();
        let r = sub.mappings_fn(|c, g| {
            crate::util::tick();
            n += 1;
            h.write_u64(u64::from(g) << 32 | u64::from(c));
        });
        out.push_str(&format!(" fn={:?} n={} {:016x}", r, n, h.finish()));
        if let Some(owned) = sub.to_owned() {
            let mut h = Fnv::new();
            for c in codes {
                h.write(format!("{:?}", owned.map_glyph(*c)).as_bytes());
            }
            out.push_str(&format!(" owned={:016x}", h.finish()));
        }
    }
    Ok(out)
}

pub fn names(p: &impl FontTableProvider, ids: &[u16]) -> Result<String, WalkErr> {
    let d = data(p, tag::NAME)?;
    let name = ReadScope::new(&d).read::<NameTable<'_>>().map_err(pe)?;
    let mut h = Fnv::new();
    for id in ids {
        h.write(format!("{:?}", name.string_for_id(*id)).as_bytes());
        h.write(format!("{:?}", allsorts::get_name::fontcode_get_name(&d, *id)).as_bytes());
    }
    Ok(format!("names {:016x}", h.finish()))
}

//! C14 reader-API simulation (placeholder, filled in below).
use crate::trace::Trace;
use std::io::Write;

pub fn replay(_trace: &Trace, _verbose: bool) -> i32 {
    2
}

pub fn campaign(
    _seed: u64,
    _start: u64,
    _count: u64,
    _stride: u64,
    _secs: f64,
    _digests: bool,
    _out: &mut Box<dyn Write>,
) -> i32 {
    2
}

//! C14: op-sequence simulation of the binary reader against a reference cursor.
//!
//! A program is a byte buffer, a cut point (the window handed to the library is
//! `buffer[..cut]`; the bytes after it are poison, or absent in exact-allocation mode) and a
//! list of reader operations over a pool of live scopes, contexts and arrays. After every
//! operation the library's outcome is compared with a ~200-line safe reference model
//! (`slice::get`, `from_be_bytes`, checked arithmetic).

use std::cmp::Ordering;
use std::collections::BTreeSet;
use std::io::Write;

use serde::{Deserialize, Serialize};
use serde_json::json;

use allsorts::binary::read::{
    CheckIndex, ReadArray, ReadArrayCow, ReadBinaryDep, ReadBuf, ReadCtxt, ReadFixedSizeDep,
    ReadFrom, ReadScope, ReadUnchecked,
};
use allsorts::binary::{I16Be, I32Be, I64Be, U16Be, U24Be, U32Be, U64Be, I8, U8};
use allsorts::error::ParseError;
use allsorts::tables::{F2Dot14, Fixed, LongHorMetric};

use crate::rng::{run_seed, Fnv, Rng};
use crate::util::guard;

#[derive(Serialize, Deserialize, Clone, Copy, Debug, PartialEq, Eq, PartialOrd, Ord)]
pub enum Ty {
    U8,
    I8,
    U16,
    I16,
    U24,
    U32,
    I32,
    U64,
    I64,
    Pair,
    Triple,
    Quad,
    F2Dot14,
    Fixed,
    Lhm,
    Own,
}

const ALL_TY: &[Ty] = &[
    Ty::U8,
    Ty::I8,
    Ty::U16,
    Ty::I16,
    Ty::U24,
    Ty::U32,
    Ty::I32,
    Ty::U64,
    Ty::I64,
    Ty::Pair,
    Ty::Triple,
    Ty::Quad,
    Ty::F2Dot14,
    Ty::Fixed,
    Ty::Lhm,
    Ty::Own,
];

/// The harness' own `ReadFrom` struct: a U24Be followed by an I8.
#[derive(Clone, Copy, Debug)]
pub struct OwnRec {
    a: u32,
    b: i8,
}
impl ReadFrom for OwnRec {
    type ReadType = (U24Be, I8);
    fn read_from((a, b): (u32, i8)) -> Self {
        OwnRec { a, b }
    }
}

/// The harness' own `ReadFixedSizeDep` type: `k` bytes read through the checked API.
pub struct DepRec;
impl ReadBinaryDep for DepRec {
    type Args<'a> = usize;
    type HostType<'a> = u64;
    fn read_dep<'a>(ctxt: &mut ReadCtxt<'a>, k: usize) -> Result<u64, ParseError> {
        let mut v = 0u64;
        for _ in 0..k {
            v = (v << 8) | u64::from(ctxt.read_u8()?);
        }
        Ok(v)
    }
}
impl ReadFixedSizeDep for DepRec {
    fn size(k: usize) -> usize {
        k
    }
}

impl Ty {
    /// Component (width, signed) list.
    fn comps(self) -> &'static [(usize, bool)] {
        match self {
            Ty::U8 => &[(1, false)],
            Ty::I8 => &[(1, true)],
            Ty::U16 => &[(2, false)],
            Ty::I16 | Ty::F2Dot14 => &[(2, true)],
            Ty::U24 => &[(3, false)],
            Ty::U32 => &[(4, false)],
            Ty::I32 | Ty::Fixed => &[(4, true)],
            Ty::U64 => &[(8, false)],
            Ty::I64 => &[(8, true)],
            Ty::Pair => &[(2, false), (2, false)],
            Ty::Triple => &[(1, false), (2, false), (4, false)],
            Ty::Quad => &[(1, false), (1, true), (2, true), (3, false)],
            Ty::Lhm => &[(2, false), (2, true)],
            Ty::Own => &[(3, false), (1, true)],
        }
    }
    fn size(self) -> usize {
        self.comps().iter().map(|c| c.0).sum()
    }
}

/// Model decode: big-endian components at the start of `b` (caller guarantees the length).
fn decode(ty: Ty, b: &[u8]) -> String {
    let mut parts = Vec::new();
    let mut p = 0;
    for &(w, signed) in ty.comps() {
        let mut raw = [0u8; 8];
        raw[8 - w..].copy_from_slice(&b[p..p + w]);
        let u = u64::from_be_bytes(raw);
        p += w;
        if signed {
            let shift = 64 - 8 * w as u32;
            parts.push(format!("{}", ((u << shift) as i64) >> shift));
        } else {
            parts.push(format!("{}", u));
        }
    }
    if parts.len() == 1 {
        parts.pop().unwrap()
    } else {
        format!("({})", parts.join(", "))
    }
}

trait Canon {
    fn canon(&self) -> String;
}
macro_rules! canon_int {
    ($($t:ty),*) => {$(impl Canon for $t { fn canon(&self) -> String { format!("{}", self) } })*};
}
canon_int!(u8, i8, u16, i16, u32, i32, u64, i64);
impl<A: Canon, B: Canon> Canon for (A, B) {
    fn canon(&self) -> String {
        format!("({}, {})", self.0.canon(), self.1.canon())
    }
}
impl<A: Canon, B: Canon, C: Canon> Canon for (A, B, C) {
    fn canon(&self) -> String {
        format!("({}, {}, {})", self.0.canon(), self.1.canon(), self.2.canon())
    }
}
impl<A: Canon, B: Canon, C: Canon, D: Canon> Canon for (A, B, C, D) {
    fn canon(&self) -> String {
        format!(
            "({}, {}, {}, {})",
            self.0.canon(),
            self.1.canon(),
            self.2.canon(),
            self.3.canon()
        )
    }
}
impl Canon for F2Dot14 {
    fn canon(&self) -> String {
        format!("{}", self.raw_value())
    }
}
impl Canon for Fixed {
    fn canon(&self) -> String {
        format!("{}", self.raw_value())
    }
}
impl Canon for LongHorMetric {
    fn canon(&self) -> String {
        format!("({}, {})", self.advance_width, self.lsb)
    }
}
impl Canon for OwnRec {
    fn canon(&self) -> String {
        format!("({}, {})", self.a, self.b)
    }
}

type TPair = (U16Be, U16Be);
type TTriple = (U8, U16Be, U32Be);
type TQuad = (U8, I8, I16Be, U24Be);

/// Dispatch a generic body over the static type selected by a `Ty` value.
macro_rules! with_ty {
    ($ty:expr, $T:ident, $body:expr) => {
        match $ty {
            Ty::U8 => { type $T = U8; $body }
            Ty::I8 => { type $T = I8; $body }
            Ty::U16 => { type $T = U16Be; $body }
            Ty::I16 => { type $T = I16Be; $body }
            Ty::U24 => { type $T = U24Be; $body }
            Ty::U32 => { type $T = U32Be; $body }
            Ty::I32 => { type $T = I32Be; $body }
            Ty::U64 => { type $T = U64Be; $body }
            Ty::I64 => { type $T = I64Be; $body }
            Ty::Pair => { type $T = TPair; $body }
            Ty::Triple => { type $T = TTriple; $body }
            Ty::Quad => { type $T = TQuad; $body }
            Ty::F2Dot14 => { type $T = F2Dot14; $body }
            Ty::Fixed => { type $T = Fixed; $body }
            Ty::Lhm => { type $T = LongHorMetric; $body }
            Ty::Own => { type $T = OwnRec; $body }
        }
    };
}

enum Arr<'a> {
    U8(ReadArray<'a, U8>),
    I8(ReadArray<'a, I8>),
    U16(ReadArray<'a, U16Be>),
    I16(ReadArray<'a, I16Be>),
    U24(ReadArray<'a, U24Be>),
    U32(ReadArray<'a, U32Be>),
    I32(ReadArray<'a, I32Be>),
    U64(ReadArray<'a, U64Be>),
    I64(ReadArray<'a, I64Be>),
    Pair(ReadArray<'a, TPair>),
    Triple(ReadArray<'a, TTriple>),
    Quad(ReadArray<'a, TQuad>),
    F2Dot14(ReadArray<'a, F2Dot14>),
    Fixed(ReadArray<'a, Fixed>),
    Lhm(ReadArray<'a, LongHorMetric>),
    Own(ReadArray<'a, OwnRec>),
    Dep(ReadArray<'a, DepRec>),
}

trait IntoArr<'a>: ReadUnchecked + Sized {
    fn wrap(a: ReadArray<'a, Self>) -> Arr<'a>;
}
macro_rules! into_arr {
    ($($t:ty => $v:ident),*) => {$(impl<'a> IntoArr<'a> for $t { fn wrap(a: ReadArray<'a, Self>) -> Arr<'a> { Arr::$v(a) } })*};
}
into_arr!(U8 => U8, I8 => I8, U16Be => U16, I16Be => I16, U24Be => U24, U32Be => U32, I32Be => I32,
          U64Be => U64, I64Be => I64, TPair => Pair, TTriple => Triple, TQuad => Quad,
          F2Dot14 => F2Dot14, Fixed => Fixed, LongHorMetric => Lhm, OwnRec => Own);

macro_rules! with_arr {
    ($arr:expr, $a:ident, $body:expr, $dep:expr) => {
        match $arr {
            Arr::U8($a) => $body,
            Arr::I8($a) => $body,
            Arr::U16($a) => $body,
            Arr::I16($a) => $body,
            Arr::U24($a) => $body,
            Arr::U32($a) => $body,
            Arr::I32($a) => $body,
            Arr::U64($a) => $body,
            Arr::I64($a) => $body,
            Arr::Pair($a) => $body,
            Arr::Triple($a) => $body,
            Arr::Quad($a) => $body,
            Arr::F2Dot14($a) => $body,
            Arr::Fixed($a) => $body,
            Arr::Lhm($a) => $body,
            Arr::Own($a) => $body,
            Arr::Dep($a) => $dep,
        }
    };
}

#[derive(Serialize, Deserialize, Clone, Debug)]
#[serde(tag = "op")]
pub enum ROp {
    NewScope,
    ReadBufScope { owned: bool },
    ScopeOffset { s: usize, n: usize },
    ScopeOffsetLength { s: usize, off: usize, len: usize },
    ScopeCtxt { s: usize },
    ScopeRead { s: usize, ty: Ty },
    CtxtRead { c: usize, ty: Ty, generic: bool },
    CtxtReadArray { c: usize, ty: Ty, len: usize },
    CtxtReadArrayStride { c: usize, ty: Ty, len: usize, stride: usize },
    CtxtReadArrayUpto { c: usize, ty: Ty, len: usize },
    CtxtReadArrayDep { c: usize, size: usize, len: usize },
    CtxtReadScope { c: usize, len: usize },
    CtxtReadSlice { c: usize, len: usize },
    CtxtUntilNibble { c: usize, nib: u8 },
    CtxtScope { c: usize },
    CtxtAvail { c: usize },
    CtxtClone { c: usize },
    ArrInfo { a: usize },
    /// via: 0 read_item, 1 get_item, 2 check_index, 3 cow read_item, 4 cow get_item,
    /// 5 Vec check_index, 6 cow(borrowed) check_index, 7 cow(owned) check_index
    ArrItem { a: usize, i: usize, via: u8 },
    /// via: 0 to_vec, 1 read_to_vec, 2 iter, 3 iter_res, 4 cow(borrowed) iter, 5 into_iter,
    /// 6 cow(owned) iter
    ArrAll { a: usize, via: u8 },
    ArrSearch { a: usize, pick: usize, delta: i8 },
    /// A fixed-size record type of the library itself (`ReadFixedSizeDep`), read from an
    /// all-zero buffer of `declared size + extra` bytes: the declared size must be what the
    /// specification says and exactly what a successful read consumes.
    /// which: 0 ValueRecord(a), 1 PairValueRecord(a, b), 2 Class2Record(a, b), 3 Class1Record(n; a, b),
    /// 4 ScriptRecord, 5 FeatureRecord, 6 LangSysRecord, 7 SbitLineMetrics, 8 BigGlyphMetrics, 9 BitmapSize,
    /// 10 SVGDocumentRecord, 11 VariationRegion(n axes), 12 AxisValue
    LibRecord { which: u8, a: u16, b: u16, n: u8, extra: u8 },
}

impl ROp {
    fn kind(&self) -> &'static str {
        match self {
            ROp::NewScope => "NewScope",
            ROp::ReadBufScope { .. } => "ReadBufScope",
            ROp::ScopeOffset { .. } => "ScopeOffset",
            ROp::ScopeOffsetLength { .. } => "ScopeOffsetLength",
            ROp::ScopeCtxt { .. } => "ScopeCtxt",
            ROp::ScopeRead { .. } => "ScopeRead",
            ROp::CtxtRead { .. } => "CtxtRead",
            ROp::CtxtReadArray { .. } => "CtxtReadArray",
            ROp::CtxtReadArrayStride { .. } => "CtxtReadArrayStride",
            ROp::CtxtReadArrayUpto { .. } => "CtxtReadArrayUpto",
            ROp::CtxtReadArrayDep { .. } => "CtxtReadArrayDep",
            ROp::CtxtReadScope { .. } => "CtxtReadScope",
            ROp::CtxtReadSlice { .. } => "CtxtReadSlice",
            ROp::CtxtUntilNibble { .. } => "CtxtUntilNibble",
            ROp::CtxtScope { .. } => "CtxtScope",
            ROp::CtxtAvail { .. } => "CtxtAvail",
            ROp::CtxtClone { .. } => "CtxtClone",
            ROp::ArrInfo { .. } => "ArrInfo",
            ROp::ArrItem { .. } => "ArrItem",
            ROp::ArrAll { .. } => "ArrAll",
            ROp::ArrSearch { .. } => "ArrSearch",
            ROp::LibRecord { .. } => "LibRecord",
        }
    }
}

#[derive(Serialize, Deserialize, Clone, Debug)]
pub struct ReaderTrace {
    pub version: u32,
    pub property: String,
    pub seed: u64,
    pub run: u64,
    pub buf: Vec<u8>,
    pub cut: usize,
    /// true: the window is its own exact-size allocation (Miri tier); false: poison tail.
    #[serde(default)]
    pub exact: bool,
    pub ops: Vec<ROp>,
}

// ------------------------------------------------------------------ model

#[derive(Clone, Copy, Debug)]
struct ScopeM {
    start: usize,
    len: usize,
}
#[derive(Clone, Copy, Debug)]
struct CtxtM {
    start: usize,
    len: usize,
    pos: usize,
}
#[derive(Clone, Copy, Debug)]
struct ArrM {
    start: usize,
    length: usize,
    stride: usize,
    ty: Option<Ty>,
    dep: usize,
}

impl ArrM {
    fn elem_size(&self) -> usize {
        self.ty.map(|t| t.size()).unwrap_or(self.dep)
    }
    fn elem(&self, w: &[u8], i: usize) -> String {
        let off = self.start + i * self.stride;
        match self.ty {
            Some(t) => decode(t, &w[off..off + t.size()]),
            None => {
                let mut v = 0u64;
                for k in 0..self.dep {
                    v = (v << 8) | u64::from(w[off + k]);
                }
                format!("{}", v)
            }
        }
    }
}

/// What the model allows: a definite outcome, or "either" where the statement is silent.
enum Expect {
    Ok(String),
    Err,
    /// zero-length request at/past the end etc.
    Either,
}

pub struct Problem {
    pub name: String,
    pub msg: String,
    pub op_index: usize,
    pub op_kind: String,
}

fn arg_class(v: usize, rem: usize, size: usize) -> &'static str {
    let size = size.max(1);
    if v == 0 {
        "0"
    } else if v == usize::MAX {
        "MAX"
    } else if v >= (1usize << 63) {
        ">=2^63"
    } else if v > usize::MAX / size {
        "overflowing"
    } else if v > (1usize << 32) {
        ">2^32"
    } else if v.checked_mul(size).map_or(false, |b| b == rem) {
        "exact"
    } else if v.checked_mul(size).map_or(false, |b| b < rem) {
        "inside"
    } else {
        "beyond"
    }
}

struct Sim<'w> {
    w: &'w [u8],
    scopes: Vec<(ReadScope<'w>, ScopeM)>,
    ctxts: Vec<(ReadCtxt<'w>, CtxtM)>,
    arrs: Vec<(Arr<'w>, ArrM)>,
    bufs: Vec<*mut ReadBuf<'w>>,
}

impl<'w> Drop for Sim<'w> {
    fn drop(&mut self) {
        for p in self.bufs.drain(..) {
            // SAFETY (harness only): every pointer came from Box::into_raw and is freed once.
            unsafe { drop(Box::from_raw(p)) };
        }
    }
}

fn ptr_off(w: &[u8], d: &[u8]) -> isize {
    (d.as_ptr() as isize) - (w.as_ptr() as isize)
}

impl<'w> Sim<'w> {
    fn check_scope(&self, real: &ReadScope<'w>, m: &ScopeM) -> Result<(), String> {
        let d = real.data();
        if d.len() != m.len {
            return Err(format!("scope length {} != model {}", d.len(), m.len));
        }
        if m.len > 0 && ptr_off(self.w, d) != m.start as isize {
            return Err(format!(
                "scope starts at {} but model says {}",
                ptr_off(self.w, d),
                m.start
            ));
        }
        Ok(())
    }
    fn check_ctxt(&self, real: &ReadCtxt<'w>, m: &CtxtM) -> Result<(), String> {
        let s = real.scope();
        self.check_scope(
            &s,
            &ScopeM {
                start: m.start + m.pos,
                len: m.len - m.pos,
            },
        )
        .map_err(|e| format!("cursor: {}", e))?;
        if real.bytes_available() != (m.pos < m.len) {
            return Err("bytes_available disagrees with the model".into());
        }
        Ok(())
    }
}

/// Execute one program. Returns problems (empty = all oracles held) and notes coverage.
pub fn run_program(t: &ReaderTrace, cov: &mut BTreeSet<String>, verbose: bool) -> (Vec<Problem>, u64) {
    let mut problems = Vec::new();
    let mut digest = Fnv::new();
    let cut = t.cut.min(t.buf.len());
    let exact_storage: Vec<u8>;
    let w: &[u8] = if t.exact {
        exact_storage = t.buf[..cut].to_vec();
        &exact_storage
    } else {
        &t.buf[..cut]
    };
    // Leak-free lifetime trick: `ReadBuf`s created by ops live in `sim.bufs` (boxed) and are
    // referenced with the window lifetime; they are dropped with `sim`.
    let mut sim = Sim {
        w,
        scopes: Vec::new(),
        ctxts: Vec::new(),
        arrs: Vec::new(),
        bufs: Vec::new(),
    };
    for (i, op) in t.ops.iter().enumerate() {
        let before_ctxts: Vec<CtxtM> = sim.ctxts.iter().map(|c| c.1).collect();
        let r = guard(|| step(&mut sim, op, cov));
        let line = match &r {
            Ok(Ok(s)) => format!("{} {} {}", i, op.kind(), s),
            Ok(Err(e)) => format!("{} {} MISMATCH {}", i, op.kind(), e),
            Err(p) => format!("{} {} PANIC {}", i, op.kind(), p.msg_class()),
        };
        digest.write(line.as_bytes());
        if verbose {
            eprintln!("{}", line);
        }
        match r {
            Ok(Ok(_)) => {}
            Ok(Err(e)) => {
                problems.push(Problem {
                    name: format!("model-mismatch:{}", op.kind()),
                    msg: e,
                    op_index: i,
                    op_kind: op.kind().into(),
                });
                break;
            }
            Err(p) => {
                let name = if p.kind() == "oob" {
                    format!("oob:{}", op.kind())
                } else {
                    format!("panic:{}:{}:{}", op.kind(), p.rel_file(), p.line)
                };
                problems.push(Problem {
                    name,
                    msg: p.msg.chars().take(200).collect(),
                    op_index: i,
                    op_kind: op.kind().into(),
                });
                break;
            }
        }
        // Every pre-existing cursor must be where the model says (failed ops leave no effect,
        // successful ops move only their own cursor).
        let _ = before_ctxts;
        for (real, m) in &sim.ctxts {
            if let Err(e) = sim.check_ctxt(real, m) {
                problems.push(Problem {
                    name: format!("cursor-drift:{}", op.kind()),
                    msg: e,
                    op_index: i,
                    op_kind: op.kind().into(),
                });
                break;
            }
        }
        if !problems.is_empty() {
            break;
        }
    }
    (problems, digest.finish())
}

fn cmp_result(kind: &str, real: Result<String, String>, exp: Expect) -> Result<String, String> {
    match (real, exp) {
        (Ok(v), Expect::Ok(e)) => {
            if v == e {
                Ok(format!("ok {}", short(&v)))
            } else {
                Err(format!("{}: library returned {} but the bytes decode to {}", kind, short(&v), short(&e)))
            }
        }
        (Err(_), Expect::Err) => Ok("err".into()),
        (Ok(v), Expect::Either) => Ok(format!("ok? {}", short(&v))),
        (Err(_), Expect::Either) => Ok("err?".into()),
        (Ok(v), Expect::Err) => Err(format!(
            "{}: library succeeded with {} where the window does not contain the data",
            kind,
            short(&v)
        )),
        (Err(e), Expect::Ok(v)) => Err(format!(
            "{}: library failed ({}) but the window contains {}",
            kind,
            e,
            short(&v)
        )),
    }
}

fn short(s: &str) -> String {
    if s.len() > 120 {
        format!("{}…[{}]", &s[..100], s.len())
    } else {
        s.to_string()
    }
}

fn step<'w>(sim: &mut Sim<'w>, op: &ROp, cov: &mut BTreeSet<String>) -> Result<String, String> {
    let w = sim.w;
    macro_rules! pool {
        ($p:expr, $i:expr) => {{
            if $p.is_empty() {
                return Ok("skip".into());
            }
            $i % $p.len()
        }};
    }
    match op {
        ROp::NewScope => {
            let s = ReadScope::new(w);
            let m = ScopeM {
                start: 0,
                len: w.len(),
            };
            sim.check_scope(&s, &m)?;
            sim.scopes.push((s, m));
            Ok("scope".into())
        }
        ROp::ReadBufScope { owned } => {
            // ReadBuf over the same window; an owned buffer is a copy, so positions are
            // relative to the copy: only lengths and values are comparable. We model it as a
            // scope over the window for the borrowed variant only.
            if *owned {
                let b: ReadBuf<'static> = ReadBuf::from(w.to_vec());
                let ok = b.scope().data() == w;
                let back = b.into_data();
                if !ok || &back[..] != w {
                    return Err("ReadBuf(owned) does not expose the bytes it was given".into());
                }
                Ok("readbuf-owned".into())
            } else {
                let raw: *mut ReadBuf<'w> = Box::into_raw(Box::new(ReadBuf::from(w)));
                // SAFETY (harness only): the allocation is freed only when sim is dropped
                // (raw pointer kept in sim.bufs), after every scope derived from it.
                let r: &'w ReadBuf<'w> = unsafe { &*raw };
                sim.bufs.push(raw);
                let s = r.scope();
                let m = ScopeM {
                    start: 0,
                    len: w.len(),
                };
                sim.check_scope(&s, &m)?;
                sim.scopes.push((s, m));
                Ok("readbuf".into())
            }
        }
        ROp::ScopeOffset { s, n } => {
            let k = pool!(sim.scopes, *s);
            let (real, m) = sim.scopes[k];
            cov.insert(format!("ScopeOffset|{}", arg_class(*n, m.len, 1)));
            let r = real.offset(*n);
            let nm = if *n <= m.len {
                ScopeM {
                    start: m.start + *n,
                    len: m.len - *n,
                }
            } else {
                ScopeM { start: 0, len: 0 }
            };
            sim.check_scope(&r, &nm)?;
            sim.scopes.push((r, nm));
            Ok(format!("scope {}+{}", nm.start, nm.len))
        }
        ROp::ScopeOffsetLength { s, off, len } => {
            let k = pool!(sim.scopes, *s);
            let (real, m) = sim.scopes[k];
            cov.insert(format!(
                "ScopeOffsetLength|{}|{}",
                arg_class(*off, m.len, 1),
                arg_class(*len, m.len.saturating_sub(*off), 1)
            ));
            let r = real.offset_length(*off, *len);
            let fits = off.checked_add(*len).map_or(false, |e| e <= m.len);
            match (r, fits, *len) {
                (Ok(sc), true, _) => {
                    let nm = ScopeM {
                        start: m.start + *off,
                        len: *len,
                    };
                    sim.check_scope(&sc, &nm)?;
                    sim.scopes.push((sc, nm));
                    Ok("ok".into())
                }
                (Ok(sc), false, 0) => {
                    // zero bytes requested past the end: statement is silent; must be empty
                    if !sc.data().is_empty() {
                        return Err("zero-length request produced a non-empty scope".into());
                    }
                    sim.scopes.push((sc, ScopeM { start: 0, len: 0 }));
                    Ok("ok-empty-past-end".into())
                }
                (Ok(sc), false, _) => Err(format!(
                    "offset_length({}, {}) succeeded on a scope of {} bytes (got {} bytes)",
                    off,
                    len,
                    m.len,
                    sc.data().len()
                )),
                (Err(_), false, _) => Ok("err".into()),
                (Err(_), true, 0) => Ok("err-zero".into()),
                (Err(e), true, _) => Err(format!(
                    "offset_length({}, {}) failed ({:?}) on a scope of {} bytes",
                    off, len, e, m.len
                )),
            }
        }
        ROp::ScopeCtxt { s } => {
            let k = pool!(sim.scopes, *s);
            let (real, m) = sim.scopes[k];
            let c = real.ctxt();
            let cm = CtxtM {
                start: m.start,
                len: m.len,
                pos: 0,
            };
            sim.check_ctxt(&c, &cm)?;
            sim.ctxts.push((c, cm));
            Ok("ctxt".into())
        }
        ROp::ScopeRead { s, ty } => {
            let k = pool!(sim.scopes, *s);
            let (real, m) = sim.scopes[k];
            let exp = if ty.size() <= m.len {
                Expect::Ok(decode(*ty, &w[m.start..m.start + ty.size()]))
            } else {
                Expect::Err
            };
            cov.insert(format!("ScopeRead|{:?}|{}", ty, ty.size() <= m.len));
            let r: Result<String, String> = with_ty!(*ty, T, {
                real.read::<T>()
                    .map(|v| v.canon())
                    .map_err(|e| format!("{:?}", e))
            });
            cmp_result("ScopeRead", r, exp)
        }
        ROp::CtxtRead { c, ty, generic } => {
            let k = pool!(sim.ctxts, *c);
            let m = sim.ctxts[k].1;
            let fits = m.pos.checked_add(ty.size()).map_or(false, |e| e <= m.len);
            cov.insert(format!("CtxtRead|{:?}|{}|{}", ty, generic, fits));
            let exp = if fits {
                Expect::Ok(decode(*ty, &w[m.start + m.pos..m.start + m.pos + ty.size()]))
            } else {
                Expect::Err
            };
            let real = &mut sim.ctxts[k].0;
            let r: Result<String, String> = if *generic {
                with_ty!(*ty, T, {
                    real.read::<T>()
                        .map(|v| v.canon())
                        .map_err(|e| format!("{:?}", e))
                })
            } else {
                let e = |_| "ReadEof".to_string();
                match ty {
                    Ty::U8 => real.read_u8().map(|v| v.canon()).map_err(e),
                    Ty::I8 => real.read_i8().map(|v| v.canon()).map_err(e),
                    Ty::U16 => real.read_u16be().map(|v| v.canon()).map_err(e),
                    Ty::I16 => real.read_i16be().map(|v| v.canon()).map_err(e),
                    Ty::U32 => real.read_u32be().map(|v| v.canon()).map_err(e),
                    Ty::I32 => real.read_i32be().map(|v| v.canon()).map_err(e),
                    Ty::U64 => real.read_u64be().map(|v| v.canon()).map_err(e),
                    Ty::I64 => real.read_i64be().map(|v| v.canon()).map_err(e),
                    other => with_ty!(*other, T, {
                        real.read::<T>()
                            .map(|v| v.canon())
                            .map_err(|e| format!("{:?}", e))
                    }),
                }
            };
            let out = cmp_result("CtxtRead", r, exp)?;
            if fits {
                sim.ctxts[k].1.pos += ty.size();
            }
            Ok(out)
        }
        ROp::CtxtReadArray { c, ty, len } => {
            let k = pool!(sim.ctxts, *c);
            let m = sim.ctxts[k].1;
            read_array_common(sim, k, m, Some(*ty), 0, *len, ty.size(), 0, cov)
        }
        ROp::CtxtReadArrayStride { c, ty, len, stride } => {
            let k = pool!(sim.ctxts, *c);
            let m = sim.ctxts[k].1;
            read_array_common(sim, k, m, Some(*ty), 0, *len, *stride, 1, cov)
        }
        ROp::CtxtReadArrayUpto { c, ty, len } => {
            let k = pool!(sim.ctxts, *c);
            let m = sim.ctxts[k].1;
            read_array_common(sim, k, m, Some(*ty), 0, *len, ty.size(), 2, cov)
        }
        ROp::CtxtReadArrayDep { c, size, len } => {
            let k = pool!(sim.ctxts, *c);
            let m = sim.ctxts[k].1;
            read_array_common(sim, k, m, None, *size, *len, *size, 3, cov)
        }
        ROp::CtxtReadScope { c, len } | ROp::CtxtReadSlice { c, len } => {
            let k = pool!(sim.ctxts, *c);
            let m = sim.ctxts[k].1;
            let is_slice = matches!(op, ROp::CtxtReadSlice { .. });
            let fits = m.pos.checked_add(*len).map_or(false, |e| e <= m.len);
            cov.insert(format!(
                "{}|{}",
                op.kind(),
                arg_class(*len, m.len - m.pos, 1)
            ));
            let nm = ScopeM {
                start: m.start + m.pos,
                len: *len,
            };
            let real = &mut sim.ctxts[k].0;
            if is_slice {
                match real.read_slice(*len) {
                    Ok(sl) => {
                        if !fits {
                            return Err(format!(
                                "read_slice({}) succeeded with {} bytes left",
                                len,
                                m.len - m.pos
                            ));
                        }
                        if sl.len() != *len || (*len > 0 && ptr_off(w, sl) != nm.start as isize) {
                            return Err("read_slice returned the wrong bytes".into());
                        }
                        sim.ctxts[k].1.pos += *len;
                        Ok("ok".into())
                    }
                    Err(_) => {
                        if fits && *len > 0 {
                            return Err(format!(
                                "read_slice({}) failed with {} bytes left",
                                len,
                                m.len - m.pos
                            ));
                        }
                        Ok("err".into())
                    }
                }
            } else {
                match real.read_scope(*len) {
                    Ok(sc) => {
                        if !fits {
                            return Err(format!(
                                "read_scope({}) succeeded with {} bytes left",
                                len,
                                m.len - m.pos
                            ));
                        }
                        sim.check_scope(&sc, &nm)?;
                        sim.ctxts[k].1.pos += *len;
                        sim.scopes.push((sc, nm));
                        Ok("ok".into())
                    }
                    Err(_) => {
                        if fits && *len > 0 {
                            return Err(format!(
                                "read_scope({}) failed with {} bytes left",
                                len,
                                m.len - m.pos
                            ));
                        }
                        Ok("err".into())
                    }
                }
            }
        }
        ROp::CtxtUntilNibble { c, nib } => {
            let k = pool!(sim.ctxts, *c);
            let m = sim.ctxts[k].1;
            let rest = &w[m.start + m.pos..m.start + m.len];
            let found = rest
                .iter()
                .position(|&b| (b >> 4) == *nib || (b & 0xF) == *nib);
            cov.insert(format!("CtxtUntilNibble|{}", found.is_some()));
            let real = &mut sim.ctxts[k].0;
            match (real.read_until_nibble(*nib), found) {
                (Ok(sl), Some(p)) => {
                    if sl.len() != p + 1 || ptr_off(w, sl) != (m.start + m.pos) as isize {
                        return Err(format!(
                            "read_until_nibble returned {} bytes, expected {}",
                            sl.len(),
                            p + 1
                        ));
                    }
                    sim.ctxts[k].1.pos += p + 1;
                    Ok("ok".into())
                }
                (Err(_), None) => Ok("err".into()),
                (Ok(sl), None) => Err(format!(
                    "read_until_nibble found a nibble the window does not contain ({} bytes)",
                    sl.len()
                )),
                (Err(_), Some(p)) => Err(format!(
                    "read_until_nibble failed but the nibble is at +{}",
                    p
                )),
            }
        }
        ROp::CtxtScope { c } => {
            let k = pool!(sim.ctxts, *c);
            let m = sim.ctxts[k].1;
            let s = sim.ctxts[k].0.scope();
            let nm = ScopeM {
                start: m.start + m.pos,
                len: m.len - m.pos,
            };
            sim.check_scope(&s, &nm)?;
            sim.scopes.push((s, nm));
            Ok("scope".into())
        }
        ROp::CtxtAvail { c } => {
            let k = pool!(sim.ctxts, *c);
            let m = sim.ctxts[k].1;
            if sim.ctxts[k].0.bytes_available() != (m.pos < m.len) {
                return Err("bytes_available disagrees".into());
            }
            Ok(format!("{}", m.pos < m.len))
        }
        ROp::CtxtClone { c } => {
            let k = pool!(sim.ctxts, *c);
            let (real, m) = (sim.ctxts[k].0.clone(), sim.ctxts[k].1);
            sim.ctxts.push((real, m));
            Ok("clone".into())
        }
        ROp::ArrInfo { a } => {
            let k = pool!(sim.arrs, *a);
            let m = sim.arrs[k].1;
            let (len, empty, last): (usize, bool, Option<String>) = with_arr!(
                &sim.arrs[k].0,
                arr,
                (arr.len(), arr.is_empty(), arr.last().map(|v| v.canon())),
                (sim_len(arr), arr.is_empty(), None)
            );
            if len != m.length || empty != (m.length == 0) {
                return Err(format!("len {} / is_empty {} vs model length {}", len, empty, m.length));
            }
            if m.ty.is_some() {
                let exp = if m.length > 0 {
                    Some(m.elem(w, m.length - 1))
                } else {
                    None
                };
                if last != exp {
                    return Err(format!("last() = {:?}, model {:?}", last, exp));
                }
            }
            Ok(format!("len={}", len))
        }
        ROp::ArrItem { a, i, via } => {
            let k = pool!(sim.arrs, *a);
            let m = sim.arrs[k].1;
            let inside = *i < m.length;
            cov.insert(format!(
                "ArrItem|{}|{}|{}",
                via,
                m.ty.map(|t| format!("{:?}", t)).unwrap_or_else(|| "Dep".into()),
                if inside { "inside" } else if *i == m.length { "at-end" } else { "beyond" }
            ));
            let exp = if inside {
                Expect::Ok(m.elem(w, *i))
            } else {
                Expect::Err
            };
            let r: Result<String, String> = with_arr!(
                &sim.arrs[k].0,
                arr,
                match via {
                    0 => arr
                        .read_item(*i)
                        .map(|v| v.canon())
                        .map_err(|e| format!("{:?}", e)),
                    1 => arr
                        .get_item(*i)
                        .map(|v| v.canon())
                        .ok_or_else(|| "None".to_string()),
                    2 => arr
                        .check_index(*i)
                        .map(|_| m.elem_or_empty(w, *i))
                        .map_err(|e| format!("{:?}", e)),
                    3 => ReadArrayCow::Borrowed(arr.clone())
                        .read_item(*i)
                        .map(|v| v.canon())
                        .map_err(|e| format!("{:?}", e)),
                    // `CheckIndex` of the owned forms: a `Vec` of the elements and both Cow arms
                    5 if m.length <= 100_000 => arr
                        .to_vec()
                        .check_index(*i)
                        .map(|_| m.elem_or_empty(w, *i))
                        .map_err(|e| format!("{:?}", e)),
                    5 | 6 => ReadArrayCow::Borrowed(arr.clone())
                        .check_index(*i)
                        .map(|_| m.elem_or_empty(w, *i))
                        .map_err(|e| format!("{:?}", e)),
                    7 if m.length <= 100_000 => cow_owned(arr)
                        .check_index(*i)
                        .map(|_| m.elem_or_empty(w, *i))
                        .map_err(|e| format!("{:?}", e)),
                    _ => cow_owned(arr)
                        .get_item(*i)
                        .map(|v| v.canon())
                        .ok_or_else(|| "None".to_string()),
                },
                match via {
                    2 => arr
                        .check_index(*i)
                        .map(|_| m.elem_or_empty(w, *i))
                        .map_err(|e| format!("{:?}", e)),
                    _ => arr
                        .read_item(*i)
                        .map(|v| format!("{}", v))
                        .map_err(|e| format!("{:?}", e)),
                }
            );
            cmp_result("ArrItem", r, exp)
        }
        ROp::ArrAll { a, via } => {
            let k = pool!(sim.arrs, *a);
            let m = sim.arrs[k].1;
            if m.length > 100_000 {
                return Ok("skip-large".into());
            }
            cov.insert(format!(
                "ArrAll|{}|{}|{}",
                via,
                m.ty.map(|t| format!("{:?}", t)).unwrap_or_else(|| "Dep".into()),
                if m.length == 0 { "empty" } else if m.stride > m.elem_size() { "strided" } else { "dense" }
            ));
            let exp: Vec<String> = (0..m.length).map(|i| m.elem(w, i)).collect();
            let cap = m.length + 4;
            let got: Result<Vec<String>, String> = with_arr!(
                &sim.arrs[k].0,
                arr,
                match via {
                    0 => Ok(arr.to_vec().iter().map(|v| v.canon()).collect()),
                    1 => arr
                        .read_to_vec()
                        .map(|v| v.iter().map(|v| v.canon()).collect())
                        .map_err(|e| format!("{:?}", e)),
                    2 => Ok(arr.iter().take(cap).map(|v| v.canon()).collect()),
                    3 => arr
                        .iter_res()
                        .take(cap)
                        .map(|r| r.map(|v| v.canon()).map_err(|e| format!("{:?}", e)))
                        .collect(),
                    4 => Ok(ReadArrayCow::Borrowed(arr.clone())
                        .iter()
                        .take(cap)
                        .map(|v| v.canon())
                        .collect()),
                    5 => Ok(arr.into_iter().take(cap).map(|v| v.canon()).collect()),
                    _ => Ok(cow_owned(arr)
                        .iter()
                        .take(cap)
                        .map(|v| v.canon())
                        .collect()),
                },
                match via {
                    1 => arr
                        .read_to_vec()
                        .map(|v| v.iter().map(|v| format!("{}", v)).collect())
                        .map_err(|e| format!("{:?}", e)),
                    _ => arr
                        .iter_res()
                        .take(cap)
                        .map(|r| r.map(|v| format!("{}", v)).map_err(|e| format!("{:?}", e)))
                        .collect(),
                }
            );
            match got {
                Ok(v) => {
                    if v != exp {
                        let first = v
                            .iter()
                            .zip(&exp)
                            .position(|(a, b)| a != b)
                            .unwrap_or(v.len().min(exp.len()));
                        return Err(format!(
                            "array exposes {} elements, window holds {}; first difference at {} ({:?} vs {:?})",
                            v.len(),
                            exp.len(),
                            first,
                            v.get(first),
                            exp.get(first)
                        ));
                    }
                    Ok(format!("{} elems", v.len()))
                }
                Err(e) => Err(format!("element read failed inside the declared window: {}", e)),
            }
        }
        ROp::LibRecord { which, a, b, n, extra } => {
            use allsorts::layout::{Class1Record, Class2Record, PairValueRecord, ValueFormat, ValueRecord};
            let vf = |raw: u16| -> Result<ValueFormat, String> {
                let bytes = raw.to_be_bytes();
                ReadScope::new(&bytes).read::<ValueFormat>().map_err(|e| format!("ValueFormat: {:?}", e))
            };
            // OpenType: one 16-bit field per set bit of the low byte of the value format
            let sz = |raw: u16| 2 * (raw & 0x00FF).count_ones() as usize;
            let (fa, fb) = (vf(*a)?, vf(*b)?);
            let n = usize::from(*n);
            // sizes per the OpenType specification
            let model = match which {
                0 => sz(*a),
                1 => 2 + sz(*a) + sz(*b),
                2 => sz(*a) + sz(*b),
                3 => n * (sz(*a) + sz(*b)),
                4 | 5 | 6 => 6,   // Tag + Offset16
                7 => 12,          // SbitLineMetrics
                8 => 8,           // BigGlyphMetrics
                9 => 48,          // BitmapSize
                10 => 12,         // SVG document record
                11 => 6 * n,      // VariationRegion: axisCount x 3 F2Dot14
                _ => 6,           // AxisValue: uint16 + Fixed
            };
            let buf = vec![0u8; model + usize::from(*extra)];
            let scope = ReadScope::new(&buf);
            let mut ctxt = scope.ctxt();
            cov.insert(format!("LibRecord|{}|{}|{}", which, (*a & 0xFF).count_ones(), extra.min(&1)));
            use allsorts::bitmap::cbdt::{BigGlyphMetrics, BitmapSize, SbitLineMetrics};
            use allsorts::layout::{FeatureRecord, LangSysRecord, ScriptRecord};
            use allsorts::tables::svg::SVGDocumentRecord;
            use allsorts::tables::variable_fonts::stat::AxisValue;
            use allsorts::tables::variable_fonts::VariationRegion;
            macro_rules! rec {
                ($t:ty, $args:expr) => {
                    (
                        <$t as ReadFixedSizeDep>::size($args),
                        ctxt.read_dep::<$t>($args).map(drop).map_err(|e| format!("{:?}", e)),
                    )
                };
            }
            let (declared, res): (usize, Result<(), String>) = match which {
                0 => rec!(ValueRecord, (scope, fa)),
                1 => rec!(PairValueRecord, (scope, fa, fb)),
                2 => rec!(Class2Record, (scope, fa, fb)),
                3 => rec!(Class1Record, (scope, n, fa, fb)),
                4 => rec!(ScriptRecord, scope),
                5 => rec!(FeatureRecord, scope),
                6 => rec!(LangSysRecord, scope),
                7 => rec!(SbitLineMetrics, ()),
                8 => rec!(BigGlyphMetrics, ()),
                9 => rec!(BitmapSize<'_>, scope),
                10 => rec!(SVGDocumentRecord<'_>, scope),
                11 => rec!(VariationRegion<'_>, n as u16),
                _ => rec!(AxisValue, n as u16),
            };
            if declared != model {
                return Err(format!(
                    "library record {} with formats {:#06x}/{:#06x} declares {} bytes, the encoding has {}",
                    which, a, b, declared, model
                ));
            }
            let consumed = buf.len() - ctxt.scope().data().len();
            match res {
                Ok(()) if consumed != model => Err(format!(
                    "library record {} with formats {:#06x}/{:#06x} consumed {} bytes, declared {}",
                    which, a, b, consumed, model
                )),
                Ok(()) => Ok(format!("librecord {} {}", which, model)),
                // records 0-3 and the plain metric records read nothing but their own fields, so
                // they must succeed when the declared bytes are there; the others follow offsets
                // into the (all-zero) scope and may fail for reasons of their own
                Err(e) if matches!(which, 0 | 1 | 2 | 3 | 7 | 8 | 11) => Err(format!(
                    "library record {} with formats {:#06x}/{:#06x} failed ({}) although its {} declared bytes are available",
                    which, a, b, e, model
                )),
                Err(_) => Ok(format!("librecord {} err", which)),
            }
        }
        ROp::ArrSearch { a, pick, delta } => {
            let k = pool!(sim.arrs, *a);
            let m = sim.arrs[k].1;
            let Some(ty) = m.ty else {
                return Ok("skip-dep".into());
            };
            if m.length > 100_000 {
                return Ok("skip-large".into());
            }
            // Key: first component of element `pick` (+delta); compare on the first component.
            let firsts: Vec<i128> = (0..m.length).map(|i| first_comp(ty, w, &m, i)).collect();
            let key: i128 = if firsts.is_empty() {
                i128::from(*delta)
            } else {
                firsts[*pick % firsts.len()] + i128::from(*delta)
            };
            let sorted = firsts.windows(2).all(|p| p[0] <= p[1]);
            cov.insert(format!("ArrSearch|{:?}|sorted={}|len={}", ty, sorted, m.length.min(3)));
            let mut probes: Vec<usize> = Vec::new();
            let r: Result<usize, usize> = with_arr!(
                &sim.arrs[k].0,
                arr,
                {
                    let mut n = 0usize;
                    arr.binary_search_by(|v| {
                        n += 1;
                        probes.push(n);
                        first_of(&v.canon()).cmp(&key)
                    })
                },
                Err(0)
            );
            match r {
                Ok(i) => {
                    if i >= m.length || firsts[i] != key {
                        return Err(format!("binary_search Ok({}) does not point at the key", i));
                    }
                }
                Err(i) => {
                    if i > m.length {
                        return Err(format!("binary_search Err({}) beyond length {}", i, m.length));
                    }
                    if sorted
                        && (firsts[..i].iter().any(|v| *v >= key)
                            || firsts[i..].iter().any(|v| *v <= key))
                    {
                        return Err(format!(
                            "binary_search Err({}) is not the insertion point of the key",
                            i
                        ));
                    }
                }
            }
            if probes.len() > 70 {
                return Err(format!("binary_search made {} probes", probes.len()));
            }
            Ok(format!("{:?}", r))
        }
    }
}

fn cow_owned<'a, T: ReadUnchecked>(arr: &ReadArray<'a, T>) -> ReadArrayCow<'a, T> {
    ReadArrayCow::Owned(arr.to_vec())
}

fn sim_len<T: ReadFixedSizeDep>(a: &ReadArray<'_, T>) -> usize {
    a.len()
}

fn first_of(canon: &str) -> i128 {
    let s = canon.trim_start_matches('(');
    let end = s.find(|c: char| c == ',' || c == ')').unwrap_or(s.len());
    s[..end].trim().parse::<i128>().unwrap_or(0)
}

fn first_comp(ty: Ty, w: &[u8], m: &ArrM, i: usize) -> i128 {
    let _ = ty;
    first_of(&m.elem(w, i))
}

impl ArrM {
    fn elem_or_empty(&self, w: &[u8], i: usize) -> String {
        if i < self.length {
            self.elem(w, i)
        } else {
            String::new()
        }
    }
}

#[allow(clippy::too_many_arguments)]
fn read_array_common<'w>(
    sim: &mut Sim<'w>,
    k: usize,
    m: CtxtM,
    ty: Option<Ty>,
    dep: usize,
    len: usize,
    stride: usize,
    mode: u8, // 0 read_array, 1 stride, 2 upto_hack, 3 dep
    cov: &mut BTreeSet<String>,
) -> Result<String, String> {
    let rem = m.len - m.pos;
    let size = ty.map(|t| t.size()).unwrap_or(dep);
    let kind = ["read_array", "read_array_stride", "read_array_upto_hack", "read_array_dep"][mode as usize];
    cov.insert(format!(
        "{}|{}|{}|{}",
        kind,
        ty.map(|t| format!("{:?}", t)).unwrap_or_else(|| format!("Dep{}", dep)),
        arg_class(len, rem, stride),
        if mode == 1 { if stride < size { "stride<size" } else if stride == size { "stride=size" } else { "stride>size" } } else { "-" }
    ));
    // Model.
    let (exp_len, exp_ok): (usize, Option<bool>) = match mode {
        2 => (len.min(rem / size.max(1)), Some(true)),
        1 if size > stride => (0, Some(false)),
        _ => match len.checked_mul(stride) {
            None => (0, Some(false)),
            Some(0) => (len, None), // zero bytes: statement silent about failing at the end
            Some(b) => (len, Some(b <= rem)),
        },
    };
    let real = &mut sim.ctxts[k].0;
    let r: Result<Arr<'w>, String> = match (ty, mode) {
        (Some(t), 0) => with_ty!(t, T, real.read_array::<T>(len).map(<T as IntoArr>::wrap).map_err(|e| format!("{:?}", e))),
        (Some(t), 1) => with_ty!(t, T, real.read_array_stride::<T>(len, stride).map(<T as IntoArr>::wrap).map_err(|e| format!("{:?}", e))),
        (Some(t), _) => with_ty!(t, T, real.read_array_upto_hack::<T>(len).map(<T as IntoArr>::wrap).map_err(|e| format!("{:?}", e))),
        (None, _) => real
            .read_array_dep::<DepRec>(len, dep)
            .map(Arr::Dep)
            .map_err(|e| format!("{:?}", e)),
    };
    match (r, exp_ok) {
        (Ok(arr), Some(true)) | (Ok(arr), None) => {
            let bytes = exp_len * stride;
            if bytes > rem {
                return Err(format!(
                    "{}({}) succeeded needing {} bytes with {} left",
                    kind, len, bytes, rem
                ));
            }
            let am = ArrM {
                start: m.start + m.pos,
                length: exp_len,
                stride: if mode == 1 { stride } else { size },
                ty,
                dep,
            };
            let real_len: usize = with_arr!(&arr, a, a.len(), a.len());
            if real_len != exp_len {
                return Err(format!(
                    "{}({}) produced an array of {} elements, model {}",
                    kind, len, real_len, exp_len
                ));
            }
            sim.ctxts[k].1.pos += bytes;
            sim.arrs.push((arr, am));
            Ok(format!("arr len={}", exp_len))
        }
        (Ok(arr), Some(false)) => {
            let real_len: usize = with_arr!(&arr, a, a.len(), a.len());
            Err(format!(
                "{}(len={}, stride={}) succeeded (array of {}) with only {} bytes left",
                kind, len, stride, real_len, rem
            ))
        }
        (Err(_), Some(false)) | (Err(_), None) => Ok("err".into()),
        (Err(e), Some(true)) => Err(format!(
            "{}(len={}, stride={}) failed ({}) with {} bytes left",
            kind, len, stride, e, rem
        )),
    }
}

// ------------------------------------------------------------------ generator

fn gen_len(rng: &mut Rng, rem: usize, size: usize) -> usize {
    let size = size.max(1);
    let fit = rem / size;
    match rng.below(16) {
        0 => 0,
        1 => 1,
        2 => fit.saturating_sub(1),
        3 | 4 => fit,
        5 => fit + 1,
        6 => (1usize << 32) - 1,
        7 => (1usize << 32) + 1,
        8 => 1usize << 63,
        9 => usize::MAX / size,
        10 => (usize::MAX / size).wrapping_add(1),
        11 => usize::MAX,
        12 => (1usize << 63) + fit.max(1),
        13 => (usize::MAX / size).wrapping_add(1).wrapping_add(fit),
        _ => rng.usize_below(fit + 2),
    }
}

pub fn generate(seed: u64, run: u64, exact: bool) -> ReaderTrace {
    let mut rng = Rng::new(run_seed(seed, "C14R", run));
    let blen = match rng.below(12) {
        0 => 0,
        1 => 1,
        2 => 4096,
        _ => rng.usize_below(49),
    };
    let mut buf: Vec<u8> = (0..blen)
        .map(|_| match rng.below(6) {
            0 => 0,
            1 => 0xFF,
            2 => 0x80,
            _ => rng.next_u64() as u8,
        })
        .collect();
    if rng.pct(25) {
        // sorted content so that binary search has a meaningful oracle
        buf.sort_unstable();
    }
    let cut = match rng.below(5) {
        0 => blen,
        1 => blen.saturating_sub(1),
        _ => rng.usize_below(blen + 1),
    };
    // poison tail
    buf.extend(std::iter::repeat(0xA5).take(16));
    let nops = 1 + rng.usize_below(40);
    let mut ops = vec![ROp::NewScope, ROp::ScopeCtxt { s: 0 }];
    // The generator tracks nothing about the pool: indices are taken modulo the pool size at
    // execution time, and length arguments are drawn relative to the window size.
    for _ in 0..nops {
        let ty = *rng.pick(ALL_TY);
        let rem = rng.usize_below(cut + 1);
        let any = rng.usize_below(64);
        let op = match rng.below(31) {
            0 => ROp::NewScope,
            1 => ROp::ReadBufScope { owned: rng.pct(50) },
            2 | 3 => ROp::ScopeOffset {
                s: any,
                n: gen_len(&mut rng, rem, 1),
            },
            4 | 5 => ROp::ScopeOffsetLength {
                s: any,
                off: gen_len(&mut rng, rem, 1),
                len: gen_len(&mut rng, rem, 1),
            },
            6 | 7 => ROp::ScopeCtxt { s: any },
            8 => ROp::ScopeRead { s: any, ty },
            9..=12 => ROp::CtxtRead {
                c: any,
                ty,
                generic: rng.pct(50),
            },
            13 | 14 => ROp::CtxtReadArray {
                c: any,
                ty,
                len: gen_len(&mut rng, rem, ty.size()),
            },
            15 | 16 => {
                let stride = match rng.below(8) {
                    0 => 0,
                    1 => ty.size().saturating_sub(1),
                    2 | 3 => ty.size(),
                    4 => ty.size() + 1,
                    5 => usize::MAX,
                    6 => 1usize << 32,
                    _ => ty.size() + rng.usize_below(6),
                };
                ROp::CtxtReadArrayStride {
                    c: any,
                    ty,
                    len: gen_len(&mut rng, rem, stride),
                    stride,
                }
            }
            17 => ROp::CtxtReadArrayUpto {
                c: any,
                ty,
                len: gen_len(&mut rng, rem, ty.size()),
            },
            18 => {
                let size = rng.usize_below(9);
                ROp::CtxtReadArrayDep {
                    c: any,
                    size,
                    len: gen_len(&mut rng, rem, size),
                }
            }
            19 => ROp::CtxtReadScope {
                c: any,
                len: gen_len(&mut rng, rem, 1),
            },
            20 => ROp::CtxtReadSlice {
                c: any,
                len: gen_len(&mut rng, rem, 1),
            },
            21 => ROp::CtxtUntilNibble {
                c: any,
                nib: rng.below(16) as u8,
            },
            22 => ROp::CtxtScope { c: any },
            23 => {
                if rng.pct(50) {
                    ROp::CtxtAvail { c: any }
                } else {
                    ROp::CtxtClone { c: any }
                }
            }
            24 => ROp::ArrInfo { a: any },
            25 | 26 => ROp::ArrItem {
                a: any,
                i: gen_len(&mut rng, rem, ty.size()),
                via: rng.below(8) as u8,
            },
            27 | 28 => ROp::ArrAll {
                a: any,
                via: rng.below(7) as u8,
            },
            29 => ROp::ArrSearch {
                a: any,
                pick: any,
                delta: *rng.pick(&[0i8, 0, 0, 1, -1, 100, -100]),
            },
            _ => ROp::LibRecord {
                which: if rng.pct(60) { rng.below(4) as u8 } else { rng.below(13) as u8 },
                a: if rng.pct(50) { 1 << rng.below(8) } else { rng.below(256) as u16 },
                b: if rng.pct(50) { 1 << rng.below(8) } else { rng.below(256) as u16 },
                n: rng.below(5) as u8,
                extra: *rng.pick(&[0u8, 0, 1, 7]),
            },
        };
        ops.push(op);
    }
    ReaderTrace {
        version: 1,
        property: "C14R".into(),
        seed,
        run,
        buf,
        cut,
        exact,
        ops,
    }
}

// ------------------------------------------------------------------ entry points

pub fn replay_value(v: serde_json::Value, verbose: bool) -> i32 {
    let t: ReaderTrace = match serde_json::from_value(v) {
        Ok(t) => t,
        Err(e) => {
            eprintln!("HARNESS-ERROR bad reader trace: {}", e);
            return 2;
        }
    };
    let mut cov = BTreeSet::new();
    let (problems, digest) = run_program(&t, &mut cov, verbose);
    let vs: Vec<serde_json::Value> = problems
        .iter()
        .map(|p| {
            json!({"property":"C14","kind":"oracle","site":p.name,"msg":p.msg,"op_index":p.op_index,
                   "op_kind":p.op_kind,"overflow_profile":p.msg.contains("overflow"),
                   "signature":format!("C14|oracle|{}", p.name)})
        })
        .collect();
    println!(
        "{}",
        json!({"digest":format!("{:016x}", digest),"violations":vs,"foreign":[],"harness_error":null})
    );
    if problems.is_empty() {
        0
    } else {
        1
    }
}

pub fn campaign(
    seed: u64,
    start: u64,
    count: u64,
    stride: u64,
    secs: f64,
    digests: bool,
    exact: bool,
    out: &mut Box<dyn Write>,
) -> i32 {
    let t0 = std::time::Instant::now();
    let mut cov = BTreeSet::new();
    let mut done = 0u64;
    let mut k = 0u64;
    let mut ops = 0u64;
    let mut samples = Vec::new();
    let mut violations = 0u64;
    while k < count {
        if done % 256 == 0 && t0.elapsed().as_secs_f64() > secs {
            break;
        }
        let run = start + k * stride;
        k += 1;
        let t = generate(seed, run, exact);
        let (problems, digest) = run_program(&t, &mut cov, false);
        done += 1;
        ops += t.ops.len() as u64;
        if digests {
            let _ = writeln!(out, "{}", json!({"type":"digest","run":run,"digest":format!("{:016x}", digest)}));
        }
        if samples.len() < 3 && t.ops.len() > 6 {
            samples.push(serde_json::to_value(&t).unwrap());
        }
        for p in &problems {
            violations += 1;
            let _ = writeln!(
                out,
                "{}",
                json!({"type":"violation","run":run,
                       "violation":{"property":"C14","kind":"oracle","site":p.name,"msg":p.msg,"op_index":p.op_index,
                                    "op_kind":p.op_kind,"overflow_profile":p.msg.contains("overflow"),
                                    "signature":format!("C14|oracle|{}", p.name)},
                       "trace":t})
            );
            let _ = out.flush();
        }
    }
    let _ = writeln!(
        out,
        "{}",
        json!({"type":"summary","prop":"C14R","seed":seed,"start":start,"stride":stride,"executed":done,
               "next":start + k * stride,"wall_s":t0.elapsed().as_secs_f64(),
               "stats":{"counters":{"runs":done,"reader_ops":ops,"violations":violations},"maxima":{},
                        "sets":{"tuples":cov.iter().cloned().collect::<Vec<_>>()}},
               "samples":samples})
    );
    let _ = out.flush();
    0
}

//! Trace generator: one PRNG stream per run decides font, container, swarm configuration,
//! fault plan and operation sequence. Output is an explicit `Trace`.

use std::collections::BTreeMap;
use std::rc::Rc;

use allsorts::binary::read::ReadScope;
use allsorts::font::read_cmap_subtable;
use allsorts::tables::cmap::Cmap;

use crate::disk::{self, Disk};
use crate::exec::{pristine_disk, Corpus};
use crate::fields;
use crate::rng::{run_seed, Rng};
use crate::surgery;
use crate::trace::{tag_to_string, Fault, Feat, FvRecord, Mode, Op, Positions, Surgery, Trace, WrapOpts};
use crate::util::guard;

#[derive(Clone, Copy, PartialEq, Eq, Debug)]
pub enum Container {
    Sfnt,
    Ttc,
    Woff,
    Woff2,
}

#[derive(Clone)]
pub struct FontInfo {
    pub path: String,
    pub file: Rc<Vec<u8>>,
    pub file_len: usize,
    pub container: Container,
    pub members: usize,
    pub disk: Disk,
    pub num_glyphs: u16,
    pub chars: Vec<u32>,
    /// (char, glyph id) of the selected cmap subtable, sorted by char.
    pub char_gids: Vec<(u32, u16)>,
    pub gpos_features: Vec<(u32, Vec<u16>)>,
    pub scripts: Vec<String>,
    pub langs: Vec<String>,
    pub axes: usize,
    pub gsub_features: Vec<(u32, Vec<u16>)>,
    pub dir: Vec<disk::DirEntry>,
    pub woff2_inner: Option<(usize, Option<usize>)>,
    pub broken: bool,
    /// Workload seeds shipped with the corpus (AOTS test cases): (script, language, feature, input
    /// glyph ids). AOTS fonts map U+0001..U+0063 to the glyph of the same number, so the glyph
    /// sequence is reached through `map_glyphs` as text.
    pub seeds: Rc<Vec<(String, String, String, Vec<u16>)>>,
    /// Per table: the (offset, width) of every primitive read the library makes while walking
    /// the pristine table (recorded through the verif hook on first use).
    pub consumed: std::cell::RefCell<BTreeMap<String, Rc<Vec<(usize, u8)>>>>,
    /// Long repeated-pattern texts are not combined with the run-growing surgeries: shaping is
    /// quadratic in the run length, so 8000 characters times the permitted growth (64x) would
    /// take minutes and be indistinguishable from a hang.
    pub long_text_ok: bool,
    /// A `frac` + `liga` GSUB was installed: Shape ops mostly ask for FRAC.
    pub frac_bias: bool,
}

impl FontInfo {
    fn has(&self, t: &str) -> bool {
        self.disk.tables.contains_key(&crate::trace::tag_from_str(t))
    }
    fn table_len(&self, t: &str) -> usize {
        self.disk
            .tables
            .get(&crate::trace::tag_from_str(t))
            .map(|v| v.len())
            .unwrap_or(0)
    }
    fn tags(&self) -> Vec<String> {
        self.disk.tables.keys().map(|t| tag_to_string(*t)).collect()
    }
}

pub struct Generator {
    /// font file name -> AOTS test case inputs
    aots_seeds: BTreeMap<String, Rc<Vec<(String, String, String, Vec<u16>)>>>,
    root: String,
    aots: Vec<String>,
    small: Vec<String>,
    large: Vec<String>,
    containers: Vec<String>,
    variable: Vec<String>,
    images: Vec<String>,
    info: BTreeMap<String, Rc<FontInfo>>,
}

fn be16(d: &[u8], o: usize) -> Option<usize> {
    d.get(o..o + 2)
        .map(|b| usize::from(u16::from_be_bytes([b[0], b[1]])))
}

fn walk_dir(dir: &std::path::Path, out: &mut Vec<std::path::PathBuf>) {
    if let Ok(rd) = std::fs::read_dir(dir) {
        let mut entries: Vec<_> = rd.filter_map(|e| e.ok()).map(|e| e.path()).collect();
        entries.sort();
        for p in entries {
            if p.is_dir() {
                walk_dir(&p, out);
            } else {
                out.push(p);
            }
        }
    }
}

/// `gsub_test("font.otf", "latn", "UNKN", "test", &[00, 20, 21], ...)` lines of the corpus' AOTS
/// test cases: the input glyph sequences known to exercise each font's lookups.
fn parse_aots_seeds(root: &str) -> BTreeMap<String, Rc<Vec<(String, String, String, Vec<u16>)>>> {
    let mut out: BTreeMap<String, Vec<(String, String, String, Vec<u16>)>> = BTreeMap::new();
    let Ok(text) = std::fs::read_to_string(format!("{}/aots/testcases.rs", root)) else {
        return BTreeMap::new();
    };
    let mut rest = text.as_str();
    while let Some(p) = rest.find("_test(") {
        let kind_ok = rest[..p].ends_with("gsub") || rest[..p].ends_with("gpos");
        rest = &rest[p + 6..];
        if !kind_ok {
            continue;
        }
        let end = rest.find("\n}").unwrap_or(rest.len().min(600));
        let call = &rest[..end.min(rest.len())];
        let strings: Vec<&str> = call.split('"').skip(1).step_by(2).take(4).collect();
        if strings.len() < 4 {
            continue;
        }
        let Some(a) = call.find("&[") else { continue };
        let Some(b) = call[a..].find(']') else { continue };
        let gids: Vec<u16> = call[a + 2..a + b]
            .split(',')
            .filter_map(|x| x.trim().parse::<u16>().ok())
            .collect();
        if gids.is_empty() {
            continue;
        }
        out.entry(strings[0].to_string()).or_default().push((
            strings[1].to_string(),
            strings[2].to_string(),
            strings[3].to_string(),
            gids,
        ));
    }
    out.into_iter().map(|(k, v)| (k, Rc::new(v))).collect()
}

const COMPLEX_SCRIPTS: &[&str] = &[
    "deva", "dev2", "beng", "bng2", "guru", "gur2", "gujr", "gjr2", "orya", "ory2", "taml", "tml2",
    "telu", "tel2", "knda", "knd2", "mlym", "mlm2", "sinh", "khmr", "mymr", "mym2", "arab", "syrc",
    "thai", "lao ", "latn", "DFLT", "cyrl", "grek", "hebr",
];

const SPECIAL_CHARS: &[u32] = &[
    0x200D, 0x200C, 0x25CC, 0xFE0E, 0xFE0F, 0xFE00, 0x0301, 0x0308, 0x0020, 0x00A0, 0x002F, 0x2044,
    0x0031, 0x0032, 0x0033, 0x1F600, 0x1F1E6, 0x1F1FA, 0x0E33, 0x0EB3, 0x0E48, 0x0E49, 0x0E38, 0x093C, 0x094D, 0x0930,
    0x09CD, 0x09AF, 0x09BC, 0x0A4D, 0x0ACD, 0x0B4D, 0x0BCD, 0x0C4D, 0x0CCD, 0x0CB0, 0x0D4D, 0x0DCA,
    0x17D2, 0x17C1, 0x17BE, 0x1039, 0x103A, 0x1031, 0x103C, 0x0651, 0x064B, 0x0670, 0x0640, 0x0627,
    0x0644, 0x0710, 0x0712, 0x2060, 0x034F, 0xE0100, 0x10FFFF, 0x0000, 0xFFFD, 0x00AD, 0x2010,
];

const FEATURE_TAGS: &[&str] = &[
    "liga", "rlig", "calt", "ccmp", "locl", "fina", "init", "medi", "isol", "rvrn", "kern", "frac",
    "numr", "dnom", "vert", "vrt2", "smcp", "c2sc", "salt", "ss01", "aalt", "xxxx", "akhn", "rphf",
    "half", "pres", "abvs", "blws", "psts", "haln", "nukt", "mark", "mkmk", "curs", "dist",
];

const DEFAULT_MASK: u64 = (1 << 8) | (1 << 38) | (1 << 11) | (1 << 22) | (1 << 24) | (1 << 7);

const LAYOUT_TABLES: &[&str] = &["GSUB", "GPOS", "GDEF", "kern", "morx"];

impl Generator {
    pub fn new(root: &str, _corpus: &mut Corpus) -> Result<Generator, String> {
        let mut files = Vec::new();
        walk_dir(std::path::Path::new(root), &mut files);
        let mut g = Generator {
            aots_seeds: parse_aots_seeds(root),
            root: root.to_string(),
            aots: Vec::new(),
            small: Vec::new(),
            large: Vec::new(),
            containers: Vec::new(),
            variable: Vec::new(),
            images: Vec::new(),
            info: BTreeMap::new(),
        };
        for p in files {
            let rel = p
                .strip_prefix(root)
                .map_err(|e| e.to_string())?
                .to_string_lossy()
                .to_string();
            let ext = p
                .extension()
                .map(|e| e.to_string_lossy().to_lowercase())
                .unwrap_or_default();
            let len = std::fs::metadata(&p).map(|m| m.len()).unwrap_or(0);
            if len < 12 {
                continue;
            }
            match ext.as_str() {
                "woff" | "woff2" | "ttc" | "otc" => g.containers.push(rel.clone()),
                "ttf" | "otf" => {
                    if rel.starts_with("aots/") {
                        g.aots.push(rel.clone());
                    } else if rel.starts_with("font_specimen/") {
                        continue;
                    } else if len <= 65536 {
                        g.small.push(rel.clone());
                    } else {
                        g.large.push(rel.clone());
                    }
                    if rel.contains("variable/")
                        || rel.contains("-VF")
                        || rel.contains("Variable")
                        || rel.contains("cff2/")
                    {
                        g.variable.push(rel.clone());
                    }
                    if rel.contains("sbix")
                        || rel.contains("svg/")
                        || rel.contains("Terminus")
                        || rel.contains("Siyamrupali")
                    {
                        g.images.push(rel.clone());
                    }
                }
                _ => {}
            }
        }
        if g.aots.is_empty() || g.small.is_empty() || g.large.is_empty() {
            return Err(format!("corpus under {} is incomplete", root));
        }
        Ok(g)
    }

    fn info(&mut self, rel: &str, corpus: &mut Corpus) -> Result<Rc<FontInfo>, String> {
        if let Some(i) = self.info.get(rel) {
            return Ok(i.clone());
        }
        let data = corpus.get(rel)?;
        let magic = data
            .get(0..4)
            .map(|b| u32::from_be_bytes([b[0], b[1], b[2], b[3]]))
            .unwrap_or(0);
        let container = match magic {
            disk::TTCF => Container::Ttc,
            disk::WOFF => Container::Woff,
            disk::WOF2 => Container::Woff2,
            _ => Container::Sfnt,
        };
        // Deliberately invalid fixtures (e.g. the W3C "must reject" WOFF files) have no disk
        // model; they are only used as file images.
        let (d, broken) = match guard(|| pristine_disk(&data, 0)) {
            Ok(Ok(d)) => (d, false),
            _ => (
                Disk {
                    flavour: 0,
                    tables: BTreeMap::new(),
                    errs: BTreeMap::new(),
                },
                true,
            ),
        };
        let members = match container {
            Container::Ttc => disk::ttc_count(&data),
            Container::Woff2 => {
                let data2 = data.clone();
                guard(move || {
                    let mut n = 0;
                    if let Ok(fd) = ReadScope::new(&data2).read::<allsorts::font_data::FontData<'_>>() {
                        while n < 8 && fd.table_provider(n).is_ok() {
                            n += 1;
                        }
                    }
                    n.max(1)
                })
                .unwrap_or(1)
            }
            _ => 1,
        };
        let get = |t: &str| d.tables.get(&crate::trace::tag_from_str(t)).cloned();
        let num_glyphs = get("maxp")
            .and_then(|m| be16(&m, 4))
            .map(|v| v as u16)
            .unwrap_or(0);
        // cmap coverage through the library on the pristine font (generator-side only).
        let mut chars: Vec<u32> = Vec::new();
        let mut char_gids: Vec<(u32, u16)> = Vec::new();
        if let Some(cmap_data) = get("cmap") {
            let r = guard(|| {
                let mut v = Vec::new();
                if let Ok(cmap) = ReadScope::new(&cmap_data).read::<Cmap<'_>>() {
                    if let Ok(Some((_, sub))) = read_cmap_subtable(&cmap) {
                        let _ = sub.mappings_fn(|c, g| {
                            if v.len() < 20000 {
                                v.push((c, g))
                            }
                        });
                    }
                }
                v
            });
            if let Ok(v) = r {
                chars = v.iter().map(|x| x.0).collect();
                char_gids = v;
            }
        }
        chars.sort_unstable();
        chars.dedup();
        char_gids.sort_unstable();
        char_gids.dedup_by_key(|x| x.0);
        let mut scripts = Vec::new();
        let mut langs = Vec::new();
        for t in ["GSUB", "GPOS"] {
            if let Some(tab) = get(t) {
                if let Some(sl) = be16(&tab, 4) {
                    let cnt = be16(&tab, sl).unwrap_or(0).min(64);
                    for k in 0..cnt {
                        let r = sl + 2 + 6 * k;
                        if let Some(b) = tab.get(r..r + 4) {
                            let s = tag_to_string(u32::from_be_bytes([b[0], b[1], b[2], b[3]]));
                            if !scripts.contains(&s) {
                                scripts.push(s);
                            }
                        }
                        if let Some(so) = be16(&tab, r + 4) {
                            let st = sl + so;
                            let lc = be16(&tab, st + 2).unwrap_or(0).min(32);
                            for j in 0..lc {
                                if let Some(b) = tab.get(st + 4 + 6 * j..st + 8 + 6 * j) {
                                    let s =
                                        tag_to_string(u32::from_be_bytes([b[0], b[1], b[2], b[3]]));
                                    if !langs.contains(&s) {
                                        langs.push(s);
                                    }
                                }
                            }
                        }
                    }
                }
            }
        }
        let axes = get("fvar").and_then(|f| be16(&f, 8)).unwrap_or(0);
        let gsub_features = get("GSUB")
            .map(|t| surgery::feature_list(&t))
            .unwrap_or_default();
        let gpos_features = get("GPOS")
            .map(|t| surgery::feature_list(&t))
            .unwrap_or_default();
        let dir = if container == Container::Sfnt {
            disk::sfnt_directory(&data, 0).map(|x| x.1).unwrap_or_default()
        } else {
            Vec::new()
        };
        let woff2_inner = if container == Container::Woff2 {
            // decompressed length and the start of the (transformed) glyf table if first
            let mut len = 0usize;
            let _ = disk::woff2_rewrap(&data, |raw| len = raw.len());
            let glyf = disk::woff2_layout(&data).and_then(|l| {
                l.entries
                    .iter()
                    .find(|e| (e.0 == 10 || e.1 == 0x676c_7966) && e.4)
                    .map(|e| e.2)
            });
            Some((len, glyf))
        } else {
            None
        };
        let info = Rc::new(FontInfo {
            path: rel.to_string(),
            file: data.clone(),
            file_len: data.len(),
            container,
            members,
            disk: d,
            num_glyphs,
            chars,
            char_gids,
            gpos_features,
            scripts,
            langs,
            axes,
            gsub_features,
            dir,
            woff2_inner,
            broken,
            seeds: self
                .aots_seeds
                .get(rel.rsplit('/').next().unwrap_or(""))
                .cloned()
                .unwrap_or_default(),
            consumed: std::cell::RefCell::new(BTreeMap::new()),
            long_text_ok: true,
            frac_bias: false,
        });
        self.info.insert(rel.to_string(), info.clone());
        Ok(info)
    }

    fn pick_font(&self, rng: &mut Rng, prop: &str) -> String {
        // class weights: aots, small, large, containers, variable, images
        let w: [u32; 6] = match prop {
            "C02" => [30, 25, 35, 2, 8, 0],
            "C03" => [25, 25, 25, 5, 12, 8],
            "C09" => [25, 30, 15, 12, 18, 0],
            _ => [30, 22, 12, 16, 12, 8],
        };
        let lists: [&Vec<String>; 6] = [
            &self.aots,
            &self.small,
            &self.large,
            &self.containers,
            &self.variable,
            &self.images,
        ];
        loop {
            let c = rng.weighted(&w);
            if !lists[c].is_empty() {
                return rng.pick(lists[c]).clone();
            }
        }
    }

    pub fn generate(
        &mut self,
        prop: &str,
        seed: u64,
        run: u64,
        corpus: &mut Corpus,
    ) -> Result<Trace, String> {
        let mut rng = Rng::new(run_seed(seed, prop, run));
        let font = self.pick_font(&mut rng, prop);
        let info = self.info(&font, corpus)?;
        let mut trace = Trace {
            version: 1,
            property: prop.to_string(),
            seed,
            run,
            font: font.clone(),
            font_index: 0,
            mode: Mode::Provider,
            rewrap_woff2: false,
            small_stack: false,
            woff2_tail_blocks: 0,
            woff2_tail_claimed: false,
            woff2_meta_blocks: 0,
            wrap_woff2: false,
            wrap_opts: None,
            surgery: Vec::new(),
            faults: Vec::new(),
            ops: Vec::new(),
        };
        // Installed structures the corpus lacks (morx, CBLC/CBDT, EBLC/EBDT, vhea/vmtx): the run
        // then sees a font that has them, so faults and ops can target them.
        let installed = if info.broken || info.container != Container::Sfnt {
            None
        } else {
            gen_install(&mut rng, &info, prop)
        };
        let info: Rc<FontInfo> = match installed {
            Some((modified, surgeries)) => {
                trace.surgery.extend(surgeries);
                Rc::new(modified)
            }
            None => info,
        };
        match prop {
            "C02" => self.gen_c02(&mut rng, &info, &mut trace),
            "C03" => self.gen_c03(&mut rng, &info, &mut trace),
            "C09" => self.gen_c09(&mut rng, &info, &mut trace),
            _ => self.gen_c01(&mut rng, &info, &mut trace),
        }
        if prop == "C03" && trace.surgery.iter().any(|s| matches!(s, Surgery::MacRomanCmap { .. })) {
            // subsets that retain the colliding glyphs, with every cmap target
            let n = info.num_glyphs.min(60);
            let ids: Vec<u16> = (0..n).collect();
            trace.ops.push(Op::Subset { ids: ids.clone() });
            trace.ops.push(Op::PrinceSubset {
                ids,
                target: 1 + rng.below(4) as u8,
                cid: false,
            });
        }
        if trace.surgery.iter().any(|s| !matches!(s, Surgery::FeatureVariations { .. } | Surgery::FeatureVariationsMulti { .. })) {
            // installed tables exist only in the disk model
            trace.mode = Mode::Provider;
            trace.rewrap_woff2 = false;
            trace.wrap_woff2 = false;
            trace.wrap_opts = None;
            trace.faults.retain(|f| f.targets().iter().all(|t| t != "file" && t != "inner"));
        }
        // Serve a bare sfnt through the real WOFF2 provider (null transforms): table faults only.
        let p_wrap = match prop {
            "C03" => 6,
            "C09" => 8,
            "C02" => 0,
            _ => 5,
        };
        if !info.broken
            && info.container == Container::Sfnt
            && trace.mode == Mode::Provider
            && rng.pct(p_wrap)
            && trace.faults.iter().all(|f| !matches!(f, Fault::ProviderErr { .. }))
        {
            trace.mode = Mode::Image;
            trace.wrap_woff2 = true;
            if info.has("glyf") && rng.pct(75) {
                // The tail-elision construct triggers a recorded finding (known_findings.json,
                // WOFF2 hmtx reconstruction) on every font, so generated files avoid it; the
                // two corpus fixtures that use it keep that finding visible.
                trace.wrap_opts = Some(WrapOpts {
                    transform_glyf: rng.pct(85),
                    transform_hmtx: rng.pct(50),
                    variant: rng.below(64),
                    avoid: crate::woff2_build::AVOID_HMTX_ELIDE_TAIL
                        | crate::woff2_build::AVOID_HMTX_ELIDE_EMPTY_TAIL,
                });
            }
            // Faults inside the table data block of the generated file (C01 / C14): they reach the
            // transformed-glyf / hmtx decoders of every TrueType corpus font, not only the six
            // WOFF2 fixtures.
            if trace.wrap_opts.is_some() && !matches!(prop, "C03" | "C09" | "C02") && rng.pct(65) {
                let mut d = info.disk.clone();
                trace.faults.clear();
                let image = crate::exec::build_wrapped(&d, &trace);
                d.tables.clear();
                if let Some(layout) = disk::woff2_layout(&image) {
                    let ilen: usize = layout.entries.iter().map(|e| e.3).sum();
                    let glyf = layout
                        .entries
                        .iter()
                        .find(|e| (e.0 == 10 || e.1 == 0x676c_7966) && e.4)
                        .map(|e| e.2);
                    let hmtx = layout
                        .entries
                        .iter()
                        .find(|e| (e.0 == 3 || e.1 == 0x686d_7478) && e.4)
                        .map(|e| (e.2, e.3));
                    if ilen > 0 {
                        trace.rewrap_woff2 = true;
                        let n = 1 + rng.usize_below(2);
                        for _ in 0..n {
                            let target = "inner".to_string();
                            let f = match rng.below(8) {
                                0 => Fault::BitFlip {
                                    target,
                                    off: rng.usize_below(ilen),
                                    mask: 1 << rng.below(8),
                                },
                                1 => Fault::Truncate {
                                    target,
                                    len: rng.usize_below(ilen),
                                },
                                2 => match hmtx {
                                    // the transformed hmtx: flags byte and advance stream
                                    Some((off, len)) => Fault::Set {
                                        target,
                                        off: off + rng.usize_below(len.min(8).max(1)),
                                        width: 1,
                                        val: boundary_value(&mut rng, 1, len, 0),
                                        field: "woff2.hmtx.byte".into(),
                                    },
                                    None => Fault::ZeroRange {
                                        target,
                                        off: rng.usize_below(ilen),
                                        len: 1 + rng.usize_below(32),
                                    },
                                },
                                3 => match glyf {
                                    // somewhere inside the glyf streams (bit flips in nContour /
                                    // nPoints / flag / glyph / composite / bbox / instruction data)
                                    Some(g) => Fault::BitFlip {
                                        target,
                                        off: g + 36 + rng.usize_below(ilen.saturating_sub(g + 36).min(4096).max(1)),
                                        mask: 1 << rng.below(8),
                                    },
                                    None => Fault::BitFlip {
                                        target,
                                        off: rng.usize_below(ilen),
                                        mask: 1 << rng.below(8),
                                    },
                                },
                                _ => {
                                    let fs = fields::locate_woff2_inner(ilen, glyf, &mut rng);
                                    let f = rng.pick(&fs).clone();
                                    Fault::Set {
                                        target,
                                        off: f.off,
                                        width: f.width,
                                        val: boundary_value(&mut rng, f.width, ilen, 0),
                                        field: f.name,
                                    }
                                }
                            };
                            trace.faults.push(f);
                        }
                    }
                }
            }
            if prop == "C09" && rng.pct(60) {
                trace.ops.insert(0, Op::Reconstruct);
            }
            if prop == "C03" {
                // pure decodes / writers at the end: byte-identical on fresh threads
                let k = if info.axes > 0 { "Instance" } else { *rng.pick(&["Subset", "WholeFont", "Load"]) };
                trace.ops.push(gen_op(&mut rng, &info, k));
            }
        }
        // Faults that name a glyph (`...#g<id>`): aim some of the per-glyph ops at that glyph.
        let mut focus_gids: Vec<u16> = trace
            .faults
            .iter()
            .filter_map(|f| match f {
                Fault::Set { field, .. } | Fault::Write { field, .. } => field
                    .rsplit_once("#g")
                    .and_then(|(_, g)| g.trim_end_matches("@file").parse::<u16>().ok()),
                _ => None,
            })
            .collect();
        // ... and surgeries that are about particular glyphs
        for sgy in &trace.surgery {
            if let Surgery::InstallCff2Subrs { glyphs, .. } = sgy {
                focus_gids.extend(glyphs.iter().copied().filter(|g| *g < info.num_glyphs));
            }
            if let Surgery::InstallVarComposite { glyph, .. } | Surgery::InstallVarSimple { glyph, .. } = sgy {
                focus_gids.push(*glyph);
            }
        }
        if !focus_gids.is_empty() {
            for op in trace.ops.iter_mut() {
                let g = *rng.pick(&focus_gids);
                match op {
                    Op::Outline { gid, .. } | Op::HAdvance { gid } | Op::VAdvance { gid } | Op::GlyphImage { gid, .. }
                        if rng.pct(55) =>
                    {
                        *gid = g
                    }
                    Op::Subset { ids } | Op::PrinceSubset { ids, .. } if rng.pct(60) && !ids.contains(&g) => {
                        ids.push(g)
                    }
                    Op::GlyphNames { ids } if rng.pct(40) => ids.push(g),
                    _ => {}
                }
            }
            // an immediate second look at the same glyph on the same long-lived object
            if prop == "C03" && rng.pct(50) {
                let g = *rng.pick(&focus_gids);
                trace.ops.push(Op::Outline { gid: g, tuple: None });
                trace.ops.push(Op::Outline { gid: g, tuple: None });
            }
        }
        // the stack is one more resource seam: a few percent of the runs get what a spawned
        // thread gets by default
        trace.small_stack = rng.pct(8);
        if info.broken && trace.mode == Mode::Provider {
            trace.mode = Mode::Image;
            trace.faults.retain(|f| f.targets().iter().all(|t| t == "file"));
            trace.surgery.clear();
        }
        Ok(trace)
    }

    // ------------------------------------------------------------------ C01 / C14
    fn gen_c01(&self, rng: &mut Rng, info: &FontInfo, t: &mut Trace) {
        let image = match info.container {
            Container::Sfnt => rng.pct(25),
            _ => rng.pct(70),
        };
        let nfaults = [0usize, 1, 1, 1, 1, 1, 2, 2, 2, 3, 4][rng.usize_below(11)];
        let nfaults = if rng.pct(8) { 0 } else { nfaults.max(1) };
        if image {
            t.mode = Mode::Image;
            t.font_index = if info.members > 1 && rng.pct(60) {
                rng.usize_below(info.members + 1)
            } else {
                0
            };
            if info.container == Container::Woff2 && rng.pct(60) {
                t.rewrap_woff2 = true;
                if rng.pct(5) {
                    t.woff2_tail_blocks = *rng.pick(&[1u32, 4, 40, 250]);
                    t.woff2_tail_claimed = rng.pct(50);
                } else if rng.pct(4) {
                    t.woff2_meta_blocks = *rng.pick(&[1u32, 4, 40, 250]);
                }
            }
            for _ in 0..nfaults {
                if let Some(f) = gen_file_fault(rng, info, t.rewrap_woff2) {
                    t.faults.push(f);
                }
            }
        } else if (info.has("CFF ") || info.has("CFF2")) && rng.pct(4) {
            // compound crafted fault: subroutine fan-out (INDEX rewrite + calling glyph program)
            let tag = if info.has("CFF ") { "CFF " } else { "CFF2" };
            if let Some(data) = info.disk.tables.get(&crate::trace::tag_from_str(tag)) {
                if let Some(fields) = fields::cff_subr_bomb(tag, data, rng) {
                    for f in fields {
                        t.faults.push(Fault::Write {
                            target: tag.to_string(),
                            off: f.off,
                            bytes: f.bytes.unwrap_or_default(),
                            field: f.name,
                        });
                    }
                }
            }
        } else {
            // tables a surgery of this run installed or rewrote draw half of the faults
            let mut installed: Vec<&str> = Vec::new();
            for sgy in &t.surgery {
                installed.extend_from_slice(match sgy {
                    Surgery::InstallBitmaps { colour: true, .. } => &["CBLC", "CBDT"],
                    Surgery::InstallBitmaps { colour: false, .. } => &["EBLC", "EBDT"],
                    Surgery::InstallMorx { .. } => &["morx"],
                    Surgery::InstallKern { .. } => &["kern"],
                    Surgery::InstallVarGpos { .. } => &["GPOS", "GDEF"],
                    Surgery::InstallReverseChain { .. }
                    | Surgery::InstallExpansion { .. }
                    | Surgery::InstallContextFanout { .. } => &["GSUB"],
                    Surgery::InstallAliasedLists { table, .. } => {
                        if table == "GPOS" {
                            &["GPOS"]
                        } else {
                            &["GSUB"]
                        }
                    }
                    Surgery::InstallVertical { .. } => &["vhea", "vmtx"],
                    Surgery::CompactHmtx { .. } => &["hmtx", "hhea"],
                    Surgery::MacRomanCmap { .. } => &["cmap"],
                    Surgery::LongNames { .. } => &["name"],
                    Surgery::InstallCff2Subrs { .. } => &["CFF2"],
                    Surgery::InstallCvar { .. } => &["cvar", "cvt "],
                    Surgery::InstallVarComposite { .. } => &["glyf", "gvar"],
                    Surgery::InstallVarSimple { .. } => &["gvar"],
                    Surgery::InstallAvar { .. } => &["avar"],
                    Surgery::PostFormat { .. } => &["post"],
                    _ => &[],
                });
            }
            installed.retain(|x| info.has(x));
            let targets = if !installed.is_empty() && rng.pct(50) {
                (0..1 + rng.usize_below(2)).map(|_| rng.pick(&installed).to_string()).collect()
            } else {
                pick_targets(rng, info, None)
            };
            for _ in 0..nfaults {
                if let Some(f) = gen_table_fault(rng, info, &targets) {
                    t.faults.push(f);
                }
            }
        }
        let cap = if rng.pct(70) { 6 } else { 14 };
        let nops = 1 + rng.usize_below(cap);
        let touched: Vec<String> = t.faults.iter().flat_map(|f| f.targets()).collect();
        let enabled = swarm_subset(rng, ALL_KINDS);
        if image && rng.pct(70) {
            t.ops.push(Op::Load {
                index: t.font_index,
            });
        }
        if t.woff2_meta_blocks > 0 {
            t.ops.push(Op::Metadata);
        }
        for _ in 0..nops {
            let kind = if !touched.is_empty() && rng.pct(65) {
                let tt = rng.pick(&touched).clone();
                *rng.pick(consumers_of(&tt))
            } else {
                *rng.pick(&enabled)
            };
            t.ops.push(gen_op(rng, info, kind));
        }
    }

    // ------------------------------------------------------------------ C02
    fn gen_c02(&self, rng: &mut Rng, info: &FontInfo, t: &mut Trace) {
        if !rng.pct(40) {
            let mut allowed: Vec<&str> = LAYOUT_TABLES
                .iter()
                .copied()
                .filter(|x| info.has(x))
                .collect();
            if rng.pct(15) {
                for x in ["maxp", "hmtx", "hhea", "vhea", "vmtx", "cmap", "fvar"] {
                    if info.has(x) {
                        allowed.push(x);
                    }
                }
            }
            if !allowed.is_empty() {
                let n = [1usize, 1, 1, 2, 2, 3][rng.usize_below(6)];
                let installed_morx = t.surgery.iter().any(|s| matches!(s, Surgery::InstallMorx { .. }));
                let installed_kern = t.surgery.iter().any(|s| matches!(s, Surgery::InstallKern { .. }));
                let installed_vargpos = t.surgery.iter().any(|s| matches!(s, Surgery::InstallVarGpos { .. }));
                let targets: Vec<String> = (0..2)
                    .map(|_| {
                        if t.surgery.iter().any(|s| matches!(s, Surgery::InstallReverseChain { .. })) && rng.pct(75) {
                            "GSUB".to_string()
                        } else if installed_vargpos && rng.pct(75) {
                            if rng.pct(50) { "GDEF".to_string() } else { "GPOS".to_string() }
                        } else if installed_kern && rng.pct(75) {
                            "kern".to_string()
                        } else if installed_morx && rng.pct(75) {
                            "morx".to_string()
                        } else {
                            rng.pick(&allowed).to_string()
                        }
                    })
                    .collect();
                for _ in 0..n {
                    if let Some(f) = gen_table_fault(rng, info, &targets) {
                        t.faults.push(f);
                    }
                }
            }
        }
        if rng.pct(10) && !info.gsub_features.is_empty() {
            if let Some(s) = gen_surgery(rng, info) {
                t.surgery.push(s);
            }
            if rng.pct(35) && info.container == Container::Sfnt {
                if let Some(s) = gen_rvrn(rng, info) {
                    t.surgery.push(s);
                }
            }
        } else if rng.pct(4) && !info.gpos_features.is_empty() {
            if let Some(s) = gen_surgery_gpos(rng, info) {
                t.surgery.push(s);
            }
        }
        let cap = if rng.pct(75) { 4 } else { 10 };
        let nops = 1 + rng.usize_below(cap);
        for _ in 0..nops {
            let kind = if rng.pct(85) { "Shape" } else { "MapGlyphs" };
            t.ops.push(gen_op(rng, info, kind));
        }
    }

    // ------------------------------------------------------------------ C03
    fn gen_c03(&self, rng: &mut Rng, info: &FontInfo, t: &mut Trace) {
        if rng.pct(25) && !info.gsub_features.is_empty() && info.container == Container::Sfnt {
            if let Some(s) = gen_surgery(rng, info) {
                t.surgery.push(s);
            }
            if rng.pct(20) {
                if let Some(s) = gen_rvrn(rng, info) {
                    t.surgery.push(s);
                }
            }
        } else if rng.pct(6) && !info.gpos_features.is_empty() && info.container == Container::Sfnt {
            if let Some(s) = gen_surgery_gpos(rng, info) {
                t.surgery.push(s);
            }
        } else if rng.pct(12) && info.container == Container::Sfnt {
            if let Some(s) = gen_relocate(rng, info) {
                t.surgery.push(s);
            }
        }
        if rng.pct(30) {
            let mut allowed: Vec<&str> = [
                "GSUB", "GPOS", "GDEF", "kern", "vhea", "vmtx", "OS/2", "post", "SVG ", "sbix",
                "CBLC", "CBDT", "EBLC", "EBDT", "fvar", "hmtx", "glyf", "CFF ", "name", "STAT",
            ]
            .iter()
            .copied()
            .filter(|x| info.has(x))
            .collect();
            if allowed.is_empty() {
                allowed.push("cmap");
            }
            let targets: Vec<String> = (0..2).map(|_| rng.pick(&allowed).to_string()).collect();
            for _ in 0..(1 + rng.usize_below(2)) {
                if let Some(f) = gen_table_fault(rng, info, &targets) {
                    t.faults.push(f);
                }
            }
        }
        if info.container != Container::Sfnt && rng.pct(50) {
            t.mode = Mode::Image;
            t.faults.clear();
        }
        let query_kinds: &[&str] = &[
            "Shape", "Shape", "Shape", "Shape", "MapGlyphs", "LookupGlyph", "LookupGlyph",
            "HAdvance", "VAdvance", "GlyphNames", "GlyphImage", "HasImages", "SetImageFilter",
            "FontQuery", "FeaturesSupported", "Outline", "Outline",
        ];
        let enabled = swarm_subset(rng, query_kinds);
        let cap = if rng.pct(60) { 6 } else { 16 };
        let nops = 2 + rng.usize_below(cap);
        let mut ops: Vec<Op> = Vec::new();
        for _ in 0..nops {
            if rng.pct(1) || (ops.is_empty() && rng.pct(4)) {
                // decode another (possibly truncated) file on the same thread
                let compressed: Vec<&String> = self
                    .containers
                    .iter()
                    .filter(|c| c.ends_with(".woff2") || c.ends_with(".woff"))
                    .collect();
                let font = if !compressed.is_empty() && rng.pct(75) {
                    (*rng.pick(&compressed)).clone()
                } else if !self.containers.is_empty() && rng.pct(60) {
                    rng.pick(&self.containers).clone()
                } else {
                    rng.pick(&self.small).clone()
                };
                let len = std::fs::metadata(format!("{}/{}", self.root, font))
                    .map(|m| m.len() as usize)
                    .unwrap_or(0);
                let index = if rng.pct(85) { 0 } else { rng.usize_below(4) };
                if rng.pct(60) && len > 64 {
                    // fail-then-retry: a decode that breaks off inside the compressed data,
                    // followed by a decode of the intact file
                    let mut cut = None;
                    let mut set = None;
                    let total = std::fs::read(format!("{}/{}", self.root, font))
                        .ok()
                        .filter(|d| d.len() > 24 && &d[0..4] == b"wOF2")
                        .map(|d| u32::from_be_bytes([d[20], d[21], d[22], d[23]]));
                    match total {
                        // WOFF2: shorten totalCompressedSize, the stream ends part-way
                        Some(t) if t > 8 && rng.pct(70) => {
                            set = Some((20usize, t - 1 - rng.below(u64::from(t) * 3 / 4) as u32));
                        }
                        _ => cut = Some(len - 1 - rng.usize_below(len / 2)),
                    }
                    ops.push(Op::Decoy {
                        font: font.clone(),
                        index,
                        cut,
                        set,
                    });
                    ops.push(Op::Decoy {
                        font,
                        index,
                        cut: None,
                        set: None,
                    });
                } else {
                    let cut = match rng.below(5) {
                        0 | 1 => None,
                        2 => Some(len / 2),
                        3 => Some(len.saturating_sub(1 + rng.usize_below(64))),
                        _ => Some(rng.usize_below(len.max(1))),
                    };
                    ops.push(Op::Decoy {
                        font,
                        index,
                        cut,
                        set: None,
                    });
                }
                continue;
            }
            if !ops.is_empty() && rng.pct(55) {
                // near-miss or exact repeat of an earlier op
                let base = rng.pick(&ops).clone();
                if rng.pct(25) {
                    ops.push(base);
                } else {
                    ops.push(near_miss(rng, info, &base));
                }
            } else {
                let kind = *rng.pick(&enabled);
                ops.push(gen_op(rng, info, kind));
            }
        }
        // occasionally a sweep over many distinct cache keys somewhere in the history, followed
        // by a repeat of an earlier layout query (a memo that evicts, trims or wraps)
        if rng.pct(5) && !info.chars.is_empty() {
            let earlier: Vec<Op> = ops
                .iter()
                .filter(|o| matches!(o, Op::Shape { .. } | Op::FeaturesSupported { .. }))
                .cloned()
                .collect();
            let (text, script, tuple) = match earlier.first() {
                Some(Op::Shape { text, script, tuple, .. }) => (text.chars().take(6).collect::<String>(), script.clone(), tuple.clone()),
                _ => (
                    info.chars.iter().take(3).filter_map(|c| char::from_u32(*c)).collect::<String>(),
                    gen_script(rng, info, ""),
                    gen_tuple(rng, info, true),
                ),
            };
            let at = rng.usize_below(ops.len() + 1);
            ops.insert(
                at,
                Op::ShapeSweep {
                    text,
                    script,
                    count: *rng.pick(&[20u16, 70, 140, 270, 300, 530]),
                    vary: rng.below(3) as u8,
                    tuple,
                },
            );
            if let Some(e) = earlier.first() {
                ops.push(e.clone());
            }
        }
        // occasionally a pure operation at the end (byte-identity across the fresh reference
        // and across repetitions on fresh threads)
        if rng.pct(15) {
            let k = *rng.pick(&["Subset", "Instance", "WholeFont", "PrinceSubset", "Load", "Load"]);
            ops.push(gen_op(rng, info, k));
        }
        t.ops = ops;
    }

    // ------------------------------------------------------------------ C09
    fn gen_c09(&self, rng: &mut Rng, info: &FontInfo, t: &mut Trace) {
        if rng.pct(50) {
            let targets = pick_targets(
                rng,
                info,
                Some(&[
                    "glyf", "loca", "maxp", "head", "hhea", "hmtx", "cmap", "post", "CFF ", "CFF2",
                    "name", "OS/2", "fvar", "gvar", "HVAR", "MVAR", "avar", "STAT", "cvt ", "vhea",
                    "vmtx",
                ]),
            );
            let n = [1usize, 1, 1, 2, 2, 3][rng.usize_below(6)];
            for _ in 0..n {
                if let Some(f) = gen_table_fault(rng, info, &targets) {
                    t.faults.push(f);
                }
            }
        }
        if info.container != Container::Sfnt && rng.pct(60) {
            t.mode = Mode::Image;
            t.faults.clear();
        }
        if info.container == Container::Woff2 && t.mode == Mode::Image && rng.pct(60) {
            t.ops.push(Op::Reconstruct);
        }
        let nops = 1 + rng.usize_below(3);
        for _ in 0..nops {
            let kinds: &[&str] = if info.axes > 0 {
                &["Subset", "PrinceSubset", "WholeFont", "Instance", "Instance", "Instance"]
            } else {
                &["Subset", "Subset", "PrinceSubset", "WholeFont"]
            };
            let k = *rng.pick(kinds);
            t.ops.push(gen_op(rng, info, k));
        }
    }
}

const ALL_KINDS: &[&str] = &[
    "FontNew", "LookupGlyph", "MapGlyphs", "HAdvance", "VAdvance", "GlyphNames",
    "GlyphImage", "HasImages", "SetImageFilter", "FontQuery", "TableData", "ParseTable",
    "ParseTable", "ParseTable", "Cmap", "Names", "Outline", "Outline", "Subset", "PrinceSubset",
    "WholeFont", "Instance", "Metadata", "Load", "FeaturesSupported", "Shape", "Reconstruct",
];

fn swarm_subset<'a>(rng: &mut Rng, all: &[&'a str]) -> Vec<&'a str> {
    let mut v: Vec<&str> = all.iter().copied().filter(|_| rng.pct(60)).collect();
    if v.len() < 2 {
        v = all.to_vec();
    }
    v
}

fn consumers_of(table: &str) -> &'static [&'static str] {
    match table {
        "cmap" => &["FontNew", "LookupGlyph", "MapGlyphs", "Cmap", "GlyphNames", "Subset", "ParseTable", "PrinceSubset"],
        "head" | "maxp" | "hhea" | "hmtx" => &["FontNew", "HAdvance", "Subset", "WholeFont", "Instance", "Outline", "ParseTable", "PrinceSubset"],
        "loca" | "glyf" => &["Outline", "Outline", "Subset", "WholeFont", "Instance", "ParseTable", "PrinceSubset"],
        "CFF " => &["Outline", "Outline", "Subset", "PrinceSubset", "ParseTable"],
        "CFF2" => &["Outline", "Outline", "Subset", "PrinceSubset", "Instance", "ParseTable"],
        "post" => &["GlyphNames", "Subset", "ParseTable", "Instance"],
        "name" => &["Names", "Instance", "ParseTable", "FontQuery"],
        "OS/2" => &["FontQuery", "Instance", "LookupGlyph", "ParseTable"],
        "GSUB" | "GPOS" | "GDEF" | "kern" | "morx" => &["Shape", "Shape", "FeaturesSupported", "FontQuery", "ParseTable"],
        "fvar" | "avar" | "gvar" | "HVAR" | "MVAR" | "STAT" | "cvar" | "cvt " => &["Instance", "Instance", "Shape", "FontQuery", "ParseTable", "Outline", "FontNew"],
        "vhea" | "vmtx" => &["VAdvance", "Shape", "Instance", "ParseTable", "FontQuery"],
        "SVG " | "sbix" | "CBLC" | "CBDT" | "EBLC" | "EBDT" => &["GlyphImage", "GlyphImage", "HasImages", "LookupGlyph", "ParseTable", "SetImageFilter"],
        "file" | "inner" => &["Load", "FontNew", "TableData", "ParseTable", "Outline", "Subset", "Metadata", "HAdvance", "Cmap", "WholeFont", "Instance", "GlyphNames"],
        _ => &["TableData", "ParseTable", "WholeFont", "Load"],
    }
}

fn pick_targets(rng: &mut Rng, info: &FontInfo, allowed: Option<&[&str]>) -> Vec<String> {
    let tags: Vec<String> = info
        .tags()
        .into_iter()
        .filter(|t| allowed.map_or(true, |a| a.contains(&t.as_str())))
        .collect();
    if tags.is_empty() {
        return vec!["cmap".to_string()];
    }
    // weights: structured tables the library parses deeply get more weight
    let weights: Vec<u32> = tags
        .iter()
        .map(|t| match t.as_str() {
            "cmap" | "glyf" | "loca" | "CFF " | "CFF2" | "GSUB" | "GPOS" => 10,
            "maxp" | "hhea" | "head" | "hmtx" | "fvar" | "gvar" | "GDEF" | "kern" | "post" | "name" => 6,
            "HVAR" | "MVAR" | "STAT" | "avar" | "OS/2" | "sbix" | "SVG " | "CBLC" | "CBDT" | "EBLC" | "EBDT" | "vhea" | "vmtx" | "morx" | "cvar" => 5,
            _ => 1,
        })
        .collect();
    let n = 1 + rng.usize_below(2);
    (0..n).map(|_| tags[rng.weighted(&weights)].clone()).collect()
}

fn boundary_value(rng: &mut Rng, width: u8, len: usize, old: u32) -> u32 {
    let max: u32 = match width {
        1 => 0xFF,
        2 => 0xFFFF,
        _ => 0xFFFF_FFFF,
    };
    let len = len as u32;
    // the small values and neighbours of the old value are where most off-by-one and
    // emptiness assumptions live: give them a third of the draws
    if rng.pct(34) {
        let v = match rng.below(7) {
            0 | 1 => 0,
            2 => 1,
            3 => old.wrapping_add(1),
            4 => old.wrapping_sub(1),
            // a handful of bytes: shorter than any header that is about to be read
            5 => 2 + rng.below(7) as u32,
            _ => max,
        };
        return v & max;
    }
    let v = match rng.below(22) {
        0 => 0,
        1 => 1,
        2 => 2,
        3 => 0x7F,
        4 => 0x80,
        5 => 0xFF,
        6 => 0x7FFF,
        7 => 0x8000,
        8 => 0xFFFE,
        9 => 0xFFFF,
        10 => len.wrapping_sub(1),
        11 => len,
        12 => len.wrapping_add(1),
        13 => 0x7FFF_FFFF,
        14 => 0x8000_0000,
        15 => 0xFFFF_FFFF,
        16 => old.wrapping_add(1),
        17 => old.wrapping_sub(1),
        18 => old.wrapping_mul(2),
        19 => old / 2,
        20 => old ^ (1 << rng.below(u64::from(width) * 8)),
        _ => rng.next_u64() as u32,
    };
    v & max
}

fn read_be(d: &[u8], off: usize, width: u8) -> u32 {
    let mut v = 0u32;
    for i in 0..usize::from(width) {
        v = (v << 8) | u32::from(d.get(off + i).copied().unwrap_or(0));
    }
    v
}

fn gen_table_fault(rng: &mut Rng, info: &FontInfo, targets: &[String]) -> Option<Fault> {
    let target = rng.pick(targets).clone();
    let data = info
        .disk
        .tables
        .get(&crate::trace::tag_from_str(&target))?
        .clone();
    let len = data.len();
    let off_in = |rng: &mut Rng| -> usize {
        if len == 0 {
            0
        } else if rng.pct(50) {
            rng.usize_below(len.min(64))
        } else {
            rng.usize_below(len)
        }
    };
    // read-trace-guided: a boundary value on a field the parsers were seen to consume
    if rng.pct(22) {
        let fields = consumed_fields(info, &target);
        if !fields.is_empty() {
            // half of the time among the first 64 consumed fields (headers, counts, offsets)
            let k = if rng.pct(50) { rng.usize_below(fields.len().min(64)) } else { rng.usize_below(fields.len()) };
            let (off, width) = fields[k];
            let width = if width == 3 { 2 } else { width };
            let old = read_be(&data, off, width);
            return Some(Fault::Set {
                target,
                off,
                width,
                val: boundary_value(rng, width, len, old),
                field: format!("consumed@{}", off),
            });
        }
    }
    Some(match rng.weighted(&[12, 14, 34, 10, 6, 8, 6, 4, 6]) {
        0 => Fault::BitFlip {
            target,
            off: off_in(rng),
            mask: 1 << rng.below(8),
        },
        1 => {
            let width = *rng.pick(&[1u8, 2, 2, 4]);
            let off = off_in(rng) / usize::from(width) * usize::from(width);
            let old = read_be(&data, off, width);
            Fault::Set {
                target,
                off,
                width,
                val: boundary_value(rng, width, len, old),
                field: String::new(),
            }
        }
        2 => {
            let fields = match (target.as_str(), loca_offsets(info)) {
                ("glyf", Some(offs)) => fields::locate_glyf(&data, &offs, rng),
                _ => fields::locate(&target, &data, rng),
            };
            if fields.is_empty() {
                let off = off_in(rng) & !1;
                let old = read_be(&data, off, 2);
                Fault::Set {
                    target,
                    off,
                    width: 2,
                    val: boundary_value(rng, 2, len, old),
                    field: String::new(),
                }
            } else {
                let crafted: Vec<&fields::Field> = fields.iter().filter(|f| f.bytes.is_some()).collect();
                let f = if !crafted.is_empty() && rng.pct(25) {
                    (*rng.pick(&crafted)).clone()
                } else {
                    rng.pick(&fields).clone()
                };
                if let Some(bytes) = f.bytes {
                    return Some(Fault::Write {
                        target,
                        off: f.off,
                        bytes,
                        field: f.name,
                    });
                }
                let old = read_be(&data, f.off, f.width);
                Fault::Set {
                    target,
                    off: f.off,
                    width: f.width,
                    val: boundary_value(rng, f.width, len, old),
                    field: f.name,
                }
            }
        }
        3 => {
            let new_len = match rng.below(6) {
                0 => 0,
                1 => len.saturating_sub(1),
                2 => len.min(4).saturating_sub(1),
                3 => len / 2,
                _ => rng.usize_below(len.max(1)),
            };
            Fault::Truncate {
                target,
                len: new_len,
            }
        }
        4 => {
            let off = off_in(rng);
            Fault::ZeroRange {
                target,
                off,
                len: 1 + rng.usize_below(64),
            }
        }
        5 => {
            let src = rng.usize_below(len.max(1)) & !3;
            let dst = off_in(rng) & !3;
            Fault::CopyRange {
                target,
                src,
                dst,
                len: 4 * (1 + rng.usize_below(16)),
            }
        }
        6 => Fault::DropTable { tag: target },
        7 => {
            let tags = info.tags();
            let other = rng.pick(&tags).clone();
            if other == target {
                Fault::DropTable { tag: target }
            } else {
                Fault::SwapTables {
                    a: target,
                    b: other,
                }
            }
        }
        _ => Fault::ProviderErr {
            tag: target,
            err: rng
                .pick(&["CompressionError", "BadEof", "BadValue", "BadOffset", "BadIndex"])
                .to_string(),
        },
    })
}

thread_local! {
    static NO_WALK: std::cell::Cell<bool> = const { std::cell::Cell::new(false) };
}

/// See `sim gen --no-walk`.
pub fn set_no_walk(on: bool) {
    NO_WALK.with(|c| c.set(on));
}

/// The fields of `tag` that the parsers actually interpret: (offset, width) of every primitive
/// read made while the typed walk (and, for cmap, the mapping ops) runs over the pristine table.
/// Read-trace-guided fault placement: boundary values land exactly on consumed fields, including
/// deep structures (anchors, device tables, DICT operands, tuple headers) no hand-written locator names.
fn consumed_fields(info: &FontInfo, tag: &str) -> Rc<Vec<(usize, u8)>> {
    if NO_WALK.with(|c| c.get()) {
        return Rc::new(Vec::new());
    }
    if let Some(v) = info.consumed.borrow().get(tag) {
        return v.clone();
    }
    let t = crate::trace::tag_from_str(tag);
    let mut out: Vec<(usize, u8)> = Vec::new();
    if let Some(data) = info.disk.tables.get(&t) {
        let (lo, hi) = (data.as_ptr() as usize, data.as_ptr() as usize + data.len());
        let sim = crate::provider::SimProvider::new(info.disk.clone());
        let reads = guard(|| {
            allsorts::verif::record_reads(true);
            let _ = crate::walk::parse_table(&sim, t);
            if tag == "cmap" {
                let _ = crate::walk::cmap_ops(&sim, &[0x20, 0x41, 0x3042, 0x1F600, 0xFFFF], true);
            }
            if tag == "name" {
                let _ = crate::walk::names(&sim, &[1, 2, 4, 6, 16, 17, 25]);
            }
            allsorts::verif::take_reads()
        });
        allsorts::verif::record_reads(false);
        if let Ok(reads) = reads {
            let mut set = std::collections::BTreeSet::new();
            for (addr, w) in reads {
                if addr >= lo && addr + usize::from(w) <= hi {
                    set.insert((addr - lo, w));
                }
            }
            out = set.into_iter().collect();
        }
    }
    let rc = Rc::new(out);
    info.consumed.borrow_mut().insert(tag.to_string(), rc.clone());
    rc
}

/// Pristine loca offsets of the font (harness' own byte arithmetic).
fn loca_offsets(info: &FontInfo) -> Option<Vec<usize>> {
    let get = |t: &str| info.disk.tables.get(&crate::trace::tag_from_str(t)).cloned();
    let (head, loca) = (get("head")?, get("loca")?);
    let long = be16(&head, 50)? == 1;
    let mut v = Vec::new();
    if long {
        for c in loca.chunks_exact(4).take(70000) {
            v.push(u32::from_be_bytes([c[0], c[1], c[2], c[3]]) as usize);
        }
    } else {
        for c in loca.chunks_exact(2).take(70000) {
            v.push(usize::from(u16::from_be_bytes([c[0], c[1]])) * 2);
        }
    }
    Some(v)
}

fn gen_file_fault(rng: &mut Rng, info: &FontInfo, rewrap: bool) -> Option<Fault> {
    let len = info.file_len;
    if rewrap && rng.pct(70) {
        let (ilen, glyf) = info.woff2_inner?;
        if ilen == 0 {
            return None;
        }
        let target = "inner".to_string();
        return Some(match rng.below(5) {
            0 => Fault::BitFlip {
                target,
                off: rng.usize_below(ilen),
                mask: 1 << rng.below(8),
            },
            1 => Fault::Truncate {
                target,
                len: rng.usize_below(ilen),
            },
            2 => Fault::ZeroRange {
                target,
                off: rng.usize_below(ilen),
                len: 1 + rng.usize_below(32),
            },
            _ => {
                let fs = fields::locate_woff2_inner(ilen, glyf, rng);
                let f = rng.pick(&fs).clone();
                Fault::Set {
                    target,
                    off: f.off,
                    width: f.width,
                    val: boundary_value(rng, f.width, ilen, 0),
                    field: f.name,
                }
            }
        });
    }
    let target = "file".to_string();
    // For bare sfnt images most faults go into a table body via the directory so that the
    // real OffsetTableFontProvider serves damaged tables.
    if info.container == Container::Sfnt && !info.dir.is_empty() && rng.pct(55) {
        let e = rng.pick(&info.dir).clone();
        let tag = tag_to_string(e.tag);
        let tdata = info.disk.tables.get(&e.tag)?.clone();
        let fs = fields::locate(&tag, &tdata, rng);
        if !fs.is_empty() && rng.pct(70) {
            let f = rng.pick(&fs).clone();
            if let Some(bytes) = f.bytes {
                return Some(Fault::Write {
                    target,
                    off: e.offset + f.off,
                    bytes,
                    field: format!("{}@file", f.name),
                });
            }
            let old = read_be(&tdata, f.off, f.width);
            return Some(Fault::Set {
                target,
                off: e.offset + f.off,
                width: f.width,
                val: boundary_value(rng, f.width, tdata.len(), old),
                field: format!("{}@file", f.name),
            });
        }
        let cap = if rng.pct(50) { 64 } else { usize::MAX };
        let off = e.offset + rng.usize_below(e.length.max(1).min(cap));
        return Some(Fault::BitFlip {
            target,
            off,
            mask: 1 << rng.below(8),
        });
    }
    let head = match info.container {
        Container::Sfnt => 12 + 16 * info.dir.len(),
        Container::Ttc => 64,
        Container::Woff => 44 + 20 * 12,
        Container::Woff2 => 48 + 64,
    }
    .min(len);
    let off_in = |rng: &mut Rng| -> usize {
        if rng.pct(60) {
            rng.usize_below(head.max(1))
        } else {
            rng.usize_below(len.max(1))
        }
    };
    Some(match rng.weighted(&[14, 40, 16, 8, 8]) {
        0 => Fault::BitFlip {
            target,
            off: off_in(rng),
            mask: 1 << rng.below(8),
        },
        1 => {
            let fs = fields::locate_file(&info.file, rng);
            if !fs.is_empty() && rng.pct(75) {
                let f = rng.pick(&fs).clone();
                let old = read_be(&info.file, f.off, f.width);
                Fault::Set {
                    target,
                    off: f.off,
                    width: f.width,
                    val: boundary_value(rng, f.width, len, old),
                    field: f.name,
                }
            } else {
                let width = *rng.pick(&[1u8, 2, 2, 4, 4]);
                let off = off_in(rng) / usize::from(width) * usize::from(width);
                let old = read_be(&info.file, off, width);
                Fault::Set {
                    target,
                    off,
                    width,
                    val: boundary_value(rng, width, len, old),
                    field: String::new(),
                }
            }
        }
        2 => {
            let new_len = match rng.below(6) {
                0 => 0,
                1 => len - 1,
                2 => head.saturating_sub(1),
                3 => head,
                4 => 3,
                _ => rng.usize_below(len),
            };
            Fault::Truncate {
                target,
                len: new_len,
            }
        }
        3 => Fault::ZeroRange {
            target,
            off: off_in(rng),
            len: 1 + rng.usize_below(64),
        },
        _ => Fault::CopyRange {
            target,
            src: rng.usize_below(len) & !3,
            dst: off_in(rng) & !3,
            len: 4 * (1 + rng.usize_below(16)),
        },
    })
}

/// One of the font's GSUB features that has lookups becomes `rvrn`.
fn gen_rvrn(rng: &mut Rng, info: &FontInfo) -> Option<Surgery> {
    let with_lookups: Vec<usize> = info
        .gsub_features
        .iter()
        .enumerate()
        .filter(|(_, f)| !f.1.is_empty())
        .map(|(i, _)| i)
        .collect();
    if with_lookups.is_empty() {
        return None;
    }
    Some(Surgery::RvrnFeature {
        feature_index: *rng.pick(&with_lookups) as u16,
    })
}

fn gen_surgery(rng: &mut Rng, info: &FontInfo) -> Option<Surgery> {
    let with_lookups: Vec<usize> = info
        .gsub_features
        .iter()
        .enumerate()
        .filter(|(_, f)| !f.1.is_empty())
        .map(|(i, _)| i)
        .collect();
    if with_lookups.is_empty() {
        return None;
    }
    let fi = *rng.pick(&with_lookups);
    let lookups = if rng.pct(50) {
        Vec::new()
    } else {
        let other = rng.pick(&info.gsub_features);
        other.1.clone()
    };
    let (min, max) = *rng.pick(&[(0x2000i16, 0x4000i16), (-0x4000, -0x2000), (0x0001, 0x4000), (-0x4000, 0x4000)]);
    if rng.pct(40) {
        // several records with disjoint conditions: different tuples select different
        // substitution tables (a cache keyed on "some substitution is active" is not enough)
        // same feature in both records half of the time: the records then differ only in the
        // alternate feature table they point to
        let fi2 = if rng.pct(50) { fi } else { *rng.pick(&with_lookups) };
        let other = rng.pick(&info.gsub_features).1.clone();
        return Some(Surgery::FeatureVariationsMulti {
            table: "GSUB".to_string(),
            records: vec![
                FvRecord {
                    feature_index: fi as u16,
                    lookups,
                    min: 0x2000,
                    max: 0x4000,
                },
                FvRecord {
                    feature_index: fi2 as u16,
                    lookups: if rng.pct(50) { Vec::new() } else { other },
                    min: -0x4000,
                    max: -0x2000,
                },
            ],
        });
    }
    Some(Surgery::FeatureVariations {
        table: "GSUB".to_string(),
        feature_index: fi as u16,
        lookups,
        min,
        max,
        axis: if rng.pct(12) { *rng.pick(&[1u16, 2, 7, 0xFFFF]) } else { 0 },
    })
}

/// Extension relocation of GSUB (mostly) or GPOS with two lookups that have a Coverage at +2.
fn gen_relocate(rng: &mut Rng, info: &FontInfo) -> Option<Surgery> {
    let table = if rng.pct(75) { "GSUB" } else { "GPOS" };
    let d = info.disk.tables.get(&crate::trace::tag_from_str(table))?.clone();
    let lookups = surgery::lookup_list(&d)?;
    let ext: u16 = if table == "GPOS" { 9 } else { 7 };
    let usable: Vec<usize> = lookups
        .iter()
        .enumerate()
        .filter(|(_, (ty, _, _, subs))| *ty != ext && !subs.is_empty())
        .map(|(i, _)| i)
        .collect();
    if usable.len() < 2 {
        return None;
    }
    let a = usable[rng.usize_below(usable.len())];
    let b = usable[rng.usize_below(usable.len())];
    if a == b {
        return None;
    }
    surgery::extension_relocate(&d, table == "GPOS", a, b)?;
    Some(Surgery::ExtensionRelocate {
        table: table.to_string(),
        a: a as u16,
        b: b as u16,
    })
}

fn gen_surgery_gpos(rng: &mut Rng, info: &FontInfo) -> Option<Surgery> {
    let with_lookups: Vec<usize> = info
        .gpos_features
        .iter()
        .enumerate()
        .filter(|(_, f)| !f.1.is_empty())
        .map(|(i, _)| i)
        .collect();
    if with_lookups.is_empty() {
        return None;
    }
    let fi = *rng.pick(&with_lookups);
    let lookups = if rng.pct(60) {
        Vec::new()
    } else {
        rng.pick(&info.gpos_features).1.clone()
    };
    let (min, max) = *rng.pick(&[(0x2000i16, 0x4000i16), (-0x4000, -0x2000), (0x0001, 0x4000)]);
    Some(Surgery::FeatureVariations {
        table: "GPOS".to_string(),
        feature_index: fi as u16,
        lookups,
        min,
        max,
        axis: if rng.pct(12) { *rng.pick(&[1u16, 2, 7, 0xFFFF]) } else { 0 },
    })
}

/// Decide whether this run installs synthesised tables; returns the font description as the
/// run sees it (tables installed, text generation focused on the glyphs morx is keyed on).
fn gen_install(rng: &mut Rng, info: &FontInfo, prop: &str) -> Option<(FontInfo, Vec<Surgery>)> {
    // percentages: morx, bitmaps, vertical
    let (p_morx, p_kern, p_bitmap, p_vert, p_compact, p_macroman, p_names) = match prop {
        "C02" => (14, 8, 0, 10, 3, 1, 0),
        "C03" => (8, 3, 8, 8, 4, 4, 3),
        "C09" => (0, 0, 0, 6, 22, 4, 10),
        _ => (7, 4, 8, 6, 6, 3, if info.axes > 0 { 20 } else { 4 }),
    };
    let p_rchain = match prop {
        "C02" => 8,
        "C03" => 3,
        "C09" => 0,
        _ => 3,
    };
    let p_vargpos = match prop {
        "C02" => 45,
        "C03" => 40,
        "C09" => 0,
        _ => 15,
    };
    let p_cvar = match prop {
        "C02" => 0,
        "C03" => 8,
        "C09" => 30,
        _ => 25,
    };
    let p_cff2_subrs = match prop {
        "C02" => 0,
        "C03" => 15,
        "C09" => 45,
        _ => 30,
    };
    let mut surgeries = Vec::new();
    let mut focus: Option<Vec<u32>> = None;
    let want_vargpos = info.axes > 0 && rng.pct(p_vargpos);
    let want_rchain = !want_vargpos && rng.pct(p_rchain);
    let mut want_expansion = false;
    let mut alias_gpos = false;
    let want_morx = !want_vargpos && !want_rchain && rng.pct(p_morx);
    let want_kern = !want_vargpos && !want_rchain && !want_morx && rng.pct(p_kern);
    let mut want_frac = false;
    let mut marklig_char: Option<u32> = None;
    if prop == "C02" || prop == "C03" {
        if rng.pct(if prop == "C02" { 4 } else { 2 }) && !want_vargpos && !want_rchain {
            let gid = |c: char| -> Option<u16> {
                info.char_gids
                    .binary_search_by_key(&(c as u32), |(ch, _)| *ch)
                    .ok()
                    .map(|k| info.char_gids[k].1)
                    .filter(|g| *g != 0 && *g < info.num_glyphs)
            };
            let wanted: Vec<char> = "fi/0123456789".chars().collect();
            let glyphs: Vec<u16> = wanted.iter().filter_map(|c| gid(*c)).collect();
            // a mark for the ligature variant: a combining mark of the font, or any other glyph
            // (the installed GDEF is what makes it a mark)
            let mark_char = ['\u{0301}', '\u{0300}', '\u{0303}', '~', '^', '`']
                .into_iter()
                .find(|c| gid(*c).map_or(false, |g| !glyphs.contains(&g)));
            if glyphs.len() == wanted.len() {
                match mark_char {
                    Some(mc) if rng.pct(50) => {
                        surgeries.push(Surgery::InstallMarkLig {
                            glyphs,
                            mark: gid(mc).unwrap_or(0),
                            components: 1 + rng.below(3) as u8,
                            variant: rng.below(1 << 16),
                        });
                        marklig_char = Some(mc as u32);
                    }
                    _ => {
                        surgeries.push(Surgery::InstallFracLiga {
                            glyphs,
                            variant: rng.below(1 << 16),
                        });
                    }
                }
                want_frac = true;
            }
        }
    }
    if !want_frac && (want_morx || want_kern || want_vargpos || want_rchain) && info.char_gids.len() >= 2 && info.num_glyphs >= 3 {
        // a run of neighbouring mapped characters with distinct non-zero glyph ids
        let want = 3 + rng.usize_below(22);
        let start = rng.usize_below(info.char_gids.len());
        let mut glyphs: Vec<u16> = Vec::new();
        let mut chars: Vec<u32> = Vec::new();
        for (c, g) in info.char_gids.iter().cycle().skip(start).take(info.char_gids.len().min(4 * want)) {
            if *g != 0 && *g < info.num_glyphs && !glyphs.contains(g) && char::from_u32(*c).is_some() {
                glyphs.push(*g);
                chars.push(*c);
                if glyphs.len() >= want {
                    break;
                }
            }
        }
        if glyphs.len() >= 2 {
            let reversed = rng.pct(30);
            if reversed {
                // order other than first appearance
                glyphs.reverse();
            }
            if want_rchain && rng.pct(14) {
                want_expansion = true;
                // aliased ScriptList / FeatureList records: mostly small (a valid font that
                // shapes), some around the library's entry limit, some as large as offsets allow
                let (scripts, langsys, features, frecs, lookups) = match rng.below(100) {
                    0..=59 => (
                        1 + rng.below(8) as u16,
                        rng.below(5) as u16,
                        1 + rng.below(10) as u16,
                        2 + rng.below(8) as u16,
                        1 + rng.below(4) as u16,
                    ),
                    60..=74 => *rng.pick(&[
                        (16u16, 15u16, 4095u16, 2u16, 1u16),
                        (16, 16, 4096, 2, 1),
                        (64, 3, 4000, 4, 2),
                        (2, 1, 3, 1024, 1023),
                        (2, 1, 3, 1025, 1024),
                        (1000, 1, 500, 16, 65535),
                    ]),
                    75..=89 => (
                        *rng.pick(&[100u16, 2000, 10900, 10922]),
                        *rng.pick(&[1u16, 15, 16]),
                        *rng.pick(&[1000u16, 65535]),
                        2,
                        1,
                    ),
                    _ => (2, 0, 2, *rng.pick(&[500u16, 10900, 10922]), *rng.pick(&[3000u16, 65535])),
                };
                alias_gpos = rng.pct(25);
                surgeries.push(Surgery::InstallAliasedLists {
                    table: if alias_gpos { "GPOS" } else { "GSUB" }.to_string(),
                    glyph: glyphs[0],
                    scripts,
                    langsys,
                    features,
                    frecs,
                    lookups,
                    default_langsys: rng.pct(50),
                });
                let c = if reversed { chars[chars.len() - 1] } else { chars[0] };
                chars = vec![c];
            } else if want_rchain && rng.pct(20) {
                want_expansion = true;
                let (records, depth) = match rng.below(100) {
                    0..=79 => (1 + rng.below(6) as u16, 1 + rng.below(3) as u8),
                    80..=94 => *rng.pick(&[(30u16, 2u8), (10, 3), (100, 1), (3, 5)]),
                    _ => (*rng.pick(&[100u16, 400, 1500]), 2 + rng.below(3) as u8),
                };
                surgeries.push(Surgery::InstallContextFanout {
                    glyph: glyphs[0],
                    records,
                    depth,
                    variant: rng.below(1 << 16),
                });
                // text: the character of that glyph
                let c = if reversed { chars[chars.len() - 1] } else { chars[0] };
                chars = vec![c];
            } else if want_rchain && rng.pct(40) {
                want_expansion = true;
                glyphs.truncate(1 + rng.usize_below(6));
                // mostly small growth (shaping cost is quadratic in the run length); a few
                // percent are runs that would grow without bound if nothing limited them
                let (k, lookups) = match rng.below(100) {
                    0..=84 => (*rng.pick(&[0u16, 1, 2, 2, 3]), 1 + rng.below(3) as u8),
                    85..=96 => *rng.pick(&[(4u16, 4u8), (8, 3), (22, 2), (2, 8), (3, 5), (500, 1)]),
                    _ => (*rng.pick(&[8u16, 16, 40, 200]), 4 + rng.below(5) as u8),
                };
                surgeries.push(Surgery::InstallExpansion {
                    glyphs,
                    k,
                    lookups,
                    variant: rng.below(1 << 16),
                });
            } else if want_rchain {
                surgeries.push(Surgery::InstallReverseChain {
                    glyphs,
                    variant: rng.below(1 << 16),
                });
            } else if want_vargpos {
                surgeries.push(Surgery::InstallVarGpos {
                    glyphs,
                    variant: rng.below(1 << 16),
                });
            } else if want_morx {
                surgeries.push(Surgery::InstallMorx {
                    glyphs,
                    variant: rng.below(1 << 20),
                    hazard: if rng.pct(12) {
                        Some(rng.below(u64::from(crate::morx_build::HAZARD_COUNT)) as u32)
                    } else {
                        None
                    },
                });
            } else {
                surgeries.push(Surgery::InstallKern {
                    glyphs,
                    variant: rng.below(1 << 20),
                });
            }
            chars.sort_unstable();
            focus = Some(chars);
        }
    }
    if info.axes > 0 && info.has("glyf") && info.has("gvar") && info.num_glyphs >= 4 && rng.pct(p_cvar) {
        // glyph ids are drawn blindly; the surgery refuses unusable ones and the run is skipped
        let n = u64::from(info.num_glyphs);
        let pick = |rng: &mut Rng| 1 + rng.below(n.min(300) - 1) as u16;
        for _ in 0..6 {
            let s = Surgery::InstallVarComposite {
                glyph: pick(rng),
                a: pick(rng),
                b: pick(rng),
                dx: *rng.pick(&[60i16, -60, 0, 127, 300, -300, 1]),
                dy: *rng.pick(&[0i16, 3, -3, 120, -200]),
                variant: rng.below(1 << 16),
            };
            let mut probe = info.disk.clone();
            if surgery::apply(&mut probe, &s).is_ok() {
                surgeries.push(s);
                break;
            }
        }
    }
    if info.axes > 0 && info.has("glyf") && info.has("gvar") && info.num_glyphs >= 2 && rng.pct(p_cvar / 2) {
        let n = u64::from(info.num_glyphs);
        for _ in 0..6 {
            let s = Surgery::InstallVarSimple {
                glyph: 1 + rng.below(n.min(300) - 1) as u16,
                amp: *rng.pick(&[1i16, 127, 128, 1000, 20000, 32767, -32768]),
                variant: rng.below(1 << 16),
            };
            let mut probe = info.disk.clone();
            if surgery::apply(&mut probe, &s).is_ok() {
                surgeries.push(s);
                break;
            }
        }
    }
    if info.axes > 0 && !info.has("avar") && rng.pct(p_cvar) {
        surgeries.push(Surgery::InstallAvar {
            variant: rng.next_u64() >> 8,
        });
    }
    if info.axes > 0 && info.has("glyf") && !info.has("cvar") && rng.pct(p_cvar) {
        surgeries.push(Surgery::InstallCvar {
            num_cvts: *rng.pick(&[1u16, 2, 7, 64, 130, 400]),
            variant: rng.next_u64() >> 8,
        });
    }
    if info.has("CFF2") && rng.pct(p_cff2_subrs) {
        let n = 1 + rng.usize_below(12);
        let glyphs: Vec<u16> = (0..n)
            .map(|_| if rng.pct(60) { rng.below(u64::from(info.num_glyphs.min(64).max(1))) as u16 } else { gen_gid(rng, info) })
            .collect();
        surgeries.push(Surgery::InstallCff2Subrs {
            glyphs,
            nest: *rng.pick(&[0u8, 0, 1, 2, 8]),
        });
    }
    if rng.pct(p_bitmap) && info.num_glyphs >= 1 && info.has("glyf") {
        let colour = rng.pct(50);
        let present = if colour { info.has("CBLC") } else { info.has("EBLC") };
        if !present {
            surgeries.push(Surgery::InstallBitmaps {
                colour,
                variant: rng.below(1 << 20),
                extended: rng.pct(30),
            });
        }
    }
    if rng.pct(p_macroman) && info.num_glyphs > 12 && info.has("cmap") {
        // 7 glyphs: 256 is not a multiple, so folded codes name different glyphs
        let first = 1 + rng.below(u64::from(info.num_glyphs - 8).min(40)) as u16;
        surgeries.push(Surgery::MacRomanCmap {
            glyphs: (first..first + 7).collect(),
        });
    }
    if rng.pct(p_names / 2 + 1) && info.has("post") && info.has("glyf") {
        let v20 = rng.pct(if info.axes > 0 { 60 } else { 25 });
        let v25 = !v20 && info.num_glyphs <= 385 && rng.pct(70);
        surgeries.push(Surgery::PostFormat {
            v25,
            variant: rng.below(1 << 16),
            v20,
        });
    }
    if rng.pct(p_names) && info.has("name") {
        surgeries.push(Surgery::LongNames {
            variant: rng.below(1 << 16),
        });
    }
    if rng.pct(p_compact) && info.has("hhea") && info.has("hmtx") && info.num_glyphs >= 2 {
        let n = info.num_glyphs;
        surgeries.push(Surgery::CompactHmtx {
            num_h_metrics: match rng.below(4) {
                0 => 1,
                1 => n - 1,
                _ => 1 + rng.below(u64::from(n - 1)) as u16,
            },
        });
    }
    if rng.pct(p_vert) && !info.has("vhea") && info.has("hhea") && info.num_glyphs >= 1 {
        let n = info.num_glyphs;
        surgeries.push(Surgery::InstallVertical {
            num_v_metrics: match rng.below(4) {
                0 => 1,
                1 => n,
                _ => 1 + rng.below(u64::from(n)) as u16,
            },
            over: matches!(prop, "C03" | "C01") && rng.pct(15),
            vvar: info.axes > 0 && rng.pct(60),
        });
    }
    let p_many = match prop {
        "C02" => 0,
        "C03" => 1,
        "C09" => 3,
        _ => 2,
    };
    if rng.pct(p_many) && info.has("head") {
        // total table counts around the powers of two the header fields are derived from, and
        // around 4096, where 16 x numTables stops fitting 16 bits
        let have = info.tags().len();
        let total = match rng.below(10) {
            0..=3 => *rng.pick(&[31usize, 32, 33, 63, 64, 65, 255, 256, 257]),
            4..=7 => *rng.pick(&[4094usize, 4095, 4096, 4097, 5000, 8191, 8192]),
            _ => have + 1 + rng.usize_below(600),
        };
        if total > have {
            surgeries.push(Surgery::ManyTables {
                count: (total - have) as u16,
                len: *rng.pick(&[0u16, 1, 3, 4, 5, 64]),
            });
        }
    }
    if surgeries.is_empty() {
        return None;
    }
    let mut modified = info.clone();
    modified.consumed.borrow_mut().clear();
    for s in &surgeries {
        if surgery::apply(&mut modified.disk, s).is_err() {
            return None;
        }
    }
    if want_frac {
        modified.gsub_features = ["dnom", "frac", "liga", "numr"]
            .iter()
            .map(|t| (crate::trace::tag_from_str(t), vec![0u16]))
            .collect();
        modified.scripts = vec!["latn".to_string(), "DFLT".to_string()];
        modified.frac_bias = marklig_char.is_none();
        if let Some(mc) = marklig_char {
            // texts of f, i and the mark: ligatures of two and three components followed by marks
            modified.gpos_features = vec![(crate::trace::tag_from_str("mark"), vec![0u16])];
            let mut cs = vec!['f' as u32, 'i' as u32, mc];
            cs.sort_unstable();
            modified.chars = cs;
        }
    }
    if let Some(f) = focus {
        modified.chars = f;
        if want_morx {
            modified.gsub_features.clear();
        } else {
            modified.gpos_features.clear();
        }
        if want_expansion && alias_gpos {
            modified.gpos_features = vec![
                (crate::trace::tag_from_str("ccmp"), vec![0]),
                (crate::trace::tag_from_str("kern"), vec![0]),
            ];
            modified.scripts = vec!["latn".to_string(), "DFLT".to_string()];
        } else if want_expansion {
            modified.long_text_ok = false;
            modified.gsub_features = vec![
                (crate::trace::tag_from_str("ccmp"), vec![0]),
                (crate::trace::tag_from_str("liga"), vec![0]),
            ];
            modified.scripts = vec!["latn".to_string(), "DFLT".to_string()];
        } else if want_rchain {
            modified.gsub_features = vec![(crate::trace::tag_from_str("calt"), vec![0, 1])];
            modified.scripts = vec!["latn".to_string(), "DFLT".to_string()];
        }
        if want_vargpos {
            modified.gpos_features = vec![(crate::trace::tag_from_str("kern"), vec![0, 1])];
            modified.scripts = vec!["latn".to_string(), "DFLT".to_string()];
        }
    }
    Some((modified, surgeries))
}

fn gen_gid(rng: &mut Rng, info: &FontInfo) -> u16 {
    let n = info.num_glyphs;
    match rng.below(10) {
        0 => 0,
        1 => 1,
        2 => n.wrapping_sub(1),
        3 => n,
        4 => n.wrapping_add(1),
        5 => 0xFFFF,
        _ => rng.below(u64::from(n.max(1))) as u16,
    }
}

fn gen_char(rng: &mut Rng, info: &FontInfo) -> u32 {
    if !info.chars.is_empty() && rng.pct(72) {
        *rng.pick(&info.chars)
    } else if rng.pct(85) {
        *rng.pick(SPECIAL_CHARS)
    } else {
        let c = rng.below(0x11_0000) as u32;
        if (0xD800..0xE000).contains(&c) {
            0xFFFD
        } else {
            c
        }
    }
}

fn gen_text(rng: &mut Rng, info: &FontInfo) -> String {
    // Rarely: a long run made of a short pattern (syllable machines, reordering and mark
    // attachment see thousands of clusters, or one cluster thousands of characters long).
    if info.long_text_ok && rng.below(1000) < 2 {
        let unit_len = 1 + rng.usize_below(4);
        let unit = gen_text_short(rng, info, unit_len);
        if !unit.is_empty() {
            let total = *rng.pick(&[300usize, 1000, 2000, 4000]);
            let mut s = String::new();
            if rng.pct(30) {
                // one base followed by many repetitions of the rest
                let mut it = unit.chars();
                s.push(it.next().unwrap());
                let rest: String = it.collect();
                let rest = if rest.is_empty() { unit.clone() } else { rest };
                while s.chars().count() < total {
                    s.push_str(&rest);
                }
            } else {
                while s.chars().count() < total {
                    s.push_str(&unit);
                }
            }
            return s;
        }
    }
    let len = match rng.below(10) {
        0 => 0,
        1 => 1,
        2 => 2,
        _ => 1 + rng.usize_below(16),
    };
    gen_text_short(rng, info, len)
}

fn gen_text_short(rng: &mut Rng, info: &FontInfo, len: usize) -> String {
    let mut s = String::new();
    // Neighbourhood bias: stay near a pivot char so that sequences are same-script.
    let pivot = gen_char(rng, info);
    for _ in 0..len {
        let c = if rng.pct(55) && !info.chars.is_empty() {
            // a covered char within +-96 of the pivot
            let lo = info.chars.partition_point(|&c| c + 96 < pivot);
            let hi = info.chars.partition_point(|&c| c <= pivot + 96);
            if hi > lo {
                info.chars[lo + rng.usize_below(hi - lo)]
            } else {
                gen_char(rng, info)
            }
        } else if rng.pct(12) && !s.is_empty() {
            s.chars().last().unwrap() as u32
        } else {
            gen_char(rng, info)
        };
        s.push(char::from_u32(c).unwrap_or('\u{FFFD}'));
    }
    s
}

fn script_for_char(c: u32) -> Option<&'static str> {
    Some(match c {
        0x0900..=0x097F => "dev2",
        0x0980..=0x09FF => "bng2",
        0x0A00..=0x0A7F => "gur2",
        0x0A80..=0x0AFF => "gjr2",
        0x0B00..=0x0B7F => "ory2",
        0x0B80..=0x0BFF => "tml2",
        0x0C00..=0x0C7F => "tel2",
        0x0C80..=0x0CFF => "knd2",
        0x0D00..=0x0D7F => "mlm2",
        0x0D80..=0x0DFF => "sinh",
        0x0E00..=0x0E7F => "thai",
        0x0E80..=0x0EFF => "lao ",
        0x1000..=0x109F => "mym2",
        0x1780..=0x17FF => "khmr",
        0x0600..=0x06FF => "arab",
        0x0700..=0x074F => "syrc",
        _ => return None,
    })
}

fn gen_script(rng: &mut Rng, info: &FontInfo, text: &str) -> String {
    let by_text = text.chars().find_map(|c| script_for_char(c as u32));
    match rng.below(10) {
        0..=3 => {
            if let Some(s) = by_text {
                // old or new version of the tag
                if rng.pct(25) {
                    match s {
                        "dev2" => "deva",
                        "bng2" => "beng",
                        "gur2" => "guru",
                        "gjr2" => "gujr",
                        "ory2" => "orya",
                        "tml2" => "taml",
                        "tel2" => "telu",
                        "knd2" => "knda",
                        "mlm2" => "mlym",
                        "mym2" => "mymr",
                        o => o,
                    }
                    .to_string()
                } else {
                    s.to_string()
                }
            } else if !info.scripts.is_empty() {
                rng.pick(&info.scripts).clone()
            } else {
                "latn".to_string()
            }
        }
        4..=6 => {
            if !info.scripts.is_empty() {
                rng.pick(&info.scripts).clone()
            } else {
                rng.pick(COMPLEX_SCRIPTS).to_string()
            }
        }
        7 | 8 => rng.pick(COMPLEX_SCRIPTS).to_string(),
        _ => {
            let b: Vec<u8> = (0..4).map(|_| 0x41 + rng.below(26) as u8).collect();
            String::from_utf8(b).unwrap()
        }
    }
}

fn gen_lang(rng: &mut Rng, info: &FontInfo) -> Option<String> {
    match rng.below(10) {
        0..=4 => None,
        5 | 6 => {
            if info.langs.is_empty() {
                Some("DFLT".to_string())
            } else {
                Some(rng.pick(&info.langs).clone())
            }
        }
        7 => Some("DFLT".to_string()),
        8 => Some(rng.pick(&["URD ", "FAR ", "SND ", "ROM ", "TRK ", "MAR ", "NEP ", "ENG "]).to_string()),
        _ => Some("ZZZZ".to_string()),
    }
}

fn gen_feat(rng: &mut Rng, info: &FontInfo) -> Feat {
    if rng.pct(75) {
        let mask = match rng.below(10) {
            0..=3 => DEFAULT_MASK,
            4 => 0,
            5 => (1u64 << 46) - 1,
            6 => DEFAULT_MASK | (1 << 16),
            7 => DEFAULT_MASK | (1 << 43),
            8 => DEFAULT_MASK | (1 << 45) | (1 << 40),
            _ => rng.next_u64() & ((1u64 << 46) - 1),
        };
        Feat {
            mask: Some(mask),
            custom: None,
        }
    } else {
        let n = rng.usize_below(7);
        let custom = (0..n)
            .map(|_| {
                let alt = match rng.below(6) {
                    0 => Some(0),
                    1 => Some(1),
                    2 => Some(65535),
                    _ => None,
                };
                // mostly the font's own features, so that Custom selections reach real lookups
                let own = info.gsub_features.len() + info.gpos_features.len();
                let tag = if own > 0 && rng.pct(65) {
                    let k = rng.usize_below(own);
                    let t = if k < info.gsub_features.len() {
                        info.gsub_features[k].0
                    } else {
                        info.gpos_features[k - info.gsub_features.len()].0
                    };
                    tag_to_string(t)
                } else {
                    rng.pick(FEATURE_TAGS).to_string()
                };
                (tag, alt)
            })
            .collect();
        Feat {
            mask: None,
            custom: Some(custom),
        }
    }
}

fn gen_tuple(rng: &mut Rng, info: &FontInfo, surgery: bool) -> Option<Vec<i16>> {
    let axes = if info.axes > 0 {
        info.axes
    } else if surgery {
        1
    } else {
        return None;
    };
    if rng.pct(35) {
        return None;
    }
    let n = if rng.pct(6) { axes + 1 } else { axes };
    Some(
        (0..n)
            .map(|_| match rng.below(7) {
                0 => -0x4000,
                1 => 0,
                2 => 0x4000,
                3 => 0x2000,
                4 => -0x2000,
                5 => 0x3000,
                _ => (rng.below(0x8001) as i32 - 0x4000) as i16,
            })
            .collect(),
    )
}

fn gen_ids(rng: &mut Rng, info: &FontInfo) -> Vec<u16> {
    let n = info.num_glyphs.max(1);
    let count = match rng.below(10) {
        0 => 1,
        1 => 2,
        2..=6 => 1 + rng.usize_below(12),
        7 => 1 + rng.usize_below(300),
        8 => usize::from(n),
        _ => 256 + rng.usize_below(64),
    }
    .min(usize::from(n));
    let mut ids: Vec<u16> = Vec::with_capacity(count);
    // well-formed by default: 0 first, distinct, in range
    ids.push(0);
    let mut seen = std::collections::BTreeSet::new();
    seen.insert(0u16);
    let contiguous = rng.pct(30);
    let mut next = 1u16;
    while ids.len() < count {
        let g = if contiguous {
            let g = next;
            next = next.wrapping_add(1);
            g
        } else {
            rng.below(u64::from(n)) as u16
        };
        if g < n && seen.insert(g) {
            ids.push(g);
        } else if contiguous {
            break;
        }
        if seen.len() >= usize::from(n) {
            break;
        }
    }
    // ill-formed variants (the API must answer with an error, not a crash)
    match rng.below(20) {
        0 => ids[0] = 1,
        1 => ids.push(n),
        2 => ids.push(0xFFFF),
        3 => {
            let d = ids[ids.len() / 2];
            ids.push(d)
        }
        4 => ids.clear(),
        _ => {}
    }
    ids
}

pub fn gen_op(rng: &mut Rng, info: &FontInfo, kind: &str) -> Op {
    match kind {
        "Load" => Op::Load {
            index: match rng.below(6) {
                0 => info.members,
                1 => info.members + 1,
                2 => usize::MAX,
                3 => 1,
                _ => 0,
            },
        },
        "FontNew" => Op::FontNew,
        "LookupGlyph" => Op::LookupGlyph {
            ch: if rng.pct(45) { 0x25CC } else { gen_char(rng, info) },
            required: rng.pct(40),
            vs: *rng.pick(&[0u8, 0, 0, 1, 2, 3, 15, 16, 16]),
        },
        "MapGlyphs" => {
            let text = gen_text(rng, info);
            let script = gen_script(rng, info, &text);
            Op::MapGlyphs {
                text,
                script,
                required: rng.pct(25),
            }
        }
        "Shape" if !info.seeds.is_empty() && rng.pct(55) => {
            // a known-good workload for this font, possibly perturbed
            let (script, lang, feature, gids) = rng.pick(&info.seeds).clone();
            let mut chars: Vec<char> = gids.iter().filter_map(|g| char::from_u32(u32::from(*g))).collect();
            if rng.pct(35) && !chars.is_empty() {
                let k = rng.usize_below(chars.len());
                match rng.below(4) {
                    0 => {
                        let c = chars[k];
                        chars.insert(k, c);
                    }
                    1 => {
                        chars.remove(k);
                    }
                    2 => {
                        let j = rng.usize_below(chars.len());
                        chars.swap(k, j);
                    }
                    _ => {
                        if let Some(c) = char::from_u32(gen_char(rng, info)) {
                            chars[k] = c;
                        }
                    }
                }
            }
            let mut custom = vec![(feature, None)];
            if rng.pct(25) {
                custom.push((rng.pick(FEATURE_TAGS).to_string(), None));
            }
            Op::Shape {
                text: chars.into_iter().collect(),
                script: if rng.pct(85) { script } else { gen_script(rng, info, "") },
                lang: match rng.below(4) {
                    0 => None,
                    1 => gen_lang(rng, info),
                    _ => Some(lang),
                },
                feat: Feat {
                    mask: None,
                    custom: Some(custom),
                },
                tuple: gen_tuple(rng, info, true),
                kerning: rng.pct(60),
                required: false,
                positions: if rng.pct(70) {
                    Some(Positions {
                        rtl: rng.pct(35),
                        vertical: rng.pct(20),
                        prefix: if rng.pct(12) { Some(rng.usize_below(12)) } else { None },
                    })
                } else {
                    None
                },
            }
        }
        "Shape" => {
            let mut text = gen_text(rng, info);
            let mut feat = gen_feat(rng, info);
            if info.frac_bias && rng.pct(70) {
                feat = Feat {
                    mask: Some(DEFAULT_MASK | (1 << 16)),
                    custom: None,
                };
            }
            // with the `frac` feature requested: mostly a fraction, after text that ligatures
            // can shorten and before little or nothing (the shaper splits the run around it)
            if feat.mask.map_or(false, |m| m & (1 << 16) != 0) && rng.pct(60) {
                let digits = |rng: &mut Rng| -> String {
                    (0..1 + rng.usize_below(3)).map(|_| char::from(b'0' + rng.below(10) as u8)).collect()
                };
                let pre = *rng.pick(&["fi", "ffi", "fl", "ff", "ffl", "", "a", "fifi"]);
                let slash = if rng.pct(70) { '/' } else { '\u{2044}' };
                let post = *rng.pick(&["", "", "a", "fi", " 1/2"]);
                text = format!("{}{}{}{}{}", pre, digits(rng), slash, digits(rng), post);
            }
            let script = gen_script(rng, info, &text);
            Op::Shape {
                text,
                script,
                lang: gen_lang(rng, info),
                feat,
                tuple: gen_tuple(rng, info, true),
                kerning: rng.pct(60),
                required: rng.pct(15),
                positions: if rng.pct(70) {
                    Some(Positions {
                        rtl: rng.pct(35),
                        vertical: rng.pct(20),
                        prefix: if rng.pct(12) { Some(rng.usize_below(12)) } else { None },
                    })
                } else {
                    None
                },
            }
        }
        "FeaturesSupported" => {
            let script = gen_script(rng, info, "");
            Op::FeaturesSupported {
                script,
                lang: gen_lang(rng, info),
                mask: if rng.pct(50) {
                    1 << rng.below(46)
                } else {
                    DEFAULT_MASK
                },
            }
        }
        "HAdvance" => Op::HAdvance {
            gid: gen_gid(rng, info),
        },
        "VAdvance" => Op::VAdvance {
            gid: gen_gid(rng, info),
        },
        "GlyphNames" => {
            let cap = if rng.pct(80) { 8 } else { 300 };
            let n = 1 + rng.usize_below(cap);
            Op::GlyphNames {
                ids: (0..n).map(|_| gen_gid(rng, info)).collect(),
            }
        }
        "GlyphImage" => Op::GlyphImage {
            gid: gen_gid(rng, info),
            ppem: *rng.pick(&[0u16, 1, 12, 16, 20, 32, 109, 128, 255, 256, 300, 0xFFFF]),
            depth: *rng.pick(&[1u8, 2, 4, 8, 32, 32]),
        },
        "HasImages" => Op::HasImages,
        "SetImageFilter" => Op::SetImageFilter {
            flags: match rng.below(8) {
                0 => 0,
                1 => 0x7F,
                2 => 1 << 2,
                3 => 1 << 3,
                4 => 1 << 4,
                5 => 1 << 5,
                6 => (1 << 2) | (1 << 3) | (1 << 4),
                _ => rng.below(128) as u8,
            },
        },
        "FontQuery" => Op::FontQuery {
            what: rng
                .pick(&[
                    "os2", "gdef", "morx", "gsub", "gpos", "kern", "vhea", "axes", "axis_names",
                    "misc",
                ])
                .to_string(),
        },
        "TableData" => {
            let tags = info.tags();
            Op::TableData {
                tag: if rng.pct(85) && !tags.is_empty() {
                    rng.pick(&tags).clone()
                } else {
                    rng.pick(&["zzzz", "glyf", "CFF ", "morx", "SVG "]).to_string()
                },
            }
        }
        "ParseTable" => {
            let tags = info.tags();
            Op::ParseTable {
                tag: if !tags.is_empty() {
                    rng.pick(&tags).clone()
                } else {
                    "cmap".into()
                },
            }
        }
        "Cmap" => {
            let n = 1 + rng.usize_below(24);
            Op::Cmap {
                codes: (0..n)
                    .map(|_| match rng.below(8) {
                        0 => 0xFFFF,
                        1 => 0x10000,
                        2 => 0xFFFF_FFFF,
                        3 => 0,
                        _ => gen_char(rng, info),
                    })
                    .collect(),
                enumerate: rng.pct(50),
            }
        }
        "Names" => {
            let n = 1 + rng.usize_below(8);
            Op::Names {
                ids: (0..n)
                    .map(|_| *rng.pick(&[0u16, 1, 2, 3, 4, 5, 6, 16, 17, 25, 256, 257, 0xFFFF]))
                    .collect(),
            }
        }
        "Outline" => Op::Outline {
            gid: gen_gid(rng, info),
            tuple: gen_tuple(rng, info, false),
        },
        "Subset" => Op::Subset {
            ids: gen_ids(rng, info),
        },
        "PrinceSubset" => Op::PrinceSubset {
            ids: gen_ids(rng, info),
            target: 1 + rng.below(4) as u8,
            cid: rng.pct(50),
        },
        "WholeFont" => {
            let mut tags = info.tags();
            if rng.pct(50) {
                tags.retain(|_| rng.pct(75));
            }
            if rng.pct(10) {
                tags.push("zzzz".into());
            }
            if rng.pct(10) {
                // duplicates / shuffled order
                if let Some(t) = tags.first().cloned() {
                    tags.push(t);
                }
                tags.reverse();
            }
            Op::WholeFont { tags }
        }
        "Instance" => {
            let axes = info.axes;
            let n = if rng.pct(8) { axes + 1 } else if rng.pct(4) { 0 } else { axes };
            Op::Instance {
                coords: (0..n)
                    .map(|_| match rng.below(10) {
                        0 => 0,
                        1 => 100 << 16,
                        2 => 400 << 16,
                        3 => 900 << 16,
                        4 => -(10 << 16),
                        5 => i32::MAX,
                        6 => i32::MIN,
                        7 => 1000 << 16,
                        _ => (rng.below(1000 << 16) as i64 - (100i64 << 16)) as i32,
                    })
                    .collect(),
            }
        }
        "Metadata" => Op::Metadata,
        "Reconstruct" => Op::Reconstruct,
        _ => Op::FontNew,
    }
}

/// Re-issue `base` with exactly one argument changed.
fn near_miss(rng: &mut Rng, info: &FontInfo, base: &Op) -> Op {
    match base.clone() {
        Op::Shape {
            text,
            script,
            lang,
            feat,
            tuple,
            kerning,
            required,
            positions,
        } => {
            let mut op = (text, script, lang, feat, tuple, kerning, required, positions);
            match rng.below(8) {
                0 => op.4 = gen_tuple(rng, info, true),
                1 => {
                    op.2 = match op.2 {
                        None => Some("DFLT".to_string()),
                        Some(_) => {
                            if rng.pct(50) {
                                None
                            } else {
                                gen_lang(rng, info)
                            }
                        }
                    }
                }
                2 => op.1 = gen_script(rng, info, &op.0),
                3 => {
                    op.3 = match op.3.mask {
                        Some(m) => Feat {
                            mask: Some(m ^ (1 << rng.below(46))),
                            custom: None,
                        },
                        None => gen_feat(rng, info),
                    }
                }
                4 => op.5 = !op.5,
                5 => op.6 = !op.6,
                6 => {
                    op.7 = match op.7 {
                        None => Some(Positions {
                            rtl: rng.pct(50),
                            vertical: rng.pct(50),
                            prefix: None,
                        }),
                        Some(p) => Some(Positions {
                            rtl: !p.rtl,
                            vertical: p.vertical ^ rng.pct(50),
                            prefix: p.prefix,
                        }),
                    }
                }
                _ => op.0 = gen_text(rng, info),
            }
            Op::Shape {
                text: op.0,
                script: op.1,
                lang: op.2,
                feat: op.3,
                tuple: op.4,
                kerning: op.5,
                required: op.6,
                positions: op.7,
            }
        }
        // the same code point 65536 further up (a key that keeps only the low 16 bits)
        Op::LookupGlyph { ch, required, vs } if rng.pct(20) => Op::LookupGlyph {
            ch: if ch < 0x10000 { ch + 0x10000 } else { ch - 0x10000 },
            required,
            vs,
        },
        Op::LookupGlyph { ch, required, vs } => match rng.below(3) {
            0 => Op::LookupGlyph {
                ch,
                required: !required,
                vs,
            },
            1 => Op::LookupGlyph {
                ch,
                required,
                vs: *rng.pick(&[0u8, 1, 15, 16]),
            },
            _ => Op::LookupGlyph {
                ch: gen_char(rng, info),
                required,
                vs,
            },
        },
        Op::MapGlyphs {
            text,
            script,
            required,
        } if rng.pct(15) => Op::MapGlyphs {
            // every BMP character moved 65536 code points up
            text: text
                .chars()
                .map(|c| char::from_u32(c as u32 + 0x10000).filter(|_| (c as u32) < 0x10000).unwrap_or(c))
                .collect(),
            script,
            required,
        },
        Op::MapGlyphs {
            text,
            script,
            required,
        } => match rng.below(3) {
            0 => Op::MapGlyphs {
                text,
                script,
                required: !required,
            },
            1 => {
                let script = gen_script(rng, info, &text);
                Op::MapGlyphs {
                    text,
                    script,
                    required,
                }
            }
            _ => Op::MapGlyphs {
                text: format!("{}\u{FE0F}", text),
                script,
                required,
            },
        },
        Op::GlyphImage { gid, ppem, depth } => match rng.below(3) {
            0 => Op::GlyphImage {
                gid: gen_gid(rng, info),
                ppem,
                depth,
            },
            1 => Op::GlyphImage {
                gid,
                ppem: ppem.wrapping_add(1 + rng.below(64) as u16),
                depth,
            },
            _ => Op::GlyphImage {
                gid,
                ppem,
                depth: *rng.pick(&[1u8, 8, 32]),
            },
        },
        Op::Outline { gid, tuple } => {
            if rng.pct(50) {
                Op::Outline {
                    gid: gen_gid(rng, info),
                    tuple,
                }
            } else {
                Op::Outline {
                    gid,
                    tuple: gen_tuple(rng, info, false),
                }
            }
        }
        Op::FeaturesSupported { script, lang, mask } => match rng.below(3) {
            0 => Op::FeaturesSupported {
                script: gen_script(rng, info, ""),
                lang,
                mask,
            },
            1 => Op::FeaturesSupported {
                script,
                lang: match lang {
                    None => Some("DFLT".into()),
                    Some(_) => None,
                },
                mask,
            },
            _ => Op::FeaturesSupported {
                script,
                lang,
                mask: mask ^ (1 << rng.below(46)),
            },
        },
        Op::SetImageFilter { .. } => gen_op(rng, info, "SetImageFilter"),
        Op::HasImages => gen_op(rng, info, "SetImageFilter"),
        other => gen_op(rng, info, other.kind()),
    }
}

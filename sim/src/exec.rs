//! Executor: runs an explicit trace against the real library, one op at a time, under
//! catch_unwind, step budget and heap accounting, and evaluates the per-property oracles.

use std::borrow::Cow;
use std::collections::{BTreeMap, BTreeSet};
use std::rc::Rc;

use allsorts::binary::read::ReadScope;
use allsorts::bitmap::{BitDepth, Bitmap, BitmapGlyph, EncapsulatedFormat};
use allsorts::cff::cff2::CFF2;
use allsorts::cff::outline::CFF2Outlines;
use allsorts::cff::CFF;
use allsorts::font::{GlyphTableFlags, MatchingPresentation};
use allsorts::font_data::FontData;
use allsorts::glyph_position::{GlyphLayout, TextDirection};
use allsorts::gpos::{Info, Placement};
use allsorts::gsub::{FeatureInfo, FeatureMask, Features, RawGlyph};
use allsorts::outline::{OutlineBuilder, OutlineSink};
use allsorts::pathfinder_geometry::line_segment::LineSegment2F;
use allsorts::pathfinder_geometry::vector::Vector2F;
use allsorts::subset;
use allsorts::tables::glyf::GlyfTable;
use allsorts::tables::loca::LocaTable;
use allsorts::tables::variable_fonts::fvar::{FvarTable, OwnedTuple};
use allsorts::tables::{F2Dot14, Fixed, FontTableProvider, HeadTable, MaxpTable};
use allsorts::unicode::VariationSelector;
use allsorts::{tag, variations, Font};

use crate::disk::{self, Disk};
use crate::provider::{AnyProvider, SimProvider};
use crate::rng::{fnv64, Fnv};
use crate::sfnt_check;
use crate::trace::{tag_from_str, tag_to_string, Fault, Feat, Mode, Op, Surgery, Trace};
use crate::util::{bytes_digest, guard, short_debug, squash, PanicRec};
use crate::{alloc, surgery, walk};

pub const STEP_BASE: u64 = 50_000_000;
pub const STEP_PER_BYTE: u64 = 2_000;
pub const HEAP_BUDGET: usize = 512 << 20;
/// CPU-time budget of one op: catches loops that neither read, allocate nor call back (invisible
/// to the step clock) long before the wall-clock watchdog. Thread CPU time, not wall time, so a
/// loaded machine does not matter; two orders of magnitude above the fault-free maxima recorded
/// in evidence. The measured value never enters the event log.
pub const CPU_BASE_US: u64 = 10_000_000;
pub const CPU_PER_BYTE_US: u64 = 1;

#[derive(Clone, Debug)]
pub struct Violation {
    pub property: String,
    /// panic | oob | steps | oracle
    pub kind: String,
    /// `file:line` for panics, oracle name for oracle violations
    pub site: String,
    pub msg: String,
    pub op_index: usize,
    pub op_kind: String,
    /// true when the violation only exists because of overflow-checks
    pub overflow_profile: bool,
}

impl Violation {
    pub fn signature(&self) -> String {
        format!("{}|{}|{}", self.property, self.kind, self.site)
    }
}

#[derive(Default, Clone)]
pub struct Stats {
    pub counters: BTreeMap<String, u64>,
    pub sets: BTreeMap<String, BTreeSet<String>>,
    pub maxima: BTreeMap<String, u64>,
}

impl Stats {
    pub fn bump(&mut self, key: &str) {
        *self.counters.entry(key.to_string()).or_insert(0) += 1;
    }
    pub fn add(&mut self, key: &str, n: u64) {
        *self.counters.entry(key.to_string()).or_insert(0) += n;
    }
    pub fn note(&mut self, set: &str, item: String) {
        let s = self.sets.entry(set.to_string()).or_default();
        if s.len() < 200_000 {
            s.insert(item);
        }
    }
    pub fn max(&mut self, key: &str, v: u64) {
        let e = self.maxima.entry(key.to_string()).or_insert(0);
        if v > *e {
            *e = v;
        }
    }
    pub fn merge(&mut self, other: &Stats) {
        for (k, v) in &other.counters {
            *self.counters.entry(k.clone()).or_insert(0) += v;
        }
        for (k, v) in &other.sets {
            let s = self.sets.entry(k.clone()).or_default();
            for i in v {
                s.insert(i.clone());
            }
        }
        for (k, v) in &other.maxima {
            self.max(k, *v);
        }
    }
}

pub struct RunReport {
    pub digest: u64,
    pub events: Vec<String>,
    pub violations: Vec<Violation>,
    pub foreign: Vec<Violation>,
    pub harness_error: Option<String>,
}

/// Result of one op: outcome class + canonical value.
#[derive(Clone, Debug, PartialEq, Eq)]
pub struct OpOut {
    pub class: String,
    pub canon: String,
}

impl OpOut {
    fn ok(canon: String) -> OpOut {
        OpOut {
            class: "ok".into(),
            canon: squash(canon),
        }
    }
    fn err<E: std::fmt::Debug>(e: E) -> OpOut {
        let s = short_debug(&e);
        let variant: String = s
            .chars()
            .take_while(|c| c.is_alphanumeric() || *c == '_')
            .collect();
        OpOut {
            class: format!("err:{}", variant),
            canon: s,
        }
    }
    fn errs(class: &str, canon: String) -> OpOut {
        OpOut {
            class: format!("err:{}", class),
            canon,
        }
    }
}

pub struct Env<'d> {
    /// Files named by `Op::Decoy`, loaded up front (path -> bytes).
    pub decoys: BTreeMap<String, Rc<Vec<u8>>>,
    pub mode: Mode,
    pub sim: Option<SimProvider>,
    pub image: &'d [u8],
    pub index: usize,
    pub font_len: usize,
    pub fault_free: bool,
}

impl<'d> Env<'d> {
    pub fn font_data(&self) -> Result<FontData<'d>, String> {
        ReadScope::new(self.image)
            .read::<FontData<'d>>()
            .map_err(|e| format!("FontData:{:?}", e))
    }

    pub fn provider_at(&self, index: usize) -> Result<AnyProvider<'d>, String> {
        match self.mode {
            Mode::Provider => Ok(AnyProvider::Sim(self.sim.clone().expect("sim provider"))),
            Mode::Image => {
                let fd = self.font_data()?;
                fd.table_provider(index)
                    .map(AnyProvider::Dyn)
                    .map_err(|e| format!("table_provider:{:?}", e))
            }
        }
    }

    pub fn provider(&self) -> Result<AnyProvider<'d>, String> {
        self.provider_at(self.index)
    }
}

enum Outl {
    Glyf {
        glyf: GlyfTable<'static>,
        _loca: Box<LocaTable<'static>>,
    },
    Cff(Box<CFF<'static>>),
    Cff2(Box<CFF2<'static>>),
    Unavailable(String),
}

/// A long-lived client of the library: one `Font` plus one outline table object, as an
/// application would hold them.
pub struct World<'e, 'd> {
    env: &'e Env<'d>,
    font: Option<Font<AnyProvider<'d>>>,
    filter: Option<u8>,
    outl: Option<Outl>,
    /// C09 under faults: record which source glyphs of a subset are readable.
    pub want_source_ok: bool,
    // Declared last: dropped after everything that borrows from it.
    arena: Vec<Box<[u8]>>,
}

/// Outline sink: canonical text of the commands. Only the first 64 KiB are kept verbatim, the
/// rest is folded into a running hash, so that an outline of millions of commands costs the
/// harness no memory and shows up as steps / CPU of the operation that emitted it.
struct Sink {
    out: String,
    n: usize,
    tail: crate::rng::Fnv,
    folded: bool,
    scratch: String,
}

impl Default for Sink {
    fn default() -> Sink {
        Sink {
            out: String::new(),
            n: 0,
            tail: crate::rng::Fnv::new(),
            folded: false,
            scratch: String::new(),
        }
    }
}

impl Sink {
    fn cmd(&mut self, c: char, pts: &[Vector2F]) {
        use std::fmt::Write;
        crate::util::tick();
        self.n += 1;
        if self.out.len() < 65536 {
            self.out.push(c);
            for p in pts {
                let _ = write!(self.out, "{:08x},{:08x};", p.x().to_bits(), p.y().to_bits());
            }
        } else {
            self.folded = true;
            self.scratch.clear();
            self.scratch.push(c);
            for p in pts {
                let _ = write!(self.scratch, "{:08x},{:08x};", p.x().to_bits(), p.y().to_bits());
            }
            self.tail.write(self.scratch.as_bytes());
        }
    }

    fn text(&self) -> String {
        if self.folded {
            format!("{}+fnv={:016x}", self.out, self.tail.finish())
        } else {
            self.out.clone()
        }
    }
}

impl OutlineSink for Sink {
    fn move_to(&mut self, to: Vector2F) {
        self.cmd('M', &[to]);
    }
    fn line_to(&mut self, to: Vector2F) {
        self.cmd('L', &[to]);
    }
    fn quadratic_curve_to(&mut self, ctrl: Vector2F, to: Vector2F) {
        self.cmd('Q', &[ctrl, to]);
    }
    fn cubic_curve_to(&mut self, ctrl: LineSegment2F, to: Vector2F) {
        self.cmd('C', &[ctrl.from(), ctrl.to(), to]);
    }
    fn close(&mut self) {
        self.cmd('Z', &[]);
    }
}

fn vs_from(n: u8) -> Option<VariationSelector> {
    match n {
        1 => Some(VariationSelector::VS01),
        2 => Some(VariationSelector::VS02),
        3 => Some(VariationSelector::VS03),
        15 => Some(VariationSelector::VS15),
        16 => Some(VariationSelector::VS16),
        _ => None,
    }
}

fn presentation(required: bool) -> MatchingPresentation {
    if required {
        MatchingPresentation::Required
    } else {
        MatchingPresentation::NotRequired
    }
}

pub fn features_from(feat: &Feat) -> Features {
    if let Some(custom) = &feat.custom {
        Features::Custom(
            custom
                .iter()
                .map(|(t, alt)| FeatureInfo {
                    feature_tag: tag_from_str(t),
                    alternate: *alt,
                })
                .collect(),
        )
    } else {
        Features::Mask(FeatureMask::from_bits_truncate(feat.mask.unwrap_or(0)))
    }
}

fn depth_from(d: u8) -> BitDepth {
    match d {
        1 => BitDepth::One,
        2 => BitDepth::Two,
        4 => BitDepth::Four,
        8 => BitDepth::Eight,
        _ => BitDepth::ThirtyTwo,
    }
}

fn canon_bitmap(b: &BitmapGlyph) -> String {
    let bm = match &b.bitmap {
        Bitmap::Embedded(e) => format!(
            "embedded {}x{} {:?} {}",
            e.width,
            e.height,
            e.format,
            bytes_digest(&e.data)
        ),
        Bitmap::Encapsulated(e) => {
            let f = match e.format {
                EncapsulatedFormat::Jpeg => "jpeg".to_string(),
                EncapsulatedFormat::Png => "png".to_string(),
                EncapsulatedFormat::Tiff => "tiff".to_string(),
                EncapsulatedFormat::Svg => "svg".to_string(),
                EncapsulatedFormat::Other(t) => format!("other:{:08x}", t),
            };
            format!("encapsulated {} {}", f, bytes_digest(&e.data))
        }
    };
    format!("{:?} {:?} {:?} {}", b.ppem_x, b.ppem_y, b.metrics, bm)
}

/// Owned tuple built through the safe API from the font's own `fvar`.
fn make_tuple(provider: &impl FontTableProvider, raw: &[i16]) -> Option<OwnedTuple> {
    let data = provider.table_data(tag::FVAR).ok()??;
    let fvar = ReadScope::new(&data).read::<FvarTable<'_>>().ok()?;
    let vals: Vec<F2Dot14> = raw.iter().map(|&v| F2Dot14::from_raw(v)).collect();
    fvar.owned_tuple(&vals)
}

impl<'e, 'd> World<'e, 'd> {
    pub fn new(env: &'e Env<'d>) -> World<'e, 'd> {
        World {
            env,
            font: None,
            filter: None,
            outl: None,
            want_source_ok: false,
            arena: Vec::new(),
        }
    }

    /// Whether the (damaged) source gives an advance for the glyph each output glyph stems from
    /// (`ids[k]` for subsets, glyph k itself for instances and whole-font copies).
    fn source_advance(&mut self, ids: Option<&[u16]>) -> Option<Vec<bool>> {
        if !self.want_source_ok {
            return None;
        }
        let provider = self.env.provider().ok()?;
        let mut font = Font::new(provider).ok()?;
        let all: Vec<u16>;
        let ids = match ids {
            Some(ids) => ids,
            None => {
                all = (0..font.num_glyphs().min(3000)).collect();
                &all
            }
        };
        if ids.len() > 3000 {
            return None;
        }
        Some(ids.iter().map(|g| font.horizontal_advance(*g).is_some()).collect())
    }

    /// Which of `ids` have a source outline that can be visited (fresh outline table).
    fn source_ok(&mut self, ids: &[u16]) -> Option<Vec<bool>> {
        if !self.want_source_ok || ids.len() > 3000 {
            return None;
        }
        let mut seen = BTreeSet::new();
        if !ids.iter().all(|g| seen.insert(*g)) {
            return None;
        }
        let mut outl = self.load_outl().ok()?;
        if let Outl::Cff(cff) = &outl {
            // `seac` names its components by standard-encoding code -> SID -> first glyph
            // carrying that SID. When a fault makes two glyphs share a SID, which one is
            // "first" depends on glyph order, so a (legitimately) reordered subset may resolve
            // a component differently from the source: no relation is claimed for such runs.
            if let Some(f) = cff.fonts.first() {
                let n = f.char_strings_index.len().min(65535) as u16;
                let mut sids = BTreeSet::new();
                for g in 1..n {
                    if let Some(sid) = f.charset.id_for_glyph(g) {
                        if !sids.insert(sid) {
                            return None;
                        }
                    }
                }
            }
        }
        let mut v = Vec::with_capacity(ids.len());
        for g in ids {
            let mut sink = Sink::default();
            let ok = match &mut outl {
                Outl::Glyf { glyf, .. } => glyf.visit(*g, &mut sink).is_ok(),
                Outl::Cff(cff) => cff.visit(*g, &mut sink).is_ok(),
                Outl::Cff2(cff2) => {
                    let mut o = CFF2Outlines {
                        table: &**cff2,
                        tuple: None,
                    };
                    o.visit(*g, &mut sink).is_ok()
                }
                Outl::Unavailable(_) => false,
            };
            v.push(ok);
        }
        Some(v)
    }

    /// Configuration mutators seen so far (replayed on the C03 reference world).
    pub fn config(&self) -> Option<u8> {
        self.filter
    }

    pub fn with_config(env: &'e Env<'d>, filter: Option<u8>) -> World<'e, 'd> {
        let mut w = World::new(env);
        w.filter = filter;
        w
    }

    fn stash(&mut self, data: Vec<u8>) -> &'static [u8] {
        let b: Box<[u8]> = data.into_boxed_slice();
        // SAFETY (harness only): the box is kept in `self.arena` (never removed) and
        // `arena` is the last field of `World`, so it outlives every borrower stored in
        // the fields before it; the heap block of a Box<[u8]> does not move.
        let s: &'static [u8] = unsafe { std::slice::from_raw_parts(b.as_ptr(), b.len()) };
        self.arena.push(b);
        s
    }

    fn ensure_font(&mut self) -> Result<(), OpOut> {
        if self.font.is_some() {
            return Ok(());
        }
        let provider = self
            .env
            .provider()
            .map_err(|e| OpOut::errs("provider", e))?;
        match Font::new(provider) {
            Ok(mut font) => {
                if let Some(f) = self.filter {
                    font.set_embedded_image_filter(GlyphTableFlags::from_bits_truncate(f));
                }
                self.font = Some(font);
                Ok(())
            }
            Err(e) => Err(OpOut::errs("font_new", format!("{:?}", e))),
        }
    }

    fn ensure_outl(&mut self) {
        if self.outl.is_some() {
            return;
        }
        let outl = match self.load_outl() {
            Ok(o) => o,
            Err(e) => Outl::Unavailable(e),
        };
        self.outl = Some(outl);
    }

    fn load_outl(&mut self) -> Result<Outl, String> {
        let provider = self.env.provider()?;
        let fetch = |t: u32| -> Result<Option<Vec<u8>>, String> {
            provider
                .table_data(t)
                .map(|o| o.map(|c| c.into_owned()))
                .map_err(|e| format!("{}:{:?}", tag_to_string(t), e))
        };
        if let Some(glyf_data) = fetch(tag::GLYF)? {
            let head = fetch(tag::HEAD)?.ok_or("no head")?;
            let maxp = fetch(tag::MAXP)?.ok_or("no maxp")?;
            let loca_data = fetch(tag::LOCA)?.ok_or("no loca")?;
            let head = ReadScope::new(&head)
                .read::<HeadTable>()
                .map_err(|e| format!("head:{:?}", e))?;
            let maxp = ReadScope::new(&maxp)
                .read::<MaxpTable>()
                .map_err(|e| format!("maxp:{:?}", e))?;
            let loca_data = self.stash(loca_data);
            let glyf_data = self.stash(glyf_data);
            let loca = ReadScope::new(loca_data)
                .read_dep::<LocaTable<'_>>((usize::from(maxp.num_glyphs), head.index_to_loc_format))
                .map_err(|e| format!("loca:{:?}", e))?;
            let loca: Box<LocaTable<'static>> = Box::new(loca);
            // SAFETY (harness only): `_loca` is stored next to `glyf` in `Outl::Glyf` and
            // declared after it, so it is dropped after the table that borrows it.
            let loca_ref: &'static LocaTable<'static> = unsafe { &*(&*loca as *const _) };
            let glyf = ReadScope::new(glyf_data)
                .read_dep::<GlyfTable<'_>>(loca_ref)
                .map_err(|e| format!("glyf:{:?}", e))?;
            Ok(Outl::Glyf { glyf, _loca: loca })
        } else if let Some(cff) = fetch(tag::CFF)? {
            let data = self.stash(cff);
            let cff = ReadScope::new(data)
                .read::<CFF<'_>>()
                .map_err(|e| format!("CFF:{:?}", e))?;
            Ok(Outl::Cff(Box::new(cff)))
        } else if let Some(cff2) = fetch(tag::CFF2)? {
            let data = self.stash(cff2);
            let cff2 = ReadScope::new(data)
                .read::<CFF2<'_>>()
                .map_err(|e| format!("CFF2:{:?}", e))?;
            Ok(Outl::Cff2(Box::new(cff2)))
        } else {
            Err("no outline table".into())
        }
    }

    /// Execute one op. Panics propagate to the caller's `guard`.
    pub fn exec(&mut self, op: &Op, extra: &mut Extra) -> OpOut {
        match op {
            Op::Load { index } => self.op_load(*index),
            Op::FontNew => {
                self.font = None;
                match self.ensure_font() {
                    Ok(()) => {
                        let f = self.font.as_ref().unwrap();
                        OpOut::ok(format!(
                            "glyphs={} enc={:?} flags={:?} var={}",
                            f.num_glyphs(),
                            f.cmap_subtable_encoding,
                            f.glyph_table_flags,
                            f.is_variable()
                        ))
                    }
                    Err(e) => e,
                }
            }
            Op::LookupGlyph { ch, required, vs } => {
                if let Err(e) = self.ensure_font() {
                    return e;
                }
                let ch = char::from_u32(*ch).unwrap_or('\u{FFFD}');
                let font = self.font.as_mut().unwrap();
                let r = font.lookup_glyph_index(ch, presentation(*required), vs_from(*vs));
                OpOut::ok(format!("{:?}", r))
            }
            Op::MapGlyphs {
                text,
                script,
                required,
            } => {
                if let Err(e) = self.ensure_font() {
                    return e;
                }
                let font = self.font.as_mut().unwrap();
                let glyphs = font.map_glyphs(text, tag_from_str(script), presentation(*required));
                extra.mapped = Some(glyphs.len());
                OpOut::ok(format!("{:?}", glyphs))
            }
            Op::Shape {
                text,
                script,
                lang,
                feat,
                tuple,
                kerning,
                required,
                positions,
            } => {
                if let Err(e) = self.ensure_font() {
                    return e;
                }
                let font = self.font.as_mut().unwrap();
                let script = tag_from_str(script);
                let lang = lang.as_deref().map(tag_from_str);
                let glyphs = font.map_glyphs(text, script, presentation(*required));
                let submitted: BTreeSet<char> = glyphs
                    .iter()
                    .flat_map(|g| g.unicodes.iter().copied())
                    .collect();
                let num_glyphs = font.num_glyphs();
                let submitted_len = glyphs.len();
                let inputs_in_range = glyphs.iter().all(|g| g.glyph_index < num_glyphs);
                let owned = tuple
                    .as_ref()
                    .and_then(|raw| make_tuple(&font.font_table_provider, raw));
                let features = features_from(feat);
                let res = font.shape(
                    glyphs,
                    script,
                    lang,
                    &features,
                    owned.as_ref().map(|t| t.as_tuple()),
                    *kerning,
                );
                let (infos, head) = match res {
                    Ok(infos) => (infos, "Ok".to_string()),
                    Err((e, infos)) => (infos, format!("Err({:?})", e)),
                };
                extra.shape = Some(ShapeFacts {
                    ok: head == "Ok",
                    submitted,
                    num_glyphs,
                    inputs_in_range,
                    tuple_used: owned.is_some(),
                    submitted_len,
                    check: check_run(&infos),
                    max_gid: infos.iter().map(|i| i.glyph.glyph_index).max(),
                    unicodes: infos
                        .iter()
                        .flat_map(|i| i.glyph.unicodes.iter().copied())
                        .collect(),
                    len: infos.len(),
                    len_shaped: infos.len(),
                    pos_len: None,
                });
                let mut canon = format!("{} {:?}", head, infos);
                if let Some(p) = positions {
                    let dir = if p.rtl {
                        TextDirection::RightToLeft
                    } else {
                        TextDirection::LeftToRight
                    };
                    let laid_out: &[Info] = match p.prefix {
                        Some(k) => &infos[..k.min(infos.len())],
                        None => &infos,
                    };
                    let mut layout = GlyphLayout::new(font, laid_out, dir, p.vertical);
                    match layout.glyph_positions() {
                        Ok(pos) => {
                            if let Some(s) = extra.shape.as_mut() {
                                s.pos_len = Some(pos.len());
                                s.len = laid_out.len();
                            }
                            canon.push_str(&format!(" POS Ok {:?}", pos));
                        }
                        Err(e) => canon.push_str(&format!(" POS Err({:?})", e)),
                    }
                }
                OpOut {
                    class: if head == "Ok" {
                        "ok".into()
                    } else {
                        format!(
                            "err:{}",
                            head.chars()
                                .filter(|c| c.is_alphanumeric())
                                .take(40)
                                .collect::<String>()
                        )
                    },
                    canon: squash(canon),
                }
            }
            Op::ShapeSweep { text, script, count, vary, tuple } => {
                if let Err(e) = self.ensure_font() {
                    return e;
                }
                let font = self.font.as_mut().unwrap();
                let script = tag_from_str(script);
                let owned = tuple
                    .as_ref()
                    .and_then(|raw| make_tuple(&font.font_table_provider, raw));
                let mut h = Fnv::new();
                let mut errs = 0u32;
                for i in 0..u32::from(*count) {
                    let lang = if *vary != 1 {
                        let l = [b'A' + (i / 676 % 26) as u8, b'A' + (i / 26 % 26) as u8, b'A' + (i % 26) as u8, b' '];
                        Some(u32::from_be_bytes(l))
                    } else {
                        None
                    };
                    let mask = if *vary != 0 {
                        // distinct subsets of the optional typographic features
                        allsorts::gsub::FeatureMask::default().bits() ^ (u64::from(i) << 3)
                    } else {
                        allsorts::gsub::FeatureMask::default().bits()
                    };
                    let features = features_from(&Feat { mask: Some(mask), custom: None });
                    let glyphs = font.map_glyphs(text, script, presentation(false));
                    let res = font.shape(glyphs, script, lang, &features, owned.as_ref().map(|t| t.as_tuple()), true);
                    let (infos, head) = match res {
                        Ok(infos) => (infos, "Ok".to_string()),
                        Err((e, infos)) => {
                            errs += 1;
                            (infos, format!("Err({:?})", e))
                        }
                    };
                    h.write(head.as_bytes());
                    h.write(format!("{:?}", infos).as_bytes());
                }
                OpOut::ok(format!("sweep {} errs {} {:016x}", count, errs, h.finish()))
            }
            Op::FeaturesSupported { script, lang, mask } => {
                if let Err(e) = self.ensure_font() {
                    return e;
                }
                let font = self.font.as_mut().unwrap();
                match font.gsub_cache() {
                    Ok(Some(cache)) => {
                        let r = allsorts::gsub::features_supported(
                            &cache,
                            tag_from_str(script),
                            lang.as_deref().map(tag_from_str),
                            FeatureMask::from_bits_truncate(*mask),
                        );
                        match r {
                            Ok(b) => OpOut::ok(format!("{}", b)),
                            Err(e) => OpOut::err(e),
                        }
                    }
                    Ok(None) => OpOut::ok("no-gsub".into()),
                    Err(e) => OpOut::err(e),
                }
            }
            Op::HAdvance { gid } => {
                if let Err(e) = self.ensure_font() {
                    return e;
                }
                let r = self.font.as_mut().unwrap().horizontal_advance(*gid);
                OpOut::ok(format!("{:?}", r))
            }
            Op::VAdvance { gid } => {
                if let Err(e) = self.ensure_font() {
                    return e;
                }
                let r = self.font.as_mut().unwrap().vertical_advance(*gid);
                OpOut::ok(format!("{:?}", r))
            }
            Op::GlyphNames { ids } => {
                if let Err(e) = self.ensure_font() {
                    return e;
                }
                let r = self.font.as_ref().unwrap().glyph_names(ids);
                OpOut::ok(format!("{:?}", r))
            }
            Op::GlyphImage { gid, ppem, depth } => {
                if let Err(e) = self.ensure_font() {
                    return e;
                }
                let r = self
                    .font
                    .as_mut()
                    .unwrap()
                    .lookup_glyph_image(*gid, *ppem, depth_from(*depth));
                match r {
                    Ok(Some(b)) => OpOut::ok(canon_bitmap(&b)),
                    Ok(None) => OpOut::ok("None".into()),
                    Err(e) => OpOut::err(e),
                }
            }
            Op::HasImages => {
                if let Err(e) = self.ensure_font() {
                    return e;
                }
                let r = self.font.as_mut().unwrap().has_embedded_images();
                OpOut::ok(format!("{}", r))
            }
            Op::SetImageFilter { flags } => {
                self.filter = Some(*flags);
                if let Some(font) = self.font.as_mut() {
                    font.set_embedded_image_filter(GlyphTableFlags::from_bits_truncate(*flags));
                }
                OpOut::ok(String::new())
            }
            Op::FontQuery { what } => {
                if let Err(e) = self.ensure_font() {
                    return e;
                }
                let font = self.font.as_mut().unwrap();
                match what.as_str() {
                    "os2" => match font.os2_table() {
                        Ok(t) => OpOut::ok(format!("{:?}", t.map(|t| walk::os2_summary(&t)))),
                        Err(e) => OpOut::err(e),
                    },
                    "gdef" => match font.gdef_table() {
                        Ok(t) => OpOut::ok(format!("{}", t.is_some())),
                        Err(e) => OpOut::err(e),
                    },
                    "morx" => match font.morx_table() {
                        Ok(t) => OpOut::ok(format!("{}", t.is_some())),
                        Err(e) => OpOut::err(e),
                    },
                    "gsub" => match font.gsub_cache() {
                        Ok(t) => OpOut::ok(format!("{}", t.is_some())),
                        Err(e) => OpOut::err(e),
                    },
                    "gpos" => match font.gpos_cache() {
                        Ok(t) => OpOut::ok(format!("{}", t.is_some())),
                        Err(e) => OpOut::err(e),
                    },
                    "kern" => match font.kern_table() {
                        Ok(t) => OpOut::ok(format!("{}", t.is_some())),
                        Err(e) => OpOut::err(e),
                    },
                    "vhea" => match font.vhea_table() {
                        Ok(t) => OpOut::ok(format!("{:?}", t)),
                        Err(e) => OpOut::err(e),
                    },
                    "axes" => match font.variation_axes() {
                        Ok(t) => OpOut::ok(format!("{:?}", t)),
                        Err(e) => OpOut::err(e),
                    },
                    "axis_names" => match font.axis_names() {
                        Ok(t) => OpOut::ok(format!("{:?}", t)),
                        Err(e) => OpOut::err(e),
                    },
                    _ => OpOut::ok(format!(
                        "var={} outl={} n={} cmaplen={}",
                        font.is_variable(),
                        font.has_glyph_outlines(),
                        font.num_glyphs(),
                        font.cmap_subtable_data().len()
                    )),
                }
            }
            Op::TableData { tag } => {
                let provider = match self.env.provider() {
                    Ok(p) => p,
                    Err(e) => return OpOut::errs("provider", e),
                };
                let t = tag_from_str(tag);
                let has = provider.has_table(t);
                let mut tags = provider.table_tags();
                if let Some(tags) = tags.as_mut() {
                    tags.sort_unstable();
                }
                match provider.table_data(t) {
                    Ok(d) => OpOut::ok(format!(
                        "has={} data={:?} tags={:?}",
                        has,
                        d.map(|d| bytes_digest(&d)),
                        tags
                    )),
                    Err(e) => OpOut::err(e),
                }
            }
            Op::ParseTable { tag } => {
                let provider = match self.env.provider() {
                    Ok(p) => p,
                    Err(e) => return OpOut::errs("provider", e),
                };
                match walk::parse_table(&provider, tag_from_str(tag)) {
                    Ok(s) => OpOut::ok(s),
                    Err(e) => OpOut::errs(&e.0, e.1),
                }
            }
            Op::Cmap { codes, enumerate } => {
                let provider = match self.env.provider() {
                    Ok(p) => p,
                    Err(e) => return OpOut::errs("provider", e),
                };
                match walk::cmap_ops(&provider, codes, *enumerate) {
                    Ok(s) => OpOut::ok(s),
                    Err(e) => OpOut::errs(&e.0, e.1),
                }
            }
            Op::Names { ids } => {
                let provider = match self.env.provider() {
                    Ok(p) => p,
                    Err(e) => return OpOut::errs("provider", e),
                };
                match walk::names(&provider, ids) {
                    Ok(s) => OpOut::ok(s),
                    Err(e) => OpOut::errs(&e.0, e.1),
                }
            }
            Op::Outline { gid, tuple } => {
                self.ensure_outl();
                let tuple_owned = match (tuple, self.env.provider()) {
                    (Some(raw), Ok(p)) => make_tuple(&p, raw),
                    _ => None,
                };
                let mut sink = Sink::default();
                let res: Result<(), String> = match self.outl.as_mut().unwrap() {
                    Outl::Glyf { glyf, .. } => glyf
                        .visit(*gid, &mut sink)
                        .map_err(|e| format!("{:?}", e)),
                    Outl::Cff(cff) => cff.visit(*gid, &mut sink).map_err(|e| format!("{:?}", e)),
                    Outl::Cff2(cff2) => {
                        let mut o = CFF2Outlines {
                            table: &**cff2,
                            tuple: tuple_owned.as_ref(),
                        };
                        o.visit(*gid, &mut sink).map_err(|e| format!("{:?}", e))
                    }
                    Outl::Unavailable(e) => Err(format!("unavailable:{}", e)),
                };
                match res {
                    Ok(()) => OpOut::ok(format!("n={} {}", sink.n, sink.text())),
                    // A failed visit may already have emitted commands; only the error is
                    // part of the canonical result.
                    Err(e) => OpOut::errs("visit", e),
                }
            }
            Op::Subset { ids } => {
                let provider = match self.env.provider() {
                    Ok(p) => p,
                    Err(e) => return OpOut::errs("provider", e),
                };
                match subset::subset(&provider, ids) {
                    Ok(bytes) => {
                        let source_ok = self.source_ok(ids);
                        let source_advance = self.source_advance(Some(ids));
                        extra.written = Some(Written {
                            bytes: bytes.clone(),
                            kind: WrittenKind::Sfnt,
                            glyphs: Some(ids.len()),
                            source_ok,
                            source_advance,
                        });
                        OpOut::ok(bytes_digest(&bytes))
                    }
                    Err(e) => OpOut::err(e),
                }
            }
            Op::PrinceSubset { ids, target, cid } => {
                let provider = match self.env.provider() {
                    Ok(p) => p,
                    Err(e) => return OpOut::errs("provider", e),
                };
                let target_v = match target {
                    2 => subset::prince::PrinceCmapTarget::MacRoman,
                    3 => subset::prince::PrinceCmapTarget::Omit,
                    4 => {
                        let mut m = Box::new([0u8; 256]);
                        for (i, b) in m.iter_mut().enumerate() {
                            *b = if i < ids.len() { i as u8 } else { 0 };
                        }
                        subset::prince::PrinceCmapTarget::MacRomanCmap(m)
                    }
                    _ => subset::prince::PrinceCmapTarget::Unrestricted,
                };
                let bare_cff = provider.has_table(tag::CFF) || provider.has_table(tag::CFF2);
                match subset::prince::subset(&provider, ids, target_v, *cid) {
                    Ok(bytes) => {
                        // CFF2 sources are converted to CFF at the default instance; only
                        // same-format outlines are compared
                        let source_ok = if provider.has_table(tag::CFF2) {
                            None
                        } else {
                            self.source_ok(ids)
                        };
                        let source_advance = self.source_advance(Some(ids));
                        extra.written = Some(Written {
                            source_ok,
                            source_advance,
                            bytes: bytes.clone(),
                            kind: if bare_cff {
                                WrittenKind::BareCff
                            } else if *target == 3 {
                                WrittenKind::SfntNoCmap
                            } else {
                                WrittenKind::Sfnt
                            },
                            glyphs: Some(ids.len()),
                        });
                        OpOut::ok(bytes_digest(&bytes))
                    }
                    Err(e) => OpOut::err(e),
                }
            }
            Op::WholeFont { tags } => {
                let provider = match self.env.provider() {
                    Ok(p) => p,
                    Err(e) => return OpOut::errs("provider", e),
                };
                let tags: Vec<u32> = tags.iter().map(|t| tag_from_str(t)).collect();
                match subset::whole_font(&provider, &tags) {
                    Ok(bytes) => {
                        let source_advance = self.source_advance(None);
                        extra.written = Some(Written {
                            source_advance,
                            bytes: bytes.clone(),
                            kind: WrittenKind::Whole,
                            glyphs: None,
                            source_ok: None,
                        });
                        OpOut::ok(bytes_digest(&bytes))
                    }
                    Err(e) => OpOut::err(e),
                }
            }
            Op::Instance { coords } => {
                let provider = match self.env.provider() {
                    Ok(p) => p,
                    Err(e) => return OpOut::errs("provider", e),
                };
                let coords: Vec<Fixed> = coords.iter().map(|&c| Fixed::from_raw(c)).collect();
                match variations::instance(&provider, &coords) {
                    Ok((bytes, tuple)) => {
                        let source_advance = self.source_advance(None);
                        extra.written = Some(Written {
                            source_advance,
                            bytes: bytes.clone(),
                            kind: WrittenKind::Instance,
                            glyphs: None,
                            source_ok: None,
                        });
                        OpOut::ok(format!("{} {:?}", bytes_digest(&bytes), tuple))
                    }
                    Err(e) => OpOut::err(e),
                }
            }
            Op::Decoy { font, index, cut, set } => {
                let Some(data) = self.env.decoys.get(font) else {
                    return OpOut::errs("decoy", "file not available".into());
                };
                let patched: Vec<u8>;
                let data: &[u8] = match set {
                    Some((off, val)) if off + 4 <= data.len() => {
                        let mut v = (**data).clone();
                        v[*off..*off + 4].copy_from_slice(&val.to_be_bytes());
                        patched = v;
                        &patched
                    }
                    _ => &data[..],
                };
                let bytes: &[u8] = match cut {
                    Some(c) => &data[..(*c).min(data.len())],
                    None => data,
                };
                let fd = match ReadScope::new(bytes).read::<FontData<'_>>() {
                    Ok(fd) => fd,
                    Err(e) => return OpOut::err(e),
                };
                let provider = match fd.table_provider(*index) {
                    Ok(p) => p,
                    Err(e) => return OpOut::err(e),
                };
                let mut tags = provider.table_tags().unwrap_or_default();
                tags.sort_unstable();
                tags.dedup();
                tags.truncate(96);
                let mut h = Fnv::new();
                let mut errs = 0;
                for t in &tags {
                    h.write_u64(u64::from(*t));
                    match provider.table_data(*t) {
                        Ok(Some(d)) => h.write(&d),
                        Ok(None) => h.write(b"none"),
                        Err(e) => {
                            errs += 1;
                            h.write(format!("{:?}", e).as_bytes())
                        }
                    }
                }
                OpOut::ok(format!("tables={} errs={} fnv={:016x}", tags.len(), errs, h.finish()))
            }
            Op::Reconstruct => {
                let provider = match self.env.provider() {
                    Ok(p) => p,
                    Err(e) => return OpOut::errs("provider", e),
                };
                let mut tags = provider.table_tags().unwrap_or_default();
                tags.sort_unstable();
                tags.dedup();
                tags.truncate(96);
                let mut tables = Vec::new();
                let mut h = Fnv::new();
                for t in tags {
                    match provider.table_data(t) {
                        Ok(Some(d)) => {
                            h.write_u64(u64::from(t));
                            h.write(&d);
                            tables.push((t, d.into_owned()));
                        }
                        Ok(None) => {}
                        Err(e) => return OpOut::err(e),
                    }
                }
                let n = tables.len();
                extra.recon = Some(tables);
                OpOut::ok(format!("tables={} fnv={:016x}", n, h.finish()))
            }
            Op::Metadata => {
                let fd = match self.env.font_data() {
                    Ok(fd) => fd,
                    Err(e) => return OpOut::errs("provider", e),
                };
                match fd {
                    FontData::Woff(w) => match w.extended_metadata() {
                        Ok(m) => OpOut::ok(format!("{:?}", m.map(|s| bytes_digest(s.as_bytes())))),
                        Err(e) => OpOut::err(e),
                    },
                    FontData::Woff2(w) => match w.extended_metadata() {
                        Ok(m) => OpOut::ok(format!("{:?}", m.map(|s| bytes_digest(s.as_bytes())))),
                        Err(e) => OpOut::err(e),
                    },
                    FontData::OpenType(_) => OpOut::ok("opentype".into()),
                }
            }
        }
    }

    fn op_load(&mut self, index: usize) -> OpOut {
        let provider = match self.env.provider_at(index) {
            Ok(p) => p,
            Err(e) => return OpOut::errs("provider", e),
        };
        let mut tags = provider.table_tags().unwrap_or_default();
        tags.sort_unstable();
        tags.dedup();
        let mut h = Fnv::new();
        let mut errs = 0;
        // Each table_data call is a linear directory search in the library; fetching every
        // tag of a (corrupt) 65535-entry directory would make this op quadratic by the
        // harness' own doing, so only a bounded sample of the tags is fetched.
        let total_tags = tags.len();
        if tags.len() > 96 {
            let tail = tags.split_off(tags.len() - 16);
            tags.truncate(80);
            tags.extend(tail);
        }
        h.write_u64(total_tags as u64);
        for t in &tags {
            h.write_u64(u64::from(*t));
            match provider.table_data(*t) {
                Ok(Some(d)) => h.write(&d),
                Ok(None) => h.write(b"none"),
                Err(e) => {
                    errs += 1;
                    h.write(format!("{:?}", e).as_bytes())
                }
            }
        }
        use allsorts::tables::SfntVersion;
        OpOut::ok(format!(
            "flavour={:08x} tables={} errs={} fnv={:016x}",
            provider.sfnt_version(),
            total_tags,
            errs,
            h.finish()
        ))
    }
}

/// Facts the oracles need beyond the canonical string.
#[derive(Default)]
pub struct Extra {
    /// Tables fetched by `Op::Reconstruct`.
    pub recon: Option<Vec<(u32, Vec<u8>)>>,
    pub mapped: Option<usize>,
    pub shape: Option<ShapeFacts>,
    pub written: Option<Written>,
}

pub struct ShapeFacts {
    pub ok: bool,
    pub submitted: BTreeSet<char>,
    pub num_glyphs: u16,
    pub inputs_in_range: bool,
    pub tuple_used: bool,
    /// number of glyphs submitted to `shape`
    pub submitted_len: usize,
    pub check: Result<(), String>,
    pub max_gid: Option<u16>,
    pub unicodes: BTreeSet<char>,
    /// number of glyphs that were laid out (the run, or its prefix)
    pub len: usize,
    /// length of the run `shape` returned
    pub len_shaped: usize,
    pub pos_len: Option<usize>,
}

#[derive(Clone, Copy, PartialEq, Eq, Debug)]
pub enum WrittenKind {
    Sfnt,
    SfntNoCmap,
    BareCff,
    Whole,
    Instance,
}

pub struct Written {
    pub bytes: Vec<u8>,
    pub kind: WrittenKind,
    pub glyphs: Option<usize>,
    /// For subsets of a damaged source: whether the source outline of `ids[k]` could be
    /// visited. A retained glyph that was readable in the source must be readable in the output.
    pub source_ok: Option<Vec<bool>>,
    /// Likewise for `Font::horizontal_advance` of the source glyph that output glyph k stems from.
    pub source_advance: Option<Vec<bool>>,
}

/// C02: attachments refer to glyphs inside the run.
fn check_run(infos: &[Info]) -> Result<(), String> {
    let n = infos.len();
    for (k, info) in infos.iter().enumerate() {
        let idx = match info.placement {
            Placement::MarkAnchor(i, _, _) => Some(i),
            Placement::MarkOverprint(i) => Some(i),
            Placement::CursiveAnchor(i, _, _, _) => Some(i),
            _ => None,
        };
        if let Some(i) = idx {
            if i >= n {
                return Err(format!(
                    "glyph {} of {} attaches to index {} outside the run",
                    k, n, i
                ));
            }
        }
    }
    Ok(())
}

// ---------------------------------------------------------------------------------------

pub struct Corpus {
    root: String,
    cache: BTreeMap<String, Rc<Vec<u8>>>,
}

impl Corpus {
    pub fn new(root: &str) -> Corpus {
        Corpus {
            root: root.to_string(),
            cache: BTreeMap::new(),
        }
    }
    pub fn root(&self) -> &str {
        &self.root
    }
    pub fn get(&mut self, rel: &str) -> Result<Rc<Vec<u8>>, String> {
        if let Some(d) = self.cache.get(rel) {
            return Ok(d.clone());
        }
        let path = if rel.starts_with('/') {
            rel.to_string()
        } else {
            format!("{}/{}", self.root, rel)
        };
        let d = Rc::new(std::fs::read(&path).map_err(|e| format!("read {}: {}", path, e))?);
        self.cache.insert(rel.to_string(), d.clone());
        Ok(d)
    }
}

/// Disk model of a corpus file (any container), un-faulted. WOFF/WOFF2 go through allsorts'
/// own providers once (stated in DESIGN.md as part of the trusted base for those fixtures).
pub fn pristine_disk(data: &[u8], index: usize) -> Result<Disk, String> {
    let magic = data
        .get(0..4)
        .map(|b| u32::from_be_bytes([b[0], b[1], b[2], b[3]]))
        .ok_or("short")?;
    if magic == disk::WOFF || magic == disk::WOF2 {
        use allsorts::tables::SfntVersion;
        // The harness relies on the library to unpack WOFF / WOFF2 containers of the corpus. On
        // a thread of its own: whatever per-thread state a (seeded) change of the library keeps
        // must not leak from the operations of an earlier run into the preparation of this one.
        let unpacked: Result<(u32, Vec<(u32, Vec<u8>)>), String> = std::thread::scope(|sc| {
            std::thread::Builder::new()
                .stack_size(8 << 20)
                .spawn_scoped(sc, || {
                    let fd = ReadScope::new(data)
                        .read::<FontData<'_>>()
                        .map_err(|e| format!("{:?}", e))?;
                    let p = fd.table_provider(index).map_err(|e| format!("{:?}", e))?;
                    let mut tables = Vec::new();
                    for t in p.table_tags().unwrap_or_default() {
                        if let Ok(Some(d)) = p.table_data(t) {
                            tables.push((t, d.into_owned()));
                        }
                    }
                    Ok((p.sfnt_version(), tables))
                })
                .map_err(|e| format!("spawn: {}", e))?
                .join()
                .map_err(|_| "unpacking thread panicked".to_string())?
        });
        let (flavour, list) = unpacked?;
        let mut tables = BTreeMap::new();
        for (t, d) in list {
            tables.insert(t, Rc::new(d));
        }
        Ok(Disk {
            flavour,
            tables,
            errs: BTreeMap::new(),
        })
    } else {
        disk::split_sfnt(data, index)
    }
}

/// The disk model served as a WOFF2 file (null transforms, or the transform-capable encoder).
pub fn build_wrapped(d: &Disk, trace: &Trace) -> Vec<u8> {
    match &trace.wrap_opts {
        Some(o) => {
            let tables: Vec<(u32, Vec<u8>)> = d.tables.iter().map(|(t, v)| (*t, (**v).clone())).collect();
            let opts = crate::woff2_build::Woff2Options {
                transform_glyf: o.transform_glyf,
                transform_hmtx: o.transform_hmtx,
                variant: o.variant,
                avoid: o.avoid,
            };
            crate::woff2_build::build_woff2(&tables, d.flavour, &opts).unwrap_or_else(|| disk::build_woff2(d))
        }
        None => disk::build_woff2(d),
    }
}

pub struct Prepared {
    pub disk: Option<Disk>,
    pub image: Vec<u8>,
    pub applied: Vec<bool>,
    pub font_len: usize,
}

/// Build the (faulted) storage for a trace.
pub fn prepare(trace: &Trace, corpus: &mut Corpus) -> Result<Prepared, String> {
    let file = corpus.get(&trace.font)?;
    match trace.mode {
        Mode::Provider => {
            let mut d = pristine_disk(&file, trace.font_index)?;
            for s in &trace.surgery {
                surgery::apply(&mut d, s)?;
            }
            let applied = disk::apply_to_disk(&mut d, &trace.faults);
            let font_len = d.tables.values().map(|t| t.len()).sum::<usize>();
            Ok(Prepared {
                disk: Some(d),
                image: Vec::new(),
                applied,
                font_len,
            })
        }
        Mode::Image if trace.wrap_woff2 => {
            let mut d = pristine_disk(&file, trace.font_index)?;
            for s in &trace.surgery {
                surgery::apply(&mut d, s)?;
            }
            let mut applied = disk::apply_to_disk(&mut d, &trace.faults);
            let mut image = build_wrapped(&d, trace);
            // faults inside the (transformed) table data block and at file level
            if trace.rewrap_woff2 {
                let faults = &trace.faults;
                let mut inner_applied = vec![false; faults.len()];
                image = disk::woff2_rewrap_tail(&image, trace.woff2_tail_blocks, |raw| {
                    for (i, f) in faults.iter().enumerate() {
                        if f.targets().first().map(|t| t == "inner").unwrap_or(false) {
                            inner_applied[i] = disk::apply_bytes(raw, f);
                        }
                    }
                })
                .ok_or("woff2 rewrap of the wrapped font failed")?;
                if trace.woff2_tail_claimed && trace.woff2_tail_blocks > 0 {
                    if let Some(f) = disk::woff2_claim_more(&image, trace.woff2_tail_blocks.saturating_mul(1 << 24)) {
                        image = f;
                    }
                }
                disk::woff2_attach_meta(&mut image, trace.woff2_meta_blocks);
                for (i, a) in inner_applied.iter().enumerate() {
                    applied[i] |= *a;
                }
            }
            for (i, f) in trace.faults.iter().enumerate() {
                if f.targets().first().map(|t| t == "file").unwrap_or(false) {
                    applied[i] |= disk::apply_bytes(&mut image, f);
                }
            }
            let font_len = image.len();
            Ok(Prepared {
                disk: None,
                image,
                applied,
                font_len,
            })
        }
        Mode::Image => {
            let mut image: Vec<u8>;
            let mut applied = vec![false; trace.faults.len()];
            if !trace.surgery.is_empty() {
                let mut d = pristine_disk(&file, trace.font_index)?;
                for s in &trace.surgery {
                    surgery::apply(&mut d, s)?;
                }
                image = disk::build_sfnt(&d);
            } else {
                image = (*file).clone();
            }
            if trace.rewrap_woff2 {
                let faults = &trace.faults;
                let mut inner_applied = vec![false; faults.len()];
                image = disk::woff2_rewrap_tail(&image, trace.woff2_tail_blocks, |raw| {
                    for (i, f) in faults.iter().enumerate() {
                        if f.targets().first().map(|t| t == "inner").unwrap_or(false) {
                            inner_applied[i] = disk::apply_bytes(raw, f);
                        }
                    }
                })
                .ok_or("woff2 rewrap failed")?;
                if trace.woff2_tail_claimed && trace.woff2_tail_blocks > 0 {
                    if let Some(f) = disk::woff2_claim_more(&image, trace.woff2_tail_blocks.saturating_mul(1 << 24)) {
                        image = f;
                    }
                }
                disk::woff2_attach_meta(&mut image, trace.woff2_meta_blocks);
                for (i, a) in inner_applied.iter().enumerate() {
                    applied[i] |= *a;
                }
            }
            for (i, f) in trace.faults.iter().enumerate() {
                if f.targets().first().map(|t| t == "file").unwrap_or(false) {
                    applied[i] |= disk::apply_bytes(&mut image, f);
                }
            }
            let font_len = image.len();
            Ok(Prepared {
                disk: None,
                image,
                applied,
                font_len,
            })
        }
    }
}

pub struct ExecOpts {
    pub verbose: bool,
    pub status: Option<std::fs::File>,
    pub run_index: u64,
}

pub fn write_status(opts: &mut ExecOpts, op_index: i64) {
    use std::io::{Seek, SeekFrom, Write};
    if let Some(f) = opts.status.as_mut() {
        let line = format!("{:>20} {:>6}\n", opts.run_index, op_index);
        let _ = f.seek(SeekFrom::Start(0));
        let _ = f.write_all(line.as_bytes());
    }
}

fn owner_of(op: &Op) -> &'static str {
    if op.is_shaping() {
        "C02"
    } else {
        "C01"
    }
}

fn panic_violation(p: &PanicRec, op: &Op, i: usize) -> Violation {
    Violation {
        property: owner_of(op).to_string(),
        kind: p.kind().to_string(),
        site: format!("{}:{}", p.rel_file(), p.line),
        msg: p.msg.chars().take(300).collect(),
        op_index: i,
        op_kind: op.kind().to_string(),
        overflow_profile: p.msg.starts_with("attempt to ") && p.msg.contains("overflow"),
    }
}

/// Execute a trace. Never panics; harness problems are reported in `harness_error`.
/// Stack of the thread the operations run on when the trace asks for a small one: what a
/// secondary thread gets by default on macOS (Rust spawns with 2 MiB, musl with 128 KiB). The
/// unchanged tree was also run with 192 KiB on 40 % of the runs without a single overflow.
pub const SMALL_STACK: usize = 512 << 10;

pub fn run_trace(
    trace: &Trace,
    corpus: &mut Corpus,
    opts: &mut ExecOpts,
    stats: &mut Stats,
) -> RunReport {
    if !trace.small_stack {
        return run_trace_impl(trace, corpus, opts, stats);
    }
    // The harness' data is full of `Rc`s; the spawning thread does nothing but wait for the
    // scoped thread, so handing them over for the duration is sound.
    struct AssertSend<T>(T);
    unsafe impl<T> Send for AssertSend<T> {}
    impl<T> AssertSend<T> {
        fn take(self) -> T {
            self.0
        }
    }
    stats.bump("runs.small_stack");
    let args = AssertSend((trace, corpus, opts, stats));
    let joined = std::thread::scope(|sc| {
        std::thread::Builder::new()
            .name("sim-small-stack".into())
            .stack_size(SMALL_STACK)
            .spawn_scoped(sc, move || {
                let (t, c, o, s) = args.take();
                AssertSend(run_trace_impl(t, c, o, s))
            })
            .expect("spawn small-stack thread")
            .join()
    });
    match joined {
        Ok(r) => r.take(),
        Err(_) => RunReport {
            digest: 0,
            events: Vec::new(),
            violations: Vec::new(),
            foreign: Vec::new(),
            harness_error: Some("small-stack thread panicked outside an op".into()),
        },
    }
}

fn run_trace_impl(
    trace: &Trace,
    corpus: &mut Corpus,
    opts: &mut ExecOpts,
    stats: &mut Stats,
) -> RunReport {
    let mut report = RunReport {
        digest: 0,
        events: Vec::new(),
        violations: Vec::new(),
        foreign: Vec::new(),
        harness_error: None,
    };
    write_status(opts, -1);
    let prepared = match prepare(trace, corpus) {
        Ok(p) => p,
        Err(e) => {
            report.harness_error = Some(format!("prepare: {}", e));
            return report;
        }
    };
    // Dropping an optional table leaves a well-formed font: such runs count as fault-free for the
    // oracles that are restricted to well-formed sources.
    const OPTIONAL: &[&str] = &[
        "HVAR", "MVAR", "avar", "STAT", "cvar", "GDEF", "GPOS", "GSUB", "kern", "gasp", "DSIG", "hdmx",
        "VDMX", "LTSH", "prep", "fpgm", "cvt ", "vhea", "vmtx", "VORG", "BASE", "JSTF", "MATH", "meta",
        "morx", "SVG ", "sbix", "CBLC", "CBDT", "EBLC", "EBDT", "COLR", "CPAL", "VVAR",
    ];
    let fault_free = trace.faults.iter().all(|f| match f {
        // vhea/vmtx, CBLC/CBDT, EBLC/EBDT only as pairs would be cleaner; a lone half is still a
        // font every reader must accept as "table absent"
        Fault::DropTable { tag } => OPTIONAL.contains(&tag.as_str()),
        _ => false,
    });
    let sim = prepared.disk.clone().map(SimProvider::new);
    let mut decoys = BTreeMap::new();
    for op in &trace.ops {
        if let Op::Decoy { font, .. } = op {
            if let Ok(d) = corpus.get(font) {
                decoys.insert(font.clone(), d);
            }
        }
    }
    let env = Env {
        decoys,
        mode: trace.mode.clone(),
        sim: sim.clone(),
        image: &prepared.image,
        index: trace.font_index,
        font_len: prepared.font_len,
        fault_free,
    };
    let prop = trace.property.as_str();
    let mut digest = Fnv::new();
    let mut world = World::new(&env);
    world.want_source_ok = prop == "C09" && !fault_free;
    alloc::reset_window();
    let live_before = alloc::live();

    stats.bump("runs");
    stats.bump(if fault_free {
        "runs.fault_free"
    } else {
        "runs.faulted"
    });
    if trace.woff2_tail_blocks > 0 {
        stats.bump("crafted.woff2.runLengthTail");
    }
    if trace.woff2_meta_blocks > 0 {
        stats.bump("crafted.woff2.runLengthMetadata");
    }
    for sgy in &trace.surgery {
        // serde tag of the variant ("kind": "...")
        if let Ok(serde_json::Value::Object(m)) = serde_json::to_value(sgy) {
            if let Some(k) = m.get("kind").and_then(|k| k.as_str()) {
                stats.bump(&format!("surgery.{}", k));
            }
        }
    }
    for (f, a) in trace.faults.iter().zip(&prepared.applied) {
        stats.bump(&format!("fault.scheduled.{}", f.kind()));
        if *a {
            stats.bump(&format!("fault.applied.{}", f.kind()));
            // reach probe per crafted block family ("#g<id>" / "@off" suffixes removed)
            if let crate::trace::Fault::Write { field, .. } = f {
                if !field.is_empty() {
                    let fam = field.split(|c| c == '#' || c == '@').next().unwrap_or("");
                    stats.bump(&format!("crafted.{}", fam));
                }
            }
        }
    }

    // C03 state measure: the set of "cache-filling atoms" issued so far on the long-lived
    // client (op kinds; for layout ops the (script, language, features, tuple?) key; the image
    // filter). Its hash is the state signature; evidence counts distinct signatures and
    // distinct <signature, op kind, signature'> transitions.
    let mut atoms: BTreeSet<String> = BTreeSet::new();
    let mut state_sig: u64 = 0;
    // ops still to be repeated on a fresh thread after the last decoy (the decoy itself + 2)
    let mut decoy_budget = 0u32;
    for (i, op) in trace.ops.iter().enumerate() {
        write_status(opts, i as i64);
        if prop == "C03" {
            let atom = match op {
                Op::Shape {
                    script,
                    lang,
                    feat,
                    tuple,
                    ..
                } => format!(
                    "Shape:{}:{:?}:{:016x}:{}",
                    script,
                    lang,
                    fnv64(format!("{:?}", feat).as_bytes()),
                    tuple.as_ref().map_or(0, |t| 1 + t.iter().filter(|v| **v != 0).count())
                ),
                Op::FeaturesSupported { script, lang, .. } => format!("Feat:{}:{:?}", script, lang),
                Op::LookupGlyph { ch, required, vs } if *ch == 0x25CC => format!("Dotted:{}:{}", required, vs),
                Op::SetImageFilter { flags } => format!("Filter:{}", flags),
                Op::FontQuery { what } => format!("Query:{}", what),
                other => other.kind().to_string(),
            };
            atoms.insert(atom);
            let mut h = Fnv::new();
            for a in &atoms {
                h.write(a.as_bytes());
                h.write(b"|");
            }
            let next = h.finish();
            stats.note("c03.states", format!("{:016x}", next));
            stats.note(
                "c03.transitions",
                format!("{:016x}>{}>{:016x}", state_sig, op.kind(), next),
            );
            state_sig = next;
        }
        // (a sweep is `count` operations in one: each gets the allowance of one)
        let sweep = match op {
            Op::ShapeSweep { count, .. } => u64::from(*count).max(1),
            _ => 1,
        };
        let limit = (STEP_BASE + STEP_PER_BYTE * (env.font_len as u64 + op.arg_len() as u64)).saturating_mul(sweep);
        allsorts::verif::reset();
        allsorts::verif::set_step_limit(limit);
        crate::util::reset_ticks(limit);
        let mut extra = Extra::default();
        let cpu0 = crate::util::thread_cpu_us();
        let result = guard(|| world.exec(op, &mut extra));
        let cpu_us = crate::util::thread_cpu_us().saturating_sub(cpu0);
        let steps = allsorts::verif::steps();
        let rejections = allsorts::verif::eof_rejections();
        allsorts::verif::set_step_limit(u64::MAX);
        let steps = steps + crate::util::ticks();
        crate::util::reset_ticks(u64::MAX);
        stats.add("steps", steps);
        stats.add("eof_rejections", rejections);
        stats.bump(&format!("op.{}", op.kind()));
        if fault_free {
            stats.max(&format!("fault_free_max_steps.{}", op.kind()), steps);
            stats.max(&format!("fault_free_max_cpu_us.{}", op.kind()), cpu_us);
        }
        stats.max("max_cpu_us", cpu_us);
        let (class, canon) = match &result {
            Ok(out) => (out.class.clone(), out.canon.clone()),
            Err(p) => (
                format!("panic@{}:{}", p.rel_file(), p.line),
                p.msg_class(),
            ),
        };
        stats.bump(&format!("outcome.{}.{}", op.kind(), class_bucket(&class)));
        let fault_desc = if fault_free {
            "none".to_string()
        } else {
            trace
                .faults
                .iter()
                .map(|f| format!("{}:{}", f.kind(), f.targets().join("+")))
                .collect::<Vec<_>>()
                .join(",")
        };
        if trace.faults.len() <= 1 {
            stats.note(
                "tuples",
                format!("{}|{}|{}", op.kind(), fault_desc, class_bucket(&class)),
            );
        }
        let res_digest = fnv64(canon.as_bytes());
        let line = format!(
            "{} {} {:016x} {} {:016x}",
            i,
            op.kind(),
            fnv64(format!("{:?}", op).as_bytes()),
            class,
            res_digest
        );
        digest.write(line.as_bytes());
        if opts.verbose {
            report.events.push(format!(
                "{} steps={} canon={}",
                line,
                steps,
                canon.chars().take(400).collect::<String>()
            ));
        }

        // ---- oracle 1 (C01/C02/C14): the op returned
        let mut stop = false;
        if let Err(p) = &result {
            let v = panic_violation(p, op, i);
            let mine = match prop {
                "C01" => v.property == "C01",
                "C02" => v.property == "C02",
                "C14" => v.kind == "oob",
                _ => false,
            };
            let mut v = v;
            if prop == "C14" && v.kind == "oob" {
                v.property = "C14".into();
            }
            if mine {
                report.violations.push(v);
            } else {
                report.foreign.push(v);
            }
            stop = true;
        }

        // ---- oracle 1a (C01/C02): a request that breaks the heap budget, survived because the
        // allocation was fallible (the library returned an error after asking for the memory)
        let refused = alloc::refused();
        if result.is_ok() && refused != 0 && !stop {
            let v = Violation {
                property: owner_of(op).to_string(),
                kind: "alloc".into(),
                site: format!("alloc-budget:{}", op.kind()),
                msg: format!(
                    "allocation request of {} bytes breaks the {} MiB budget (fallible allocation: the op went on to return)",
                    refused,
                    HEAP_BUDGET >> 20
                ),
                op_index: i,
                op_kind: op.kind().into(),
                overflow_profile: false,
            };
            if v.property == prop {
                report.violations.push(v);
            } else {
                report.foreign.push(v);
            }
            stop = true;
        }

        // ---- oracle 1b (C01/C02): CPU time out of proportion (compute-only loops)
        // Shaping is quadratic in the length of the glyph run by design (element-wise insertion,
        // backward search for the base of every mark): the allowance is 0.1 us per pair of
        // glyphs of the returned run (a run the library lets grow without bound still ends in
        // the heap budget or the watchdog).
        let run_len = extra.shape.as_ref().map(|sf| sf.len_shaped as u64).unwrap_or(0);
        let cpu_limit = (CPU_BASE_US + CPU_PER_BYTE_US * (env.font_len as u64 + op.arg_len() as u64)).saturating_mul(1 + sweep / 100)
            + run_len.saturating_mul(run_len) / 10;
        if result.is_ok() && cpu_us > cpu_limit && !stop {
            let v = Violation {
                property: owner_of(op).to_string(),
                kind: "cpu".into(),
                site: format!("cpu-budget:{}", op.kind()),
                msg: format!(
                    "op used {} ms of CPU time on a {} byte font (budget {} ms) without exhausting the step budget",
                    cpu_us / 1000,
                    env.font_len,
                    cpu_limit / 1000
                ),
                op_index: i,
                op_kind: op.kind().into(),
                overflow_profile: false,
            };
            if v.property == prop || (prop == "C14" && false) {
                report.violations.push(v);
            } else {
                report.foreign.push(v);
            }
            stop = true;
        }

        // ---- oracle C02: run well-formedness
        if let (Ok(_), Some(sf)) = (&result, extra.shape.as_ref()) {
            let mut problems: Vec<(String, String)> = Vec::new();
            if let Err(e) = &sf.check {
                problems.push(("attachment-index".into(), e.clone()));
            }
            for c in &sf.unicodes {
                if !sf.submitted.contains(c) && *c != '\u{25CC}' {
                    problems.push((
                        "foreign-character".into(),
                        format!("U+{:04X} in shaped run was not submitted", *c as u32),
                    ));
                    break;
                }
            }
            if fault_free && sf.ok && sf.inputs_in_range {
                if let Some(m) = sf.max_gid {
                    if m >= sf.num_glyphs {
                        problems.push((
                            "glyph-id-range".into(),
                            format!("glyph id {} >= num_glyphs {}", m, sf.num_glyphs),
                        ));
                    }
                }
            }
            // NOT asserted: "an error comes with a non-empty run". Shaping legitimately removes
            // default-ignorable glyphs (a lone ZWNJ leaves an empty run), so an empty run next
            // to an error is not by itself wrong (tried, alarmed on the unchanged tree, removed).
            if !sf.ok && sf.submitted_len > 0 && sf.len_shaped == 0 {
                stats.bump("probe.err_with_empty_run");
            }
            if let Some(pl) = sf.pos_len {
                if pl != sf.len {
                    problems.push((
                        "positions-length".into(),
                        format!("{} positions for {} glyphs", pl, sf.len),
                    ));
                }
            }
            stats.bump(if sf.ok { "shape.ok" } else { "shape.err_with_run" });
            if sf.tuple_used {
                stats.bump("shape.with_tuple");
            }
            if sf.unicodes.contains(&'\u{25CC}') && !sf.submitted.contains(&'\u{25CC}') {
                stats.bump("probe.dotted_circle_inserted");
            }
            for (name, msg) in problems {
                let v = Violation {
                    property: "C02".into(),
                    kind: "oracle".into(),
                    site: name,
                    msg,
                    op_index: i,
                    op_kind: op.kind().into(),
                    overflow_profile: false,
                };
                if prop == "C02" {
                    report.violations.push(v);
                } else {
                    report.foreign.push(v);
                }
                stop = true;
            }
        }

        // ---- oracle C09: every Ok output of a writer is a valid sfnt
        if prop == "C09" {
            if let (Ok(_), Some(w)) = (&result, extra.written.as_ref()) {
                stats.bump("c09.validated");
                stats.bump(&format!(
                    "c09.validated.{}.{:?}",
                    if fault_free { "fault_free" } else { "faulted" },
                    w.kind
                ));
                let source_loadable = fault_free
                    || guard(|| match env.provider() {
                        Ok(p) => Font::new(p).is_ok(),
                        Err(_) => false,
                    })
                    .unwrap_or(false);
                let checked = guard(|| sfnt_check::validate(w, fault_free, source_loadable));
                let problems = match checked {
                    Ok(p) => p,
                    Err(p) => {
                        if fault_free {
                            vec![(
                                "self-load-panic".to_string(),
                                format!("{}:{} {}", p.rel_file(), p.line, p.msg_class()),
                            )]
                        } else {
                            // A panic while reading back the output of a damaged source is
                            // C01's (reader robustness), not the writer's.
                            let mut v = panic_violation(&p, &Op::FontNew, i);
                            v.op_kind = format!("self-load:{}", op.kind());
                            report.foreign.push(v);
                            Vec::new()
                        }
                    }
                };
                for (name, msg) in problems {
                    report.violations.push(Violation {
                        property: "C09".into(),
                        kind: "oracle".into(),
                        site: name,
                        msg,
                        op_index: i,
                        op_kind: op.kind().into(),
                        overflow_profile: false,
                    });
                    stop = true;
                }
            }
        }

        // ---- oracle C09 (tables reconstructed from WOFF2): mutually consistent and loadable.
        // Only for pristine WOFF2 files: the relations are between tables the decoder rebuilds
        // (glyf, loca, hmtx) and tables it passes through from a well-formed source.
        if prop == "C09" && fault_free && trace.mode == Mode::Image && (trace.font.ends_with(".woff2") || trace.wrap_woff2) {
            if let (Ok(_), Some(tables)) = (&result, extra.recon.as_ref()) {
                stats.bump("c09.validated.reconstructed");
                // known-tag indices: 3 = hmtx, 10 = glyf
                let layout = disk::woff2_layout(&prepared.image);
                let all_transformed = |idx: u8, tag: u32| {
                    layout.as_ref().map_or(false, |l| {
                        let mut any = false;
                        for e in l.entries.iter().filter(|e| e.0 == idx || (e.0 == 0x3f && e.1 == tag)) {
                            any = true;
                            if !e.4 {
                                return false;
                            }
                        }
                        any
                    })
                };
                let rel = sfnt_check::Relations {
                    hmtx: all_transformed(3, tag::HMTX),
                    loca_glyf: all_transformed(10, tag::GLYF),
                    passthrough: false,
                };
                if rel.hmtx {
                    stats.bump("c09.reconstructed.hmtx_rebuilt");
                }
                if rel.loca_glyf {
                    stats.bump("c09.reconstructed.glyf_rebuilt");
                }
                let checked = guard(|| {
                    let mut problems = sfnt_check::validate_reconstructed(tables, rel);
                    if problems.is_empty() {
                        if let Ok(p) = env.provider() {
                            sfnt_check::self_load_provider(p, &mut problems);
                        }
                    }
                    problems
                });
                let problems = match checked {
                    Ok(p) => p,
                    Err(p) => vec![(
                        "self-load-panic".to_string(),
                        format!("{}:{} {}", p.rel_file(), p.line, p.msg_class()),
                    )],
                };
                for (name, msg) in problems {
                    report.violations.push(Violation {
                        property: "C09".into(),
                        kind: "oracle".into(),
                        site: format!("woff2:{}", name),
                        msg,
                        op_index: i,
                        op_kind: op.kind().into(),
                        overflow_profile: false,
                    });
                    stop = true;
                }
            }
        }

        // ---- oracle C03: same result as on a fresh world
        if prop == "C03" && !matches!(op, Op::FontNew | Op::SetImageFilter { .. }) {
            let cfg = world.config();
            let reference = guard(|| {
                let mut fresh = World::with_config(&env, cfg);
                let mut e2 = Extra::default();
                fresh.exec(op, &mut e2)
            });
            let (rclass, rcanon) = match &reference {
                Ok(out) => (out.class.clone(), out.canon.clone()),
                Err(p) => (
                    format!("panic@{}:{}", p.rel_file(), p.line),
                    p.msg_class(),
                ),
            };
            stats.bump("c03.compared");
            if i > 0 {
                stats.bump("c03.compared_warm");
            }
            if rclass != class || rcanon != canon {
                report.violations.push(Violation {
                    property: "C03".into(),
                    kind: "oracle".into(),
                    site: format!("history-dependence:{}", op.kind()),
                    msg: format!(
                        "op {} on the long-lived font gave [{}] {} but a fresh font gives [{}] {}",
                        i,
                        class,
                        canon.chars().take(160).collect::<String>(),
                        rclass,
                        rcanon.chars().take(160).collect::<String>()
                    ),
                    op_index: i,
                    op_kind: op.kind().into(),
                    overflow_profile: false,
                });
                stop = true;
            }
        }

        // ---- oracle C03 (pure operations): byte-identical on every run. The op is repeated
        // on freshly spawned threads (std's RandomState draws new keys per thread, so any
        // dependence on HashMap iteration order shows up as differing output).
        if matches!(op, Op::Decoy { .. }) {
            decoy_budget = 2;
        }
        let decoy_seen = decoy_budget > 0;
        decoy_budget = decoy_budget.saturating_sub(1);
        // After a decoy every op is repeated this way: the same-thread reference above shares any
        // thread-wide state with the long-lived client, a fresh thread does not.
        if prop == "C03"
            && !stop
            && !matches!(op, Op::FontNew | Op::SetImageFilter { .. })
            && (op.is_writer() || matches!(op, Op::Load { .. } | Op::Decoy { .. }) || decoy_seen)
        {
            let cfg_now = world.config();
            if let Ok(main_out) = &result {
                let reps = if op.is_writer() || matches!(op, Op::Load { .. } | Op::Decoy { .. }) { 2 } else { 1 };
                for rep in 0..reps {
                    let t2 = trace.clone();
                    let op2 = op.clone();
                    let root = corpus.root().to_string();
                    let handle = std::thread::Builder::new()
                        .stack_size(8 << 20)
                        .spawn(move || {
                            crate::util::install_hook();
                            guard(|| {
                                let mut c2 = Corpus::new(&root);
                                let prepared = prepare(&t2, &mut c2).map_err(|e| e)?;
                                let sim = prepared.disk.clone().map(SimProvider::new);
                                let mut decoys = BTreeMap::new();
                                if let Op::Decoy { font, .. } = &op2 {
                                    if let Ok(d) = c2.get(font) {
                                        decoys.insert(font.clone(), d);
                                    }
                                }
                                let env = Env {
                                    decoys,
                                    mode: t2.mode.clone(),
                                    sim,
                                    image: &prepared.image,
                                    index: t2.font_index,
                                    font_len: prepared.font_len,
                                    fault_free: t2.faults.is_empty(),
                                };
                                let mut w = World::with_config(&env, cfg_now);
                                let mut e = Extra::default();
                                let out = w.exec(&op2, &mut e);
                                Ok::<(String, String), String>((out.class, out.canon))
                            })
                        });
                    let repeated = match handle.map(|h| h.join()) {
                        Ok(Ok(Ok(Ok(r)))) => Some(r),
                        _ => None,
                    };
                    stats.bump("c03.pure_repeats");
                    match repeated {
                        Some((c2, k2)) => {
                            if c2 != main_out.class || k2 != main_out.canon {
                                report.violations.push(Violation {
                                    property: "C03".into(),
                                    kind: "oracle".into(),
                                    site: format!("pure-op-not-reproducible:{}", op.kind()),
                                    msg: format!(
                                        "repetition {} of op {} on a fresh thread gave [{}] {} instead of [{}] {}",
                                        rep,
                                        i,
                                        c2,
                                        k2.chars().take(120).collect::<String>(),
                                        main_out.class,
                                        main_out.canon.chars().take(120).collect::<String>()
                                    ),
                                    op_index: i,
                                    op_kind: op.kind().into(),
                                    overflow_profile: false,
                                });
                                stop = true;
                                break;
                            }
                        }
                        None => {
                            // the repetition panicked or could not be set up although the
                            // original succeeded: also a reproducibility failure
                            report.violations.push(Violation {
                                property: "C03".into(),
                                kind: "oracle".into(),
                                site: format!("pure-op-not-reproducible:{}", op.kind()),
                                msg: format!("repetition {} of op {} failed to run", rep, i),
                                op_index: i,
                                op_kind: op.kind().into(),
                                overflow_profile: false,
                            });
                            stop = true;
                            break;
                        }
                    }
                }
            }
        }

        stats.max("peak_heap", alloc::peak().saturating_sub(live_before) as u64);
        stats.max("largest_alloc", alloc::largest() as u64);
        if fault_free {
            stats.max(
                "fault_free_peak_heap",
                alloc::peak().saturating_sub(live_before) as u64,
            );
        }
        if stop {
            break;
        }
    }

    // Which faults were actually consumed by the library (Provider mode).
    if let Some(sim) = &sim {
        for (f, a) in trace.faults.iter().zip(&prepared.applied) {
            if *a
                && f.targets()
                    .iter()
                    .any(|t| sim.fetched(tag_from_str(t)) > 0)
            {
                stats.bump(&format!("fault.fired.{}", f.kind()));
            }
        }
    } else {
        for (f, a) in trace.faults.iter().zip(&prepared.applied) {
            if *a {
                stats.bump(&format!("fault.fired.{}", f.kind()));
            }
        }
    }
    drop(world);
    report.digest = digest.finish();
    report
}

fn class_bucket(class: &str) -> String {
    if class.starts_with("panic@") {
        "panic".into()
    } else {
        class.chars().take(40).collect()
    }
}

#[allow(dead_code)]
fn unused(_: Cow<'_, str>, _: RawGlyph<()>, _: Surgery, _: Fault) {}

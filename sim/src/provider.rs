//! `SimProvider`: the simulator's implementation of allsorts' storage seam.
//! Deterministic per run: the answer for a tag never changes during a run.

use std::borrow::Cow;
use std::cell::RefCell;
use std::collections::BTreeMap;
use std::rc::Rc;

use allsorts::error::ParseError;
use allsorts::font_data::DynamicFontTableProvider;
use allsorts::tables::{FontTableProvider, SfntVersion};

use crate::disk::Disk;

pub struct ProvInner {
    pub disk: Disk,
    pub fetches: RefCell<BTreeMap<u32, u32>>,
}

#[derive(Clone)]
pub struct SimProvider {
    pub inner: Rc<ProvInner>,
}

pub fn parse_error_from_name(name: &str) -> ParseError {
    match name {
        "BadEof" => ParseError::BadEof,
        "BadValue" => ParseError::BadValue,
        "BadVersion" => ParseError::BadVersion,
        "BadOffset" => ParseError::BadOffset,
        "BadIndex" => ParseError::BadIndex,
        "LimitExceeded" => ParseError::LimitExceeded,
        "MissingValue" => ParseError::MissingValue,
        "NotImplemented" => ParseError::NotImplemented,
        _ => ParseError::CompressionError,
    }
}

impl SimProvider {
    pub fn new(disk: Disk) -> SimProvider {
        SimProvider {
            inner: Rc::new(ProvInner {
                disk,
                fetches: RefCell::new(BTreeMap::new()),
            }),
        }
    }

    pub fn fetched(&self, tag: u32) -> u32 {
        self.inner.fetches.borrow().get(&tag).copied().unwrap_or(0)
    }
}

impl FontTableProvider for SimProvider {
    fn table_data(&self, tag: u32) -> Result<Option<Cow<'_, [u8]>>, ParseError> {
        *self.inner.fetches.borrow_mut().entry(tag).or_insert(0) += 1;
        if let Some(err) = self.inner.disk.errs.get(&tag) {
            return Err(parse_error_from_name(err));
        }
        Ok(self
            .inner
            .disk
            .tables
            .get(&tag)
            .map(|v| Cow::Borrowed(&v[..])))
    }

    fn has_table(&self, tag: u32) -> bool {
        self.inner.disk.tables.contains_key(&tag)
    }

    fn table_tags(&self) -> Option<Vec<u32>> {
        Some(self.inner.disk.tables.keys().copied().collect())
    }
}

impl SfntVersion for SimProvider {
    fn sfnt_version(&self) -> u32 {
        self.inner.disk.flavour
    }
}

/// One provider type for the whole executor.
pub enum AnyProvider<'d> {
    Sim(SimProvider),
    Dyn(DynamicFontTableProvider<'d>),
}

impl<'d> FontTableProvider for AnyProvider<'d> {
    fn table_data(&self, tag: u32) -> Result<Option<Cow<'_, [u8]>>, ParseError> {
        match self {
            AnyProvider::Sim(p) => p.table_data(tag),
            AnyProvider::Dyn(p) => p.table_data(tag),
        }
    }
    fn has_table(&self, tag: u32) -> bool {
        match self {
            AnyProvider::Sim(p) => p.has_table(tag),
            AnyProvider::Dyn(p) => p.has_table(tag),
        }
    }
    fn table_tags(&self) -> Option<Vec<u32>> {
        match self {
            AnyProvider::Sim(p) => p.table_tags(),
            AnyProvider::Dyn(p) => p.table_tags(),
        }
    }
}

impl<'d> SfntVersion for AnyProvider<'d> {
    fn sfnt_version(&self) -> u32 {
        match self {
            AnyProvider::Sim(p) => p.sfnt_version(),
            AnyProvider::Dyn(p) => p.sfnt_version(),
        }
    }
}

//! The only source of randomness in the simulator: splitmix64 seeding + xoshiro256**.
//! Kept in-tree so that no crate or toolchain upgrade can change the streams.

#[derive(Clone)]
pub struct Rng {
    s: [u64; 4],
}

pub fn splitmix64(x: &mut u64) -> u64 {
    *x = x.wrapping_add(0x9E37_79B9_7F4A_7C15);
    let mut z = *x;
    z = (z ^ (z >> 30)).wrapping_mul(0xBF58_476D_1CE4_E5B9);
    z = (z ^ (z >> 27)).wrapping_mul(0x94D0_49BB_1331_11EB);
    z ^ (z >> 31)
}

/// Derive the seed of run `index` of campaign `prop` from the base seed.
pub fn run_seed(base: u64, prop: &str, index: u64) -> u64 {
    let mut x = base ^ 0xA076_1D64_78BD_642F;
    let mut h = splitmix64(&mut x);
    for b in prop.bytes() {
        x ^= u64::from(b).wrapping_mul(0x100_0000_01B3);
        h ^= splitmix64(&mut x);
    }
    x ^= index.wrapping_mul(0xE703_7ED1_A0B4_28DB);
    h ^ splitmix64(&mut x)
}

impl Rng {
    pub fn new(seed: u64) -> Rng {
        let mut x = seed;
        let s = [
            splitmix64(&mut x),
            splitmix64(&mut x),
            splitmix64(&mut x),
            splitmix64(&mut x),
        ];
        Rng { s }
    }

    pub fn next_u64(&mut self) -> u64 {
        let result = self.s[1].wrapping_mul(5).rotate_left(7).wrapping_mul(9);
        let t = self.s[1] << 17;
        self.s[2] ^= self.s[0];
        self.s[3] ^= self.s[1];
        self.s[1] ^= self.s[2];
        self.s[0] ^= self.s[3];
        self.s[2] ^= t;
        self.s[3] = self.s[3].rotate_left(45);
        result
    }

    /// Uniform in `0..n` (`n == 0` gives 0).
    pub fn below(&mut self, n: u64) -> u64 {
        if n == 0 {
            return 0;
        }
        // Multiply-shift; bias is irrelevant here.
        ((u128::from(self.next_u64()) * u128::from(n)) >> 64) as u64
    }

    pub fn usize_below(&mut self, n: usize) -> usize {
        self.below(n as u64) as usize
    }

    /// Inclusive range.
    pub fn range(&mut self, lo: u64, hi: u64) -> u64 {
        if hi <= lo {
            return lo;
        }
        lo + self.below(hi - lo + 1)
    }

    /// True with probability `pct` percent.
    pub fn pct(&mut self, pct: u64) -> bool {
        self.below(100) < pct
    }

    pub fn pick<'a, T>(&mut self, items: &'a [T]) -> &'a T {
        &items[self.usize_below(items.len())]
    }

    /// Index chosen with probability proportional to `weights[i]`.
    pub fn weighted(&mut self, weights: &[u32]) -> usize {
        let total: u64 = weights.iter().map(|&w| u64::from(w)).sum();
        if total == 0 {
            return 0;
        }
        let mut r = self.below(total);
        for (i, &w) in weights.iter().enumerate() {
            if r < u64::from(w) {
                return i;
            }
            r -= u64::from(w);
        }
        weights.len() - 1
    }

    pub fn fork(&mut self) -> Rng {
        Rng::new(self.next_u64())
    }
}

/// FNV-1a 64 for digests.
#[derive(Clone, Copy)]
pub struct Fnv(pub u64);

impl Fnv {
    pub fn new() -> Fnv {
        Fnv(0xcbf2_9ce4_8422_2325)
    }
    pub fn write(&mut self, bytes: &[u8]) {
        for &b in bytes {
            self.0 ^= u64::from(b);
            self.0 = self.0.wrapping_mul(0x100_0000_01b3);
        }
    }
    pub fn write_u64(&mut self, v: u64) {
        self.write(&v.to_le_bytes());
    }
    pub fn finish(&self) -> u64 {
        self.0
    }
}

pub fn fnv64(bytes: &[u8]) -> u64 {
    let mut h = Fnv::new();
    h.write(bytes);
    h.finish()
}

//! Panic capture.

use std::cell::RefCell;
use std::panic::{self, AssertUnwindSafe};

#[derive(Clone, Debug)]
pub struct PanicRec {
    pub file: String,
    pub line: u32,
    pub msg: String,
}

thread_local! {
    static LAST: RefCell<Option<PanicRec>> = RefCell::new(None);
}

thread_local! {
    static CALLBACKS: std::cell::Cell<u64> = std::cell::Cell::new(0);
    static CALLBACK_LIMIT: std::cell::Cell<u64> = std::cell::Cell::new(u64::MAX);
}

/// The second half of the simulated clock: callbacks the library makes into the harness
/// (outline sink commands, `mappings_fn` closure calls). A loop that neither reads nor
/// allocates but keeps calling back is bounded by the same per-op budget as primitive reads.
pub fn tick() {
    let n = CALLBACKS.with(|c| {
        let n = c.get().wrapping_add(1);
        c.set(n);
        n
    });
    if n > CALLBACK_LIMIT.with(|c| c.get()) {
        CALLBACK_LIMIT.with(|c| c.set(u64::MAX));
        panic!("VERIF-STEP-BUDGET exceeded after {} callbacks into the caller", n);
    }
}

pub fn reset_ticks(limit: u64) {
    CALLBACKS.with(|c| c.set(0));
    CALLBACK_LIMIT.with(|c| c.set(limit));
}

pub fn ticks() -> u64 {
    CALLBACKS.with(|c| c.get())
}

/// CPU time consumed by the calling thread, in microseconds. Unlike wall-clock time it does not
/// depend on how busy the machine is, so it can serve as a (coarse) budget for loops that neither
/// read nor call back.
pub fn thread_cpu_us() -> u64 {
    let mut ts = libc::timespec {
        tv_sec: 0,
        tv_nsec: 0,
    };
    // SAFETY: plain syscall wrapper writing into a local struct
    let rc = unsafe { libc::clock_gettime(libc::CLOCK_THREAD_CPUTIME_ID, &mut ts) };
    if rc != 0 {
        return 0;
    }
    ts.tv_sec as u64 * 1_000_000 + ts.tv_nsec as u64 / 1000
}

pub static LAST_GLOBAL: std::sync::Mutex<Option<String>> = std::sync::Mutex::new(None);

pub fn install_hook() {
    panic::set_hook(Box::new(|info| {
        let (file, line) = info
            .location()
            .map(|l| (l.file().to_string(), l.line()))
            .unwrap_or_else(|| ("?".to_string(), 0));
        let msg = if let Some(s) = info.payload().downcast_ref::<&str>() {
            (*s).to_string()
        } else if let Some(s) = info.payload().downcast_ref::<String>() {
            s.clone()
        } else {
            "<non-string panic payload>".to_string()
        };
        if let Ok(mut g) = LAST_GLOBAL.try_lock() {
            *g = Some(format!("{}:{} {}", file, line, msg));
        }
        // Panics raised inside std/core or a dependency (e.g. `abs()` overflow, slice index
        // helpers without #[track_caller]) carry a location outside allsorts: find the
        // innermost allsorts frame so that the site identifies the library code at fault.
        let mut file = file;
        let mut line = line;
        // (the callback budget is raised by the harness' own `tick`: same treatment)
        if (!file.contains("/repo/src/") && !file.starts_with("src/")) || msg.starts_with("VERIF-STEP-BUDGET exceeded after") && file.ends_with("util.rs") {
            let bt = std::backtrace::Backtrace::force_capture().to_string();
            if std::env::var_os("VERIF_DEBUG_BT").is_some() {
                eprintln!("{}", bt);
            }
            let mut frame_fn: Option<String> = None;
            let mut located = false;
            let mut lines = bt.lines().peekable();
            // innermost allsorts frame that carries a source location (an inlined frame may
            // come without one: take the next one out)
            while let Some(l) = lines.next() {
                let t = l.trim();
                if let Some(pos) = t.find(": ") {
                    let name = &t[pos + 2..];
                    if name.starts_with("allsorts::") || name.starts_with("<allsorts::") {
                        if frame_fn.is_none() {
                            frame_fn = Some(name.to_string());
                        }
                        if let Some(next) = lines.peek() {
                            let n = next.trim();
                            if let Some(rest) = n.strip_prefix("at ") {
                                // "at /repo/src/x.rs:LINE:COL"
                                let mut parts = rest.rsplitn(3, ':');
                                let _col = parts.next();
                                let ln = parts.next().and_then(|x| x.parse::<u32>().ok());
                                let f = parts.next();
                                if let (Some(ln), Some(f)) = (ln, f) {
                                    if f.contains("/repo/src/") {
                                        file = f.to_string();
                                        line = ln;
                                        located = true;
                                    }
                                }
                                break;
                            }
                        }
                    }
                }
            }
            if !located {
                if let Some(f) = frame_fn {
                    file = format!("{}@{}", file, f);
                }
            }
        }
        LAST.with(|l| *l.borrow_mut() = Some(PanicRec { file, line, msg }));
    }));
}

/// Run `f`, turning an unwind into `Err(PanicRec)`.
pub fn guard<R>(f: impl FnOnce() -> R) -> Result<R, PanicRec> {
    LAST.with(|l| *l.borrow_mut() = None);
    match panic::catch_unwind(AssertUnwindSafe(f)) {
        Ok(r) => Ok(r),
        Err(_) => Err(LAST.with(|l| l.borrow_mut().take()).unwrap_or(PanicRec {
            file: "?".into(),
            line: 0,
            msg: "<panic without record>".into(),
        })),
    }
}

impl PanicRec {
    /// Strip the absolute prefix so that sites are stable across checkouts.
    pub fn rel_file(&self) -> String {
        let f = &self.file;
        if let Some(i) = f.find("/src/") {
            // /repo/src/x.rs -> src/x.rs ; registry crates keep crate dir name
            let head = &f[..i];
            let crate_dir = head.rsplit('/').next().unwrap_or("");
            if crate_dir == "repo" || head.ends_with("/repo") || head == "/repo" {
                return f[i + 1..].to_string();
            }
            return format!("{}{}", crate_dir, &f[i..]);
        }
        f.clone()
    }

    pub fn kind(&self) -> &'static str {
        if self.msg.starts_with("VERIF-OOB") {
            "oob"
        } else if self.msg.starts_with("VERIF-STEP-BUDGET") {
            "steps"
        } else {
            "panic"
        }
    }

    /// Coarse message class: digits removed, truncated.
    pub fn msg_class(&self) -> String {
        let mut out = String::new();
        let mut last_hash = false;
        for c in self.msg.chars() {
            if c.is_ascii_digit() {
                if !last_hash {
                    out.push('#');
                    last_hash = true;
                }
            } else {
                out.push(c);
                last_hash = false;
            }
            if out.len() >= 80 {
                break;
            }
        }
        out
    }
}

pub fn short_debug<T: std::fmt::Debug>(t: &T) -> String {
    let s = format!("{:?}", t);
    squash(s)
}

/// Keep canonical strings bounded: long ones are replaced by length + digest.
pub fn squash(s: String) -> String {
    if s.len() > 4096 {
        format!("<{} bytes fnv={:016x}>", s.len(), crate::rng::fnv64(s.as_bytes()))
    } else {
        s
    }
}

pub fn bytes_digest(b: &[u8]) -> String {
    format!("<{} bytes fnv={:016x}>", b.len(), crate::rng::fnv64(b))
}

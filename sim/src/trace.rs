//! The explicit trace: everything a run does, with literal arguments. This is also the replay
//! file format; executing a trace never consults the generator or the PRNG.

use serde::{Deserialize, Serialize};

#[derive(Serialize, Deserialize, Clone, Debug, PartialEq, Eq)]
pub enum Mode {
    /// Tables are served by the simulator's `SimProvider` from the (faulted) disk model.
    Provider,
    /// The (faulted) file image is parsed by `FontData::read` and served by allsorts' own
    /// OpenType / WOFF / WOFF2 providers.
    Image,
}

#[derive(Serialize, Deserialize, Clone, Debug)]
pub struct Trace {
    pub version: u32,
    /// Campaign the trace was generated for (selects which oracles are evaluated).
    pub property: String,
    pub seed: u64,
    pub run: u64,
    /// Font path relative to `/repo/tests`.
    pub font: String,
    /// Member index for collections (used by `table_provider(i)`).
    #[serde(default)]
    pub font_index: usize,
    pub mode: Mode,
    /// Image mode, WOFF2 only: inflate the brotli stream, apply `inner` faults, re-emit as
    /// stored meta-blocks.
    #[serde(default)]
    pub rewrap_woff2: bool,
    /// With `rewrap_woff2`: append this many run-length meta-blocks (16 MiB of zeros in 13 bytes
    /// each) to the re-emitted stream - a decompression bomb behind an honest table directory.
    #[serde(default, skip_serializing_if = "is_zero_u32")]
    pub woff2_tail_blocks: u32,
    /// With `woff2_tail_blocks`: the table directory claims the extra bytes for its last table
    /// (the stream is then exactly as long as the directory says, and only the plausibility of
    /// the claim stands between the file and the allocation).
    #[serde(default, skip_serializing_if = "std::ops::Not::not")]
    pub woff2_tail_claimed: bool,
    /// With `rewrap_woff2`: attach an extended-metadata block that consists of this many
    /// run-length meta-blocks (header metaOffset / metaLength / metaOrigLength set to match).
    #[serde(default, skip_serializing_if = "is_zero_u32")]
    pub woff2_meta_blocks: u32,
    /// Image mode, bare sfnt corpus fonts: the (surgered, table-faulted) disk model is wrapped as
    /// a WOFF2 file with null transforms and served by the real `Woff2TableProvider`.
    #[serde(default)]
    pub wrap_woff2: bool,
    /// With `wrap_woff2`: use the transform-capable encoder (sim/src/woff2_build.rs) with these
    /// options instead of null transforms.
    #[serde(default, skip_serializing_if = "Option::is_none")]
    pub wrap_opts: Option<WrapOpts>,
    /// Run the operations of this trace on a thread with a small stack (512 KiB, see
    /// `exec::SMALL_STACK`) instead of the simulator's usual 8 MiB.
    #[serde(default, skip_serializing_if = "std::ops::Not::not")]
    pub small_stack: bool,
    #[serde(default)]
    pub surgery: Vec<Surgery>,
    #[serde(default)]
    pub faults: Vec<Fault>,
    pub ops: Vec<Op>,
}

#[derive(Serialize, Deserialize, Clone, Debug)]
pub struct WrapOpts {
    pub transform_glyf: bool,
    pub transform_hmtx: bool,
    pub variant: u64,
    /// `woff2_build::AVOID_*` bit set
    pub avoid: u32,
}

/// Valid-by-construction edits of the disk model that give the corpus structures it lacks.
#[derive(Serialize, Deserialize, Clone, Debug)]
#[serde(tag = "kind")]
pub enum Surgery {
    /// Append a GSUB/GPOS version 1.1 FeatureVariations table: for axis 0 in
    /// [`min`, `max`] (F2Dot14 raw) feature `feature_index` gets `lookups` as its lookup list.
    /// Adds a one-axis `fvar` when the font has none.
    FeatureVariations {
        table: String,
        feature_index: u16,
        lookups: Vec<u16>,
        min: i16,
        max: i16,
        /// Axis index the condition names (0 unless stated): an index the font's `fvar` (and so
        /// every tuple built from it) does not have makes the tables disagree.
        #[serde(default, skip_serializing_if = "is_zero_u16")]
        axis: u16,
    },
    /// Like `FeatureVariations` but with several records (first matching condition wins), so that
    /// different tuples select different substitution tables.
    FeatureVariationsMulti {
        table: String,
        records: Vec<FvRecord>,
    },
    /// Install a synthesised, well-formed AAT `morx` table keyed on `glyphs` (sim/src/morx_build.rs)
    /// and remove `GSUB` (the library applies morx only when there is no GSUB).
    InstallMorx {
        glyphs: Vec<u16>,
        variant: u64,
        /// Some(h): one of the builder's special-case tables (valid per Apple's specification,
        /// constructs the default variants avoid; see builders/morx-NOTES.md) keyed on the first
        /// two glyphs.
        #[serde(default, skip_serializing_if = "Option::is_none")]
        hazard: Option<u32>,
    },
    /// Install a synthesised CBLC/CBDT (colour) or EBLC/EBDT pair (sim/src/bitmap_build.rs);
    /// `extended` also emits component formats 8/9 and raw BGRA images.
    InstallBitmaps {
        colour: bool,
        variant: u64,
        #[serde(default)]
        extended: bool,
    },
    /// Install a synthesised legacy `kern` table (1-3 subtables, formats 0 and 2, all coverage
    /// flag combinations) keyed on `glyphs`, and remove `GPOS` so that the kern fallback applies.
    /// No corpus font has a format 2 subtable.
    InstallKern { glyphs: Vec<u16>, variant: u64 },
    /// Rebuild a version 1.0 GSUB/GPOS so that every lookup becomes an Extension lookup pointing
    /// into one of two verbatim copies of the original table, placed so that the Coverage table
    /// of lookup `b`'s first subtable lies exactly 65536 bytes after that of lookup `a`.
    /// Semantically the same font; the table is larger than 64 KiB and object caches keyed by a
    /// truncated or relative offset collide.
    ExtensionRelocate { table: String, a: u16, b: u16 },
    /// Replace `cmap` by a single Macintosh Roman (1, 0) format 6 subtable covering codes
    /// 0x20..0x200 that cycles through `glyphs`: codes above 0xFF fold onto the same Mac Roman
    /// characters as their low byte but name other glyphs (no corpus font has a non-Unicode
    /// cmap with colliding codes).
    MacRomanCmap { glyphs: Vec<u16> },
    /// Replace `name` by a well-formed table whose family / typographic family / PostScript
    /// prefix names are long and (depending on `variant`) non-ASCII: Cyrillic, CJK, astral,
    /// or mixed with ASCII so that byte-length limits fall inside a multi-byte character.
    LongNames { variant: u64 },
    /// For a variable font: replace GDEF by a version 1.3 table with an ItemVariationStore (two
    /// regions over the font's axes) and GPOS by a `kern` SinglePos (format 1 or 2) and PairPos
    /// lookup whose value records carry VariationIndex device tables into that store.
    /// No corpus font has variable GPOS data.
    InstallVarGpos { glyphs: Vec<u16>, variant: u64 },
    /// Replace GSUB by a small table whose `calt` feature holds a ReverseChainSingleSubst
    /// (lookup type 8; only one large corpus font has one) keyed on `glyphs`, with format 1 or 2
    /// coverages and optional backtrack / lookahead coverages, followed by a SingleSubst.
    InstallReverseChain { glyphs: Vec<u16>, variant: u64 },
    /// Replace GSUB by a small table whose `ccmp` and `liga` features hold `lookups` MultipleSubst
    /// lookups (type 2), each of which replaces every glyph of `glyphs` by `k` glyphs of the list:
    /// the run grows by a factor `k` per lookup. No corpus font expands by more than a few glyphs.
    InstallExpansion { glyphs: Vec<u16>, k: u16, lookups: u8, variant: u64 },
    /// Replace GSUB by a small table whose `ccmp`/`liga` features hold one contextual lookup
    /// (type 5 or 6, format 3) on `glyph` whose rule has `records` lookup records, each naming the
    /// next contextual lookup of the same shape, `depth` levels deep, ending in a SingleSubst: the
    /// nesting is within the library's limit while the number of nested applications is
    /// `records ^ depth`.
    InstallContextFanout { glyph: u16, records: u16, depth: u8, variant: u64 },
    /// GSUB: the FeatureRecord `feature_index` is retagged `rvrn` (required variation alternates),
    /// which the shaper applies before anything else whenever a variation tuple is given; adds a
    /// one-axis `fvar` when the font has none. No corpus font has an `rvrn` feature, so script
    /// specific shaping never met a run that `rvrn` had already substituted in.
    RvrnFeature { feature_index: u16 },
    /// Add `count` private tables (tags `t000`, `t001`, ... in base 36) of `len` bytes that share
    /// one buffer: a well-formed font with an unusually long table directory. Every corpus font
    /// has fewer than 32 tables; the sfnt header fields derived from the table count are 16-bit.
    ManyTables { count: u16, len: u16 },
    /// Replace GSUB (or GPOS) by a table whose lists alias: `scripts` ScriptRecords that all name
    /// ONE ScriptTable, whose `langsys` LangSysRecords (and the default) all name ONE LangSys with
    /// `features` feature indices; `frecs` FeatureRecords that all name ONE FeatureTable with
    /// `lookups` lookup indices; one harmless SingleSubst / SinglePos lookup on `glyph`. Offsets
    /// may legitimately repeat, so a table of at most ~200 KB describes up to
    /// scripts x langsys x features (resp. frecs x lookups) entries once every record owns its copy.
    InstallAliasedLists {
        table: String,
        glyph: u16,
        scripts: u16,
        langsys: u16,
        features: u16,
        frecs: u16,
        lookups: u16,
        /// whether the ScriptTable also names the shared LangSys as its default
        #[serde(default)]
        default_langsys: bool,
    },
    /// CFF2 font without subroutines (every CFF2 font of the corpus): move the programs of
    /// `glyphs` into a new local subroutine INDEX (appended to the table together with a copy of
    /// the Private DICT that names it and a new CharStrings INDEX; the Font DICT and Top DICT
    /// operands are patched in place) and replace each program by a call - directly, or (`nest`
    /// > 0) through that many levels of forwarding subroutines. The font stays well-formed and
    /// draws the same outlines; real CFF2 fonts are nearly always subroutinised.
    InstallCff2Subrs { glyphs: Vec<u16>, nest: u8 },
    /// TrueType variable font: install a `cvar` table (no corpus font has one) of 1-3 tuple
    /// variations over the font's axes - embedded peak tuples, optionally an intermediate region,
    /// shared / private / "all" point numbers, byte or word or zero delta runs - and a `cvt `
    /// table of `num_cvts` values if the font has none.
    InstallCvar { num_cvts: u16, variant: u64 },
    /// TrueType variable font (none under tests/ has a composite glyph): rewrite glyph `glyph`
    /// in place as a composite of the simple glyphs `a` and `b` (byte or word XY offsets, optionally
    /// a scale, by `variant`) and its `gvar` data, in place as well, as one tuple variation with an
    /// embedded peak on one axis and deltas for the two component offsets and the four phantom
    /// points (`dx`, `dy` for the first component: chosen so that an instance can push one offset
    /// out of the int8 range and not the other).
    InstallVarComposite { glyph: u16, a: u16, b: u16, dx: i16, dy: i16, variant: u64 },
    /// TrueType variable font: rewrite, in place, the `gvar` data of the simple glyph `glyph`
    /// (at most 60 points) as one tuple variation over all points whose deltas alternate between
    /// `+amp` and `-amp` (or ramp, by `variant`): instances reach and cross the int16 range of
    /// coordinates and of the deltas between consecutive points that the glyf writer encodes.
    InstallVarSimple { glyph: u16, amp: i16, variant: u64 },
    /// Variable font without `avar` (three of the five in the corpus): install one with 3-9
    /// monotonic segment map entries per axis (always -1 -> -1, 0 -> 0, 1 -> 1).
    InstallAvar { variant: u64 },
    /// Replace `post` by a version 2.5 table (deprecated; one signed offset per glyph into the
    /// standard Macintosh order; only possible up to 385 glyphs) or by a bare version 3.0 header.
    /// Every corpus font has version 2.0 or 3.0.
    PostFormat {
        v25: bool,
        variant: u64,
        /// A version 2.0 table instead: a mix of standard names and custom names `g<k>` (the
        /// variable fonts of the corpus all have version 3.0).
        #[serde(default, skip_serializing_if = "std::ops::Not::not")]
        v20: bool,
    },
    /// Replace GSUB by a small table with `liga` (f i -> f, f f i -> f), `frac` (on the slash) and
    /// `numr` / `dnom` (on the digits): only three corpus fonts have `frac`, none of them together
    /// with a Latin ligature, so the fraction path of the shaper never meets a run that a
    /// ligature shortened. `glyphs` = [f, i, slash, digit0..digit9] as the cmap maps them.
    InstallFracLiga { glyphs: Vec<u16>, variant: u64 },
    /// The GSUB of `InstallFracLiga` (ligatures of two and three components on `glyphs[0..2]`)
    /// plus a GDEF that classes `mark` as a mark and the ligature glyph as a ligature, and a GPOS
    /// whose `mark` feature holds a MarkLigPos lookup with anchors for `components` components
    /// (1-3: fewer than, as many as, or more than the ligature that GSUB formed has).
    InstallMarkLig { glyphs: Vec<u16>, mark: u16, components: u8, variant: u64 },
    /// Re-pack `hmtx` with only `num_h_metrics` long metrics (glyphs after that take the last
    /// advance and keep their side bearing) and update `hhea`. Every corpus CFF2 font and most
    /// others have numberOfHMetrics == numGlyphs, which hides the compact form from the writers.
    CompactHmtx { num_h_metrics: u16 },
    /// Install `vhea`/`vmtx` derived from `hhea`/`hmtx` (only NotoSansJP has them in the corpus).
    InstallVertical {
        num_v_metrics: u16,
        /// vhea promises one long metric more than vmtx holds (an ill-formed pair of tables)
        #[serde(default, skip_serializing_if = "std::ops::Not::not")]
        over: bool,
        /// variable fonts: also install a minimal well-formed `VVAR` (no corpus font has one)
        #[serde(default, skip_serializing_if = "std::ops::Not::not")]
        vvar: bool,
    },
}

#[derive(Serialize, Deserialize, Clone, Debug)]
pub struct FvRecord {
    pub feature_index: u16,
    pub lookups: Vec<u16>,
    pub min: i16,
    pub max: i16,
}

#[derive(Serialize, Deserialize, Clone, Debug)]
#[serde(tag = "kind")]
pub enum Fault {
    BitFlip {
        target: String,
        off: usize,
        mask: u8,
    },
    Set {
        target: String,
        off: usize,
        width: u8,
        val: u32,
        #[serde(default, skip_serializing_if = "String::is_empty")]
        field: String,
    },
    Truncate {
        target: String,
        len: usize,
    },
    ZeroRange {
        target: String,
        off: usize,
        len: usize,
    },
    CopyRange {
        target: String,
        src: usize,
        dst: usize,
        len: usize,
    },
    /// A block of bytes lands at `off` (misdirected / crafted write): used by field locators
    /// that need more than four bytes, e.g. a charstring prologue.
    Write {
        target: String,
        off: usize,
        bytes: Vec<u8>,
        #[serde(default, skip_serializing_if = "String::is_empty")]
        field: String,
    },
    DropTable {
        tag: String,
    },
    SwapTables {
        a: String,
        b: String,
    },
    ProviderErr {
        tag: String,
        err: String,
    },
}

fn is_zero_u16(v: &u16) -> bool {
    *v == 0
}

fn is_zero_u32(v: &u32) -> bool {
    *v == 0
}

impl Fault {
    pub fn kind(&self) -> &'static str {
        match self {
            Fault::BitFlip { .. } => "BitFlip",
            Fault::Set { field, .. } => {
                if field.is_empty() {
                    "Set"
                } else {
                    "Field"
                }
            }
            Fault::Write { .. } => "Write",
            Fault::Truncate { .. } => "Truncate",
            Fault::ZeroRange { .. } => "ZeroRange",
            Fault::CopyRange { .. } => "CopyRange",
            Fault::DropTable { .. } => "DropTable",
            Fault::SwapTables { .. } => "SwapTables",
            Fault::ProviderErr { .. } => "ProviderErr",
        }
    }

    /// The tables (or "file"/"inner") this fault touches.
    pub fn targets(&self) -> Vec<String> {
        match self {
            Fault::BitFlip { target, .. }
            | Fault::Set { target, .. }
            | Fault::Write { target, .. }
            | Fault::Truncate { target, .. }
            | Fault::ZeroRange { target, .. }
            | Fault::CopyRange { target, .. } => vec![target.clone()],
            Fault::DropTable { tag } | Fault::ProviderErr { tag, .. } => vec![tag.clone()],
            Fault::SwapTables { a, b } => vec![a.clone(), b.clone()],
        }
    }
}

#[derive(Serialize, Deserialize, Clone, Debug, PartialEq, Eq)]
pub struct Feat {
    /// `Features::Mask(bits)` when set.
    #[serde(default, skip_serializing_if = "Option::is_none")]
    pub mask: Option<u64>,
    /// `Features::Custom([(tag, alternate)])` when set.
    #[serde(default, skip_serializing_if = "Option::is_none")]
    pub custom: Option<Vec<(String, Option<usize>)>>,
}

#[derive(Serialize, Deserialize, Clone, Debug, PartialEq, Eq)]
pub struct Positions {
    pub rtl: bool,
    pub vertical: bool,
    /// Lay out only the first `prefix` glyphs of the shaped run (a caller breaking a line inside
    /// the run): attachments may then point past the end of what is laid out.
    #[serde(default, skip_serializing_if = "Option::is_none")]
    pub prefix: Option<usize>,
}

#[derive(Serialize, Deserialize, Clone, Debug, PartialEq, Eq)]
#[serde(tag = "op")]
pub enum Op {
    /// `FontData::read` + `table_provider(index)` on the file image (Image mode), then every
    /// `table_data`. In Provider mode only the `table_data` half.
    Load { index: usize },
    /// `Font::new` (dropping the long-lived font if there is one).
    FontNew,
    LookupGlyph {
        ch: u32,
        required: bool,
        /// 0 = None, 1 = VS01, 2 = VS02, 15 = VS15, 16 = VS16
        vs: u8,
    },
    MapGlyphs {
        text: String,
        script: String,
        required: bool,
    },
    /// map_glyphs -> shape [-> glyph_positions]
    Shape {
        text: String,
        script: String,
        lang: Option<String>,
        feat: Feat,
        /// F2Dot14 raw values; built with `FvarTable::owned_tuple` (so a wrong length gives `None`)
        tuple: Option<Vec<i16>>,
        kerning: bool,
        required: bool,
        positions: Option<Positions>,
    },
    /// `count` shape calls on the same text that differ in one argument only - `vary` 0: the
    /// language tag (`AAA `, `AAB `, ...), 1: the feature mask, 2: both - so that every memo keyed
    /// on (script, language, features) receives `count` distinct keys: more than any fixed
    /// capacity a cache might have. The result is the digest of all runs.
    ShapeSweep {
        text: String,
        script: String,
        count: u16,
        vary: u8,
        tuple: Option<Vec<i16>>,
    },
    /// `gsub::features_supported` on the font's cache.
    FeaturesSupported {
        script: String,
        lang: Option<String>,
        mask: u64,
    },
    HAdvance { gid: u16 },
    VAdvance { gid: u16 },
    GlyphNames { ids: Vec<u16> },
    GlyphImage { gid: u16, ppem: u16, depth: u8 },
    HasImages,
    SetImageFilter { flags: u8 },
    /// os2_table, gdef_table, morx_table, gsub_cache, gpos_cache, kern_table, vhea_table,
    /// variation_axes, axis_names, is_variable, has_glyph_outlines, num_glyphs
    FontQuery { what: String },
    /// `provider.table_data(tag)` + `has_table` + `table_tags`
    TableData { tag: String },
    /// Typed parse (and deep walk) of a table.
    ParseTable { tag: String },
    /// cmap subtable work: map_glyph over `codes`, mappings(), mappings_fn
    Cmap { codes: Vec<u32>, enumerate: bool },
    /// NameTable::string_for_id + fontcode_get_name
    Names { ids: Vec<u16> },
    /// `OutlineBuilder::visit` on the long-lived glyf / CFF / CFF2 object.
    Outline { gid: u16, tuple: Option<Vec<i16>> },
    Subset { ids: Vec<u16> },
    /// target: 1 Unrestricted, 2 MacRoman, 3 Omit, 4 MacRomanCmap(identity)
    PrinceSubset { ids: Vec<u16>, target: u8, cid: bool },
    WholeFont { tags: Vec<String> },
    /// 16.16 raw user coordinates.
    Instance { coords: Vec<i32> },
    /// WOFF / WOFF2 extended metadata (Image mode).
    Metadata,
    /// Decode ANOTHER byte string on the same thread: corpus file `font`, optionally cut to `cut`
    /// bytes (so that decoding fails part-way), `FontData::read` + `table_provider(index)` + every
    /// table. In a history this perturbs whatever process- or thread-wide state the library keeps
    /// between font objects; as an op it is itself a pure decode.
    Decoy {
        font: String,
        index: usize,
        cut: Option<usize>,
        /// Overwrite the big-endian u32 at `set.0` with `set.1` (e.g. WOFF2 totalCompressedSize
        /// halved: the brotli stream then ends after part of the data has been produced).
        #[serde(default, skip_serializing_if = "Option::is_none")]
        set: Option<(usize, u32)>,
    },
    /// Fetch every table of the provider (for WOFF2: the reconstructed glyf/loca/hmtx and the
    /// rest) so that C09 can check them for mutual consistency.
    Reconstruct,
}

impl Op {
    pub fn kind(&self) -> &'static str {
        match self {
            Op::Load { .. } => "Load",
            Op::FontNew => "FontNew",
            Op::LookupGlyph { .. } => "LookupGlyph",
            Op::MapGlyphs { .. } => "MapGlyphs",
            Op::Shape { .. } => "Shape",
            Op::ShapeSweep { .. } => "ShapeSweep",
            Op::FeaturesSupported { .. } => "FeaturesSupported",
            Op::HAdvance { .. } => "HAdvance",
            Op::VAdvance { .. } => "VAdvance",
            Op::GlyphNames { .. } => "GlyphNames",
            Op::GlyphImage { .. } => "GlyphImage",
            Op::HasImages => "HasImages",
            Op::SetImageFilter { .. } => "SetImageFilter",
            Op::FontQuery { .. } => "FontQuery",
            Op::TableData { .. } => "TableData",
            Op::ParseTable { .. } => "ParseTable",
            Op::Cmap { .. } => "Cmap",
            Op::Names { .. } => "Names",
            Op::Outline { .. } => "Outline",
            Op::Subset { .. } => "Subset",
            Op::PrinceSubset { .. } => "PrinceSubset",
            Op::WholeFont { .. } => "WholeFont",
            Op::Instance { .. } => "Instance",
            Op::Metadata => "Metadata",
            Op::Reconstruct => "Reconstruct",
            Op::Decoy { .. } => "Decoy",
        }
    }

    /// Ops that belong to the shaping pipeline (C02 owns crashes in these).
    pub fn is_shaping(&self) -> bool {
        matches!(self, Op::MapGlyphs { .. } | Op::Shape { .. } | Op::ShapeSweep { .. })
    }

    /// Ops that write fonts (C09 validates their `Ok` output).
    pub fn is_writer(&self) -> bool {
        matches!(
            self,
            Op::Subset { .. } | Op::PrinceSubset { .. } | Op::WholeFont { .. } | Op::Instance { .. }
        )
    }

    /// Approximate size of the arguments, for the step budget.
    pub fn arg_len(&self) -> usize {
        match self {
            Op::MapGlyphs { text, .. } | Op::Shape { text, .. } => text.len(),
            Op::ShapeSweep { text, count, .. } => text.len() * usize::from(*count),
            Op::GlyphNames { ids } | Op::Subset { ids } | Op::PrinceSubset { ids, .. } => {
                ids.len() * 2
            }
            Op::Cmap { codes, .. } => codes.len() * 4,
            Op::Names { ids } => ids.len() * 2,
            _ => 0,
        }
    }
}

pub fn tag_from_str(s: &str) -> u32 {
    if s.len() == 10 && s.starts_with("0x") {
        if let Ok(v) = u32::from_str_radix(&s[2..], 16) {
            return v;
        }
    }
    let mut b = [b' '; 4];
    for (i, c) in s.bytes().take(4).enumerate() {
        b[i] = c;
    }
    u32::from_be_bytes(b)
}

pub fn tag_to_string(tag: u32) -> String {
    let bytes = tag.to_be_bytes();
    if bytes.iter().all(|&b| (0x20..0x7f).contains(&b)) {
        bytes.iter().map(|&b| b as char).collect()
    } else {
        format!("0x{:08X}", tag)
    }
}

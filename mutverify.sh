#!/bin/bash
# Confirm a sub-agent's claims in its own scratch worktree:
#   mutverify.sh <worktree> <k>
# 1. demo passes on clean src; 2. demo fails with the patch; 3. full suite with the patch fails only
# the 10 baseline-failing tests (and the mutant demos). Leaves src clean.
WT=$1; K=$2
cd $WT || exit 2
export CARGO_NET_OFFLINE=true
KNOWN='test_lookup_cblc|test_glyph_names$|test_shape_emoji_flag|test_shape_emoji_hair_component|test_shape_emoji_sequence|test_shape_emoji_zwj_sequence|test_mappings_format0|test_mappings_format12|test_mappings_format4|test_read_svg'
git checkout -q -- src
FEAT=""
grep -q "prince" _deliver/$K/NOTES.md && grep -qi "features.*prince\|--features prince" _deliver/$K/NOTES.md && FEAT="--features prince"
a=$(timeout 600 cargo test --offline $FEAT --test mutant_demo_$K 2>&1 | grep -E "^test result" | tail -1)
git apply _deliver/$K/patch.diff || { echo "APPLY-FAILED"; exit 2; }
b=$(timeout 600 cargo test --offline $FEAT --test mutant_demo_$K 2>&1 | grep -E "^test result|signal|panicked|timed out" | tail -2 | tr '\n' ' ')
suite=$(timeout 1500 cargo test --offline --workspace --no-fail-fast 2>&1)
other=$(echo "$suite" | grep -E "^test .* (FAILED|failed)" | grep -v mutant_demo | grep -vE "$KNOWN" | head -5 | tr '\n' ';')
passed=$(echo "$suite" | grep -E "^test result" | awk '{p+=$4; f+=$6} END {print p" passed "f" failed"}')
binfail=$(echo "$suite" | grep -E "^error: test failed" | grep -v mutant_demo | grep -vE "\-\-lib|--test opentype" | tr '\n' ';')
git checkout -q -- src
echo "VERIFY $WT $K | clean-demo: $a | mutant-demo: $b | suite: $passed | unexpected-failures: [$other] [$binfail]"

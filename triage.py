#!/usr/bin/env python3
"""Development helper: run one campaign for a while and list distinct violation signatures."""
import importlib.machinery, importlib.util, json, os, sys, collections
loader = importlib.machinery.SourceFileLoader("check", os.path.join(os.path.dirname(os.path.abspath(__file__)), "check"))
spec = importlib.util.spec_from_loader("check", loader)
check = importlib.util.module_from_spec(spec); loader.exec_module(check)

camp = sys.argv[1]; secs = float(sys.argv[2]); seed = int(sys.argv[3]) if len(sys.argv) > 3 else 1
per_worker = int(sys.argv[4]) if len(sys.argv) > 4 else 10**9
check.build()
res = check.run_campaign(camp, seed, per_worker, secs)
stats = check.merge_stats(res["summaries"])
print("executed", stats["executed"], "harness_errors", len(res["harness_errors"]), "crashes", len(res["crashes"]))
if res["harness_errors"]: print(res["harness_errors"][:3])
sigs = collections.Counter(); ex = {}
for d in res["violations"]:
    v = d["violation"]; sigs[v["signature"]] += 1
    if v["signature"] not in ex or len(json.dumps(d["trace"])) < len(json.dumps(ex[v["signature"]][1])):
        ex[v["signature"]] = (v, d["trace"])
for c in res["crashes"]:
    tr = check.gen_trace(camp, seed, c["run"]) if camp != "C14R" else {}
    v = check.crash_violation(tr, c["crash"]); sigs[v["signature"]] += 1
    ex.setdefault(v["signature"], (v, tr))
os.makedirs("work/triage", exist_ok=True)
for s, n in sigs.most_common():
    v, tr = ex[s]
    name = "work/triage/%s-%s.json" % (camp, check.hashlib.sha1(s.encode()).hexdigest()[:8])
    json.dump(tr, open(name, "w"))
    print("%7d %s | %s | %s" % (n, s, v["msg"][:100].replace("\n", " "), name))
fk = {k: v for k, v in stats["counters"].items() if k.startswith("foreign.")}
for k, v in sorted(fk.items(), key=lambda x: -x[1])[:30]: print("   foreign", v, k)

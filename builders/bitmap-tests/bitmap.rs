#[path = "../../bitmap_build.rs"]
#[allow(dead_code)]
mod bitmap_build;

use std::borrow::Cow;
use std::collections::{BTreeMap, BTreeSet, HashMap};
use std::convert::TryFrom;

use allsorts::binary::read::ReadScope;
use allsorts::bitmap::cbdt::{CBDTTable, CBLCTable, GlyphBitmapData};
use allsorts::bitmap::{BitDepth, Bitmap, EncapsulatedFormat, Metrics};
use allsorts::error::ParseError;
use allsorts::font::{Font, GlyphTableFlags};
use allsorts::tables::FontTableProvider;

use bitmap_build::{GlyphInfo, Options};

const VARIANTS: u64 = 2000;
const NUM_GLYPHS: [u16; 5] = [1, 5, 300, 4000, 65535];

fn depth(d: u8) -> BitDepth {
    BitDepth::try_from(d).unwrap()
}

fn tag(t: &[u8; 4]) -> u32 {
    u32::from_be_bytes(*t)
}

/// (image format, width, height, data / component bytes)
fn unpack_glyph<'a>(g: &GlyphBitmapData<'a>) -> (u8, u8, u8, Vec<u8>) {
    let (w, h) = (g.width(), g.height());
    match g {
        GlyphBitmapData::Format1 { data, .. } => (1, w, h, data.to_vec()),
        GlyphBitmapData::Format2 { data, .. } => (2, w, h, data.to_vec()),
        GlyphBitmapData::Format5 { data, .. } => (5, w, h, data.to_vec()),
        GlyphBitmapData::Format6 { data, .. } => (6, w, h, data.to_vec()),
        GlyphBitmapData::Format7 { data, .. } => (7, w, h, data.to_vec()),
        GlyphBitmapData::Format8 { components, .. } => {
            let mut v = Vec::new();
            for c in components.iter() {
                v.extend_from_slice(&c.glyph_id.to_be_bytes());
                v.push(c.x_offset as u8);
                v.push(c.y_offset as u8);
            }
            (8, w, h, v)
        }
        GlyphBitmapData::Format9 { components, .. } => {
            let mut v = Vec::new();
            for c in components.iter() {
                v.extend_from_slice(&c.glyph_id.to_be_bytes());
                v.push(c.x_offset as u8);
                v.push(c.y_offset as u8);
            }
            (9, w, h, v)
        }
        GlyphBitmapData::Format17 { data, .. } => (17, w, h, data.to_vec()),
        GlyphBitmapData::Format18 { data, .. } => (18, w, h, data.to_vec()),
        GlyphBitmapData::Format19 { data, .. } => (19, w, h, data.to_vec()),
    }
}

#[derive(Default)]
struct Stats {
    tables: u64,
    lookups: u64,
    hits: u64,
    hole_queries: u64,
    hole_none: u64,
    random_queries: u64,
    random_some: u64,
    combos: BTreeMap<(u8, u8, u8), u64>, // (index format, image format, depth) -> glyph count
    strikes: BTreeSet<usize>,
    subtables_per_strike: BTreeSet<usize>,
    glyph0: u64,
    glyph_last: u64,
    zero_dims: u64,
    ppems: BTreeSet<u8>,
    max_loc: usize,
    max_data: usize,
}

impl Stats {
    fn report(&self, name: &str) {
        println!("== {} ==", name);
        println!(
            "tables {} covered lookups {} hits {} ({:.3}%)",
            self.tables,
            self.lookups,
            self.hits,
            100.0 * self.hits as f64 / self.lookups.max(1) as f64
        );
        println!(
            "hole queries {} -> None {}; other queries {} -> Some {}",
            self.hole_queries, self.hole_none, self.random_queries, self.random_some
        );
        println!(
            "strike counts {:?} subtables/strike {:?} glyph0 tables {} last-glyph tables {} 0x0 glyphs {}",
            self.strikes, self.subtables_per_strike, self.glyph0, self.glyph_last, self.zero_dims
        );
        println!(
            "ppem min {:?} max {:?} distinct {}; max location bytes {} max data bytes {}",
            self.ppems.iter().next(),
            self.ppems.iter().next_back(),
            self.ppems.len(),
            self.max_loc,
            self.max_data
        );
        println!("(index format, image format, depth) -> glyphs: {:?}", self.combos);
    }
}

fn record_structure(stats: &mut Stats, infos: &[GlyphInfo], n: u16) {
    let mut strikes: BTreeMap<usize, BTreeSet<usize>> = BTreeMap::new();
    let mut g0 = false;
    let mut gl = false;
    for i in infos {
        strikes.entry(i.strike).or_default().insert(i.subtable);
        *stats
            .combos
            .entry((i.index_format, i.image_format, i.bit_depth))
            .or_default() += 1;
        g0 |= i.glyph == 0;
        gl |= i.glyph == n - 1;
        if i.width == 0 || i.height == 0 {
            stats.zero_dims += 1;
        }
        stats.ppems.insert(i.ppem);
    }
    stats.strikes.insert(strikes.len());
    for s in strikes.values() {
        stats.subtables_per_strike.insert(s.len());
    }
    stats.glyph0 += u64::from(g0);
    stats.glyph_last += u64::from(gl);
}

/// Acceptance 1: direct parsing + find_strike + bitmap.
fn check_low_level(n: u16, colour: bool, variant: u64, opts: Options, stats: &mut Stats) {
    let t = bitmap_build::build_bitmap_tables_ext(n, colour, variant, opts);
    let infos = bitmap_build::glyph_infos(n, colour, variant, opts);
    let ctx = || bitmap_build::describe_ext(n, colour, variant, opts);
    assert_eq!(&t.location_tag, if colour { b"CBLC" } else { b"EBLC" });
    assert_eq!(&t.data_tag, if colour { b"CBDT" } else { b"EBDT" });

    let cblc = ReadScope::new(&t.location)
        .read::<CBLCTable<'_>>()
        .unwrap_or_else(|e| panic!("location parse {:?}\n{}", e, ctx()));
    let cbdt = ReadScope::new(&t.data)
        .read::<CBDTTable<'_>>()
        .unwrap_or_else(|e| panic!("data parse {:?}\n{}", e, ctx()));
    let major = if colour { 3 } else { 2 };
    assert_eq!((cblc.major_version, cblc.minor_version), (major, 0));
    assert_eq!((cbdt.major_version, cbdt.minor_version), (major, 0));

    stats.tables += 1;
    stats.max_loc = stats.max_loc.max(t.location.len());
    stats.max_data = stats.max_data.max(t.data.len());
    record_structure(stats, &infos, n);

    // strikes match
    let n_strikes = infos.iter().map(|i| i.strike + 1).max().unwrap_or(0);
    assert_eq!(cblc.bitmap_sizes.len(), n_strikes, "{}", ctx());
    for i in &infos {
        let bs = &cblc.bitmap_sizes[i.strike].inner;
        assert_eq!(bs.ppem_x, i.ppem);
        assert_eq!(bs.ppem_y, i.ppem_y);
        assert_eq!(bs.bit_depth, depth(i.bit_depth));
        assert!(bs.start_glyph_index <= i.glyph && i.glyph <= bs.end_glyph_index);
        assert!(bs.flags == 1 || bs.flags == 2);
        // record really is where GlyphInfo says
        let rec = &t.data[i.data_offset as usize..(i.data_offset + i.record_len) as usize];
        assert!(
            rec.ends_with(&i.payload) || matches!(i.image_format, 8 | 9),
            "payload not at end of record\n{}",
            ctx()
        );
        if colour && i.image_format >= 17 {
            assert_eq!(&i.payload[..8], &[0x89, b'P', b'N', b'G', 0x0D, 0x0A, 0x1A, 0x0A]);
        }
    }

    // covered() == infos (default options only)
    if opts == Options::default() {
        let cov = bitmap_build::covered(n, colour, variant);
        let exp: Vec<(u16, u8, u8)> = infos.iter().map(|i| (i.glyph, i.ppem, i.bit_depth)).collect();
        assert_eq!(cov, exp);
        assert!(!bitmap_build::describe(n, colour, variant).is_empty());
    }

    let mut present: BTreeSet<(u16, u8)> = BTreeSet::new();
    for i in &infos {
        present.insert((i.glyph, i.ppem));
        stats.lookups += 1;
        let strike = cblc
            .find_strike(i.glyph, i.ppem, depth(i.bit_depth))
            .unwrap_or_else(|| panic!("no strike for {:?}\n{}", (i.glyph, i.ppem, i.bit_depth), ctx()));
        assert_eq!(strike.bit_depth(), depth(i.bit_depth), "{}", ctx());
        let bm = strike
            .bitmap(&cbdt)
            .unwrap_or_else(|e| panic!("bitmap err {:?} glyph {}\n{}", e, i.glyph, ctx()))
            .unwrap_or_else(|| panic!("bitmap None glyph {}\n{}", i.glyph, ctx()));
        let (fmt, w, h, data) = unpack_glyph(&bm);
        assert_eq!(fmt, i.image_format, "{}", ctx());
        assert_eq!((w, h), (i.width, i.height), "glyph {}\n{}", i.glyph, ctx());
        assert_eq!(data, i.payload, "glyph {}\n{}", i.glyph, ctx());
        stats.hits += 1;
    }

    // holes: never an error, None unless another strike with the same ppem has the glyph
    for (g, p, d) in bitmap_build::holes(n, colour, variant, opts) {
        stats.hole_queries += 1;
        match cblc.find_strike(g, p, depth(d)) {
            Some(strike) => {
                let r = strike
                    .bitmap(&cbdt)
                    .unwrap_or_else(|e| panic!("hole err {:?} glyph {}\n{}", e, g, ctx()));
                if r.is_none() {
                    stats.hole_none += 1;
                } else {
                    assert!(present.contains(&(g, p)), "hole {} found?\n{}", g, ctx());
                }
            }
            None => panic!("hole {} must be inside a record range\n{}", g, ctx()),
        }
    }

    // arbitrary queries: never an error
    let mut x = variant.wrapping_mul(0x2545F4914F6CDD1D) ^ u64::from(n);
    let mut next = || {
        x ^= x << 13;
        x ^= x >> 7;
        x ^= x << 17;
        x
    };
    let depths = [1u8, 2, 4, 8, 32];
    for q in 0..40u64 {
        let g = match q {
            0 => 0,
            1 => n - 1,
            2 => n, // one past the end (u16 so 65535 for the biggest font)
            3 => 0xFFFF,
            _ => (next() % u64::from(n)) as u16,
        };
        let p = (next() % 256) as u8;
        let d = depths[(next() % 5) as usize];
        stats.random_queries += 1;
        if let Some(strike) = cblc.find_strike(g, p, depth(d)) {
            let r = strike
                .bitmap(&cbdt)
                .unwrap_or_else(|e| panic!("query err {:?} {:?}\n{}", e, (g, p, d), ctx()));
            if r.is_some() {
                stats.random_some += 1;
            }
        }
    }
}

#[test]
fn low_level_all_variants() {
    let mut stats = Stats::default();
    for &n in &NUM_GLYPHS {
        for &colour in &[false, true] {
            for v in 0..VARIANTS {
                check_low_level(n, colour, v, Options::default(), &mut stats);
            }
        }
    }
    stats.report("low level, default options");
    assert_eq!(stats.hits, stats.lookups);
    assert_eq!(stats.strikes, [1usize, 2, 3].iter().copied().collect());
    assert_eq!(stats.subtables_per_strike, [1usize, 2, 3, 4].iter().copied().collect());
    // every legal (index, image, depth) combination shows up
    for idx in 1..=5u8 {
        let constant = idx == 2 || idx == 5;
        for &d in &[1u8, 2, 4, 8] {
            let imgs: &[u8] = if constant { &[5] } else { &[1, 2, 6, 7] };
            for &img in imgs {
                assert!(stats.combos.contains_key(&(idx, img, d)), "missing {:?}", (idx, img, d));
            }
        }
        let imgs: &[u8] = if constant { &[19] } else { &[17, 18] };
        for &img in imgs {
            assert!(stats.combos.contains_key(&(idx, img, 32)), "missing {:?}", (idx, img, 32));
        }
    }
    assert!(stats.ppems.contains(&8) && stats.ppems.contains(&128));
    assert!(stats.hole_none > 0 && stats.glyph0 > 0 && stats.glyph_last > 0 && stats.zero_dims > 0);
}

#[test]
fn low_level_extended_options() {
    let mut stats = Stats::default();
    let opts = Options {
        components: true,
        raw_bgra: true,
    };
    for &n in &[5u16, 300, 65535] {
        for &colour in &[false, true] {
            for v in 0..VARIANTS {
                check_low_level(n, colour, v, opts, &mut stats);
            }
        }
    }
    stats.report("low level, components + raw_bgra");
    assert_eq!(stats.hits, stats.lookups);
    for &img in &[8u8, 9] {
        assert!(stats.combos.keys().any(|k| k.1 == img));
    }
    for &img in &[1u8, 2, 5, 6, 7] {
        assert!(stats.combos.keys().any(|k| k.1 == img && k.2 == 32));
    }
}

#[test]
fn zero_glyph_font() {
    for &colour in &[false, true] {
        let t = bitmap_build::build_bitmap_tables(0, colour, 3);
        let cblc = ReadScope::new(&t.location).read::<CBLCTable<'_>>().unwrap();
        ReadScope::new(&t.data).read::<CBDTTable<'_>>().unwrap();
        assert!(cblc.bitmap_sizes.is_empty());
        assert!(bitmap_build::covered(0, colour, 3).is_empty());
        assert!(cblc.find_strike(0, 10, BitDepth::ThirtyTwo).is_none());
    }
}

#[test]
fn determinism() {
    for &n in &NUM_GLYPHS {
        for &colour in &[false, true] {
            for v in 0..VARIANTS {
                let a = bitmap_build::build_bitmap_tables(n, colour, v);
                let b = bitmap_build::build_bitmap_tables(n, colour, v);
                assert_eq!(a.location, b.location);
                assert_eq!(a.data, b.data);
                assert_eq!(a.location_tag, b.location_tag);
                assert_eq!(a.data_tag, b.data_tag);
                assert_eq!(
                    bitmap_build::covered(n, colour, v),
                    bitmap_build::covered(n, colour, v)
                );
                assert_eq!(
                    bitmap_build::describe(n, colour, v),
                    bitmap_build::describe(n, colour, v)
                );
            }
        }
    }
    // neighbouring variants differ
    let mut distinct = BTreeSet::new();
    for v in 0..VARIANTS {
        distinct.insert(bitmap_build::build_bitmap_tables(300, false, v).location);
    }
    assert_eq!(distinct.len() as u64, VARIANTS);
}

// ------------------------------------------------------------------------------------------------
// High level: Font::lookup_glyph_image
// ------------------------------------------------------------------------------------------------

#[derive(Clone)]
struct MemProvider {
    tables: HashMap<u32, Vec<u8>>,
}

impl FontTableProvider for MemProvider {
    fn table_data(&self, tag: u32) -> Result<Option<Cow<'_, [u8]>>, ParseError> {
        Ok(self.tables.get(&tag).map(|t| Cow::Borrowed(t.as_slice())))
    }

    fn has_table(&self, tag: u32) -> bool {
        self.tables.contains_key(&tag)
    }

    fn table_tags(&self) -> Option<Vec<u32>> {
        let mut v: Vec<u32> = self.tables.keys().copied().collect();
        v.sort_unstable();
        Some(v)
    }
}

/// Split the sfnt directory by hand.
fn base_font() -> MemProvider {
    let d = std::fs::read("/repo/tests/fonts/opentype/test-font.ttf").unwrap();
    assert_eq!(&d[0..4], &[0, 1, 0, 0]);
    let num_tables = u16::from_be_bytes([d[4], d[5]]) as usize;
    let mut tables = HashMap::new();
    for i in 0..num_tables {
        let r = 12 + 16 * i;
        let tag = u32::from_be_bytes([d[r], d[r + 1], d[r + 2], d[r + 3]]);
        let off = u32::from_be_bytes([d[r + 8], d[r + 9], d[r + 10], d[r + 11]]) as usize;
        let len = u32::from_be_bytes([d[r + 12], d[r + 13], d[r + 14], d[r + 15]]) as usize;
        tables.insert(tag, d[off..off + len].to_vec());
    }
    MemProvider { tables }
}

fn font_with(base: &MemProvider, n: u16, t: &bitmap_build::BitmapTables) -> Font<MemProvider> {
    let mut p = base.clone();
    // pretend the font has `n` glyphs
    let maxp = p.tables.get_mut(&tag(b"maxp")).unwrap();
    maxp[4..6].copy_from_slice(&n.to_be_bytes());
    p.tables.insert(tag(&t.location_tag), t.location.clone());
    p.tables.insert(tag(&t.data_tag), t.data.clone());
    let mut font = Font::new(p).expect("Font::new");
    assert_eq!(font.num_glyphs(), n);
    if &t.data_tag == b"EBDT" {
        // EBDT is not consulted by default
        assert!(matches!(font.lookup_glyph_image(0, 16, BitDepth::ThirtyTwo), Ok(None)));
        font.set_embedded_image_filter(GlyphTableFlags::EBDT);
    }
    assert!(font.has_embedded_images());
    font
}

/// Independent re-implementation of the bit-aligned -> byte-aligned row conversion.
fn reference_unpack(depth: u8, w: u8, h: u8, data: &[u8]) -> Vec<u8> {
    let bits_per_row = usize::from(depth) * usize::from(w);
    let bytes_per_row = (bits_per_row + 7) / 8;
    let mut out = vec![0u8; bytes_per_row * usize::from(h)];
    let mut bit = 0usize;
    for row in 0..usize::from(h) {
        for b in 0..bits_per_row {
            let v = (data[bit / 8] >> (7 - bit % 8)) & 1;
            out[row * bytes_per_row + b / 8] |= v << (7 - b % 8);
            bit += 1;
        }
    }
    out
}

fn expected_embedded(i: &GlyphInfo) -> Vec<u8> {
    let mut v = match i.image_format {
        1 | 6 => i.payload.clone(),
        2 | 5 | 7 => reference_unpack(i.bit_depth, i.width, i.height, &i.payload),
        _ => unreachable!(),
    };
    if i.bit_depth == 32 {
        v.chunks_exact_mut(4).for_each(|c| c.swap(0, 2));
    }
    v
}

fn check_high_level(
    base: &MemProvider,
    n: u16,
    colour: bool,
    variant: u64,
    opts: Options,
    stats: &mut Stats,
) {
    let t = bitmap_build::build_bitmap_tables_ext(n, colour, variant, opts);
    let infos = bitmap_build::glyph_infos(n, colour, variant, opts);
    let ctx = || bitmap_build::describe_ext(n, colour, variant, opts);
    let mut font = font_with(base, n, &t);
    stats.tables += 1;

    let mut present: BTreeSet<(u16, u8)> = BTreeSet::new();
    let mut any_strike: BTreeSet<u16> = BTreeSet::new();
    for i in &infos {
        present.insert((i.glyph, i.ppem));
        any_strike.insert(i.glyph);
        stats.lookups += 1;
        let res = font.lookup_glyph_image(i.glyph, u16::from(i.ppem), depth(i.bit_depth));
        if matches!(i.image_format, 8 | 9) {
            // documented allsorts limitation (NOTES.md)
            assert!(matches!(res, Err(ParseError::NotImplemented)), "{}", ctx());
            stats.hits += 1;
            continue;
        }
        let bg = res
            .unwrap_or_else(|e| panic!("lookup_glyph_image err {:?} glyph {}\n{}", e, i.glyph, ctx()))
            .unwrap_or_else(|| panic!("lookup_glyph_image None glyph {}\n{}", i.glyph, ctx()));
        assert_eq!(bg.ppem_x, Some(u16::from(i.ppem)));
        assert_eq!(bg.ppem_y, Some(u16::from(i.ppem_y)));
        match &bg.metrics {
            Metrics::Embedded(m) => {
                assert_eq!((m.ppem_x, m.ppem_y), (i.ppem, i.ppem_y));
                assert!(m.hori().is_some() || m.vert().is_some());
            }
            other => panic!("unexpected metrics {:?}", other),
        }
        match &bg.bitmap {
            Bitmap::Encapsulated(e) => {
                assert!(i.image_format >= 17, "{}", ctx());
                assert!(matches!(e.format, EncapsulatedFormat::Png));
                assert_eq!(&e.data[..], &i.payload[..], "glyph {}\n{}", i.glyph, ctx());
            }
            Bitmap::Embedded(e) => {
                assert!(i.image_format < 8, "{}", ctx());
                assert_eq!(e.format, depth(i.bit_depth));
                assert_eq!((e.width, e.height), (i.width, i.height));
                assert_eq!(&e.data[..], &expected_embedded(i)[..], "glyph {}\n{}", i.glyph, ctx());
            }
        }
        stats.hits += 1;
    }

    // holes at the ppem of their strike
    let mut hole_glyphs: BTreeSet<u16> = BTreeSet::new();
    for (g, p, d) in bitmap_build::holes(n, colour, variant, opts) {
        hole_glyphs.insert(g);
        stats.hole_queries += 1;
        match font.lookup_glyph_image(g, u16::from(p), depth(d)) {
            Ok(None) => stats.hole_none += 1,
            Ok(Some(_)) => assert!(present.contains(&(g, p)), "hole {} found?\n{}", g, ctx()),
            Err(ParseError::NotImplemented) if opts.components => {}
            Err(e) => panic!("hole err {:?} glyph {}\n{}", e, g, ctx()),
        }
    }

    // uncovered glyphs and arbitrary sizes: Ok(None) / Ok(other strike), never Err
    let mut x = variant.wrapping_mul(0x9E3779B97F4A7C15) ^ u64::from(n) ^ 0xABCD;
    let mut next = || {
        x ^= x << 13;
        x ^= x >> 7;
        x ^= x << 17;
        x
    };
    let depths = [1u8, 2, 4, 8, 32];
    for q in 0..40u64 {
        let g = match q {
            0 => 0,
            1 => n - 1,
            2 => n,
            3 => 0xFFFF,
            _ => (next() % u64::from(n)) as u16,
        };
        let p = match q % 4 {
            0 => 1000, // > 255 gets clamped
            1 => 0,
            _ => (next() % 300) as u16,
        };
        let d = depths[(next() % 5) as usize];
        stats.random_queries += 1;
        match font.lookup_glyph_image(g, p, depth(d)) {
            Ok(None) => {
                // A hole in the best matching strike hides the glyph even if another strike
                // has it (find_strike goes by record ranges), so only hole-free glyphs are
                // guaranteed to be found.
                if d == 32 && !hole_glyphs.contains(&g) {
                    assert!(!any_strike.contains(&g), "glyph {} should be found\n{}", g, ctx());
                }
            }
            Ok(Some(_)) => {
                assert!(any_strike.contains(&g), "glyph {} is in no strike\n{}", g, ctx());
                stats.random_some += 1;
            }
            Err(ParseError::NotImplemented) if opts.components => {}
            Err(e) => panic!("query err {:?} {:?}\n{}", e, (g, p, d), ctx()),
        }
    }
}

#[test]
fn high_level_all_variants() {
    let base = base_font();
    let mut stats = Stats::default();
    for &n in &[5u16, 300, 65535] {
        for &colour in &[false, true] {
            for v in 0..VARIANTS {
                check_high_level(&base, n, colour, v, Options::default(), &mut stats);
            }
        }
    }
    stats.report("high level (Font::lookup_glyph_image), default options");
    assert_eq!(stats.hits, stats.lookups);
}

#[test]
fn high_level_extended_options() {
    let base = base_font();
    let mut stats = Stats::default();
    let opts = Options {
        components: true,
        raw_bgra: true,
    };
    for &n in &[5u16, 300, 65535] {
        for &colour in &[false, true] {
            for v in 0..500 {
                check_high_level(&base, n, colour, v, opts, &mut stats);
            }
        }
    }
    stats.report("high level, components + raw_bgra");
    assert_eq!(stats.hits, stats.lookups);
}

// ------------------------------------------------------------------------------------------------
// Probes for allsorts quirks recorded in NOTES.md
// ------------------------------------------------------------------------------------------------

/// Two strikes with the same ppem and different bit depth: when the HIGHER depth strike is stored
/// FIRST, an exact-ppem query returns the LOWER depth strike (the later one).
#[test]
fn probe_same_ppem_tie_prefers_later_strike() {
    let n = 5u16;
    let mut seen = 0;
    for v in 0..VARIANTS {
        let infos = bitmap_build::glyph_infos(n, false, v, Options::default());
        // strikes 0 and 1 share the ppem?
        let s0 = infos.iter().find(|i| i.strike == 0).unwrap();
        let s1 = match infos.iter().find(|i| i.strike == 1) {
            Some(s) => s,
            None => continue,
        };
        if s0.ppem != s1.ppem {
            continue;
        }
        assert!(s0.bit_depth < s1.bit_depth);
        // a glyph present in both
        let g = match infos
            .iter()
            .filter(|i| i.strike == 0)
            .find(|a| infos.iter().any(|b| b.strike == 1 && b.glyph == a.glyph))
        {
            Some(i) => i.glyph,
            None => continue,
        };
        let t = bitmap_build::build_bitmap_tables(n, false, v);
        // generator order (low depth first): highest depth wins
        let cblc = ReadScope::new(&t.location).read::<CBLCTable<'_>>().unwrap();
        let st = cblc.find_strike(g, s0.ppem, BitDepth::ThirtyTwo).unwrap();
        assert_eq!(st.bit_depth(), depth(s1.bit_depth));
        // swap the two 48 byte BitmapSize records (offsets are absolute so this stays valid)
        let mut loc = t.location.clone();
        let (a, b) = (8usize, 8 + 48usize);
        for k in 0..48 {
            loc.swap(a + k, b + k);
        }
        let cblc = ReadScope::new(&loc).read::<CBLCTable<'_>>().unwrap();
        let st = cblc.find_strike(g, s0.ppem, BitDepth::ThirtyTwo).unwrap();
        // documented as "maximises size and bit depth" but the later, lower depth strike wins
        assert_eq!(st.bit_depth(), depth(s0.bit_depth), "variant {}", v);
        // ... whereas for a non exact ppem the higher depth strike wins regardless of order
        if !infos.iter().any(|i| i.strike == 2) {
            let st = cblc.find_strike(g, s0.ppem + 1, BitDepth::ThirtyTwo).unwrap();
            assert_eq!(st.bit_depth(), depth(s1.bit_depth), "variant {}", v);
        }
        seen += 1;
    }
    println!("same-ppem tie probe: {} variants exercised", seen);
    assert!(seen > 0);
}

/// A glyph that is a hole (zero-length entry / not listed) in the best matching strike is reported
/// as missing even when another strike has an image for it: `find_strike` selects by the
/// first/last glyph of the IndexSubTableArray records only.
#[test]
fn probe_hole_in_best_strike_hides_other_strikes() {
    let n = 5u16;
    let mut seen = 0;
    for v in 0..VARIANTS {
        let infos = bitmap_build::glyph_infos(n, false, v, Options::default());
        let t = bitmap_build::build_bitmap_tables(n, false, v);
        let cblc = ReadScope::new(&t.location).read::<CBLCTable<'_>>().unwrap();
        let cbdt = ReadScope::new(&t.data).read::<CBDTTable<'_>>().unwrap();
        for (g, p, _d) in bitmap_build::holes(n, false, v, Options::default()) {
            let elsewhere = infos.iter().any(|i| i.glyph == g && i.ppem != p);
            let same_ppem = infos.iter().any(|i| i.glyph == g && i.ppem == p);
            if elsewhere && !same_ppem {
                let st = cblc.find_strike(g, p, BitDepth::ThirtyTwo).unwrap();
                assert!(st.bitmap(&cbdt).unwrap().is_none());
                seen += 1;
            }
        }
    }
    println!("hole-hides-other-strike probe: {} cases", seen);
    assert!(seen > 0);
}

/// Index format 4 with a zero-length entry (two consecutive pairs with the same offset).
/// Not produced by the generator; recorded in NOTES.md.
#[test]
fn probe_format4_zero_length_entry() {
    let mut loc: Vec<u8> = Vec::new();
    loc.extend_from_slice(&[0, 2, 0, 0, 0, 0, 0, 1]);
    loc.extend_from_slice(&56u32.to_be_bytes()); // indexSubTableArrayOffset
    loc.extend_from_slice(&32u32.to_be_bytes()); // indexTablesSize
    loc.extend_from_slice(&1u32.to_be_bytes()); // numberOfIndexSubTables
    loc.extend_from_slice(&0u32.to_be_bytes()); // colorRef
    loc.extend_from_slice(&[8, 0xFE, 1, 1, 0, 0, 0, 0, 1, 0, 0, 0]); // hori
    loc.extend_from_slice(&[8, 0xFE, 1, 1, 0, 0, 0, 0, 1, 0, 0, 0]); // vert
    loc.extend_from_slice(&[0, 1, 0, 2, 10, 10, 1, 1]); // start 1 end 2 ppem 10x10 depth 1 flags 1
    assert_eq!(loc.len(), 56);
    loc.extend_from_slice(&[0, 1, 0, 2, 0, 0, 0, 8]); // record: 1..=2, additional offset 8
    loc.extend_from_slice(&[0, 4, 0, 1, 0, 0, 0, 4]); // index format 4, image format 1, data @4
    loc.extend_from_slice(&2u32.to_be_bytes()); // numGlyphs
    loc.extend_from_slice(&[0, 1, 0, 0, 0, 2, 0, 0, 0, 0, 0, 6]); // (1,0) (2,0) terminator (0,6)
    let dat: Vec<u8> = vec![0, 2, 0, 0, 1, 1, 0, 1, 2, 0x80];
    let cblc = ReadScope::new(&loc).read::<CBLCTable<'_>>().unwrap();
    let cbdt = ReadScope::new(&dat).read::<CBDTTable<'_>>().unwrap();
    let ok = cblc.find_strike(2, 10, BitDepth::One).unwrap().bitmap(&cbdt);
    assert!(matches!(ok, Ok(Some(GlyphBitmapData::Format1 { .. }))));
    let zero = cblc.find_strike(1, 10, BitDepth::One).unwrap().bitmap(&cbdt);
    println!("format 4 zero-length entry -> {:?}", zero.as_ref().map(|o| o.is_some()));
    // formats 1 and 3 yield Ok(None) for a zero-length entry; format 4 errors
    assert!(zero.is_err());
}

//! Independent, strict reference reader/applier for `morx` tables, written from Apple's spec
//! (with HarfBuzz's interpretation of the ligature stack). Every read is bounds-checked against the
//! extent of the block it belongs to (a block ends where the next block starts), so a generator that
//! relies on reads running into neighbouring blocks is caught here even though allsorts would accept it.
//!
//! Deliberate simplifications (shared with allsorts so that outputs are comparable):
//! * coverage direction flags are ignored, all subtables are processed in logical order
//! * end-of-text / end-of-line classes are never fed to the state machines
//! * feature selection = allsorts' `FeatureMask::default()`

type R<T> = Result<T, String>;

#[derive(Clone, Copy)]
pub struct Blk<'a>(pub &'a [u8]);

impl<'a> Blk<'a> {
    fn u8(&self, o: usize) -> R<u8> {
        self.0.get(o).copied().ok_or_else(|| format!("u8 read at {} beyond block of {}", o, self.0.len()))
    }
    fn u16(&self, o: usize) -> R<u16> {
        match self.0.get(o..o + 2) {
            Some(b) => Ok(u16::from_be_bytes([b[0], b[1]])),
            None => Err(format!("u16 read at {} beyond block of {}", o, self.0.len())),
        }
    }
    fn u32(&self, o: usize) -> R<u32> {
        match self.0.get(o..o + 4) {
            Some(b) => Ok(u32::from_be_bytes([b[0], b[1], b[2], b[3]])),
            None => Err(format!("u32 read at {} beyond block of {}", o, self.0.len())),
        }
    }
    fn sub(&self, from: usize, to: usize) -> R<Blk<'a>> {
        self.0.get(from..to).map(Blk).ok_or_else(|| format!("sub-block {}..{} beyond block of {}", from, to, self.0.len()))
    }
    fn len(&self) -> usize {
        self.0.len()
    }
}

/// Split `body` into blocks that start at `offsets` and each end at the next larger offset (or the end).
fn extents<'a>(body: Blk<'a>, offsets: &[usize]) -> R<Vec<Blk<'a>>> {
    let mut out = Vec::new();
    for &o in offsets {
        let end = offsets.iter().copied().filter(|&x| x > o).min().unwrap_or(body.len());
        out.push(body.sub(o, end)?);
    }
    Ok(out)
}

fn check_bin_srch(t: Blk, unit: u16) -> R<(usize, usize)> {
    let unit_size = t.u16(2)?;
    let n_units = t.u16(4)?;
    let search_range = t.u16(6)?;
    let entry_selector = t.u16(8)?;
    let range_shift = t.u16(10)?;
    if unit_size != unit {
        return Err(format!("unit size {} expected {}", unit_size, unit));
    }
    if n_units == 0 {
        return Err("nUnits 0".into());
    }
    let mut sel = 0u16;
    while (1u32 << (sel + 1)) <= n_units as u32 {
        sel += 1;
    }
    if entry_selector != sel || search_range != unit * (1 << sel) || range_shift != unit * n_units - search_range {
        return Err(format!(
            "bin search header inconsistent: n={} range={} sel={} shift={}",
            n_units, search_range, entry_selector, range_shift
        ));
    }
    Ok((unit_size as usize, n_units as usize))
}

/// Strict lookup. `Ok(None)` = glyph not covered.
pub fn lookup(t: Blk, glyph: u16, num_glyphs: u16) -> R<Option<u16>> {
    let fmt = t.u16(0)?;
    match fmt {
        0 => {
            if t.len() < 2 + 2 * num_glyphs as usize {
                return Err("format 0 table shorter than num_glyphs".into());
            }
            if glyph < num_glyphs {
                Ok(Some(t.u16(2 + 2 * glyph as usize)?))
            } else {
                Ok(None)
            }
        }
        2 | 4 => {
            let (us, n) = check_bin_srch(t, 6)?;
            let mut prev_last: Option<u16> = None;
            let mut found = None;
            for i in 0..n {
                let o = 12 + i * us;
                let last = t.u16(o)?;
                let first = t.u16(o + 2)?;
                let val = t.u16(o + 4)?;
                if last == 0xFFFF && first == 0xFFFF {
                    if i + 1 != n {
                        return Err("terminator is not the last unit".into());
                    }
                    break;
                }
                if first > last {
                    return Err("segment first > last".into());
                }
                if let Some(p) = prev_last {
                    if first <= p {
                        return Err("segments not sorted / overlapping".into());
                    }
                }
                prev_last = Some(last);
                if last >= num_glyphs {
                    return Err("segment beyond num_glyphs".into());
                }
                if found.is_none() && glyph >= first && glyph <= last {
                    found = Some(if fmt == 2 { val } else { t.u16(val as usize + 2 * (glyph - first) as usize)? });
                }
                if fmt == 4 {
                    // the whole value array of the segment must be inside the table
                    t.u16(val as usize + 2 * (last - first) as usize)?;
                    if (val as usize) < 12 + n * us {
                        return Err("format 4 value array overlaps the segment array".into());
                    }
                }
            }
            Ok(found)
        }
        6 => {
            let (us, n) = check_bin_srch(t, 4)?;
            let mut prev: Option<u16> = None;
            let mut found = None;
            for i in 0..n {
                let o = 12 + i * us;
                let g = t.u16(o)?;
                let val = t.u16(o + 2)?;
                if g == 0xFFFF {
                    if i + 1 != n {
                        return Err("terminator is not the last unit".into());
                    }
                    break;
                }
                if let Some(p) = prev {
                    if g <= p {
                        return Err("format 6 entries not sorted".into());
                    }
                }
                prev = Some(g);
                if g == glyph && found.is_none() {
                    found = Some(val);
                }
            }
            Ok(found)
        }
        8 => {
            let first = t.u16(2)?;
            let count = t.u16(4)?;
            if first as u32 + count as u32 > num_glyphs as u32 {
                return Err("format 8 range beyond num_glyphs".into());
            }
            t.u16(6 + 2 * (count as usize).saturating_sub(1))?;
            if glyph >= first && (glyph - first) < count {
                Ok(Some(t.u16(6 + 2 * (glyph - first) as usize)?))
            } else {
                Ok(None)
            }
        }
        10 => {
            let unit = t.u16(2)?;
            let first = t.u16(4)?;
            let count = t.u16(6)?;
            if first as u32 + count as u32 > num_glyphs as u32 {
                return Err("format 10 range beyond num_glyphs".into());
            }
            if glyph >= first && (glyph - first) < count {
                let i = (glyph - first) as usize;
                match unit {
                    1 => Ok(Some(t.u8(8 + i)? as u16)),
                    2 => Ok(Some(t.u16(8 + 2 * i)?)),
                    // wider units are legal per the spec; a glyph id is the low 16 bits
                    4 => Ok(Some(t.u32(8 + 4 * i)? as u16)),
                    8 => Ok(Some(t.u32(8 + 8 * i + 4)? as u16)),
                    _ => Err(format!("format 10 unit size {}", unit)),
                }
            } else {
                Ok(None)
            }
        }
        f => Err(format!("lookup format {}", f)),
    }
}

fn class_of(t: Blk, glyph: u16, num_glyphs: u16, n_classes: usize) -> R<usize> {
    if glyph == 0xFFFF {
        return Ok(2);
    }
    let c = lookup(t, glyph, num_glyphs)?.unwrap_or(1) as usize;
    if c >= n_classes {
        return Err(format!("class {} >= nClasses {}", c, n_classes));
    }
    Ok(c)
}

struct Stx<'a> {
    n_classes: usize,
    class: Blk<'a>,
    state: Blk<'a>,
    entry: Blk<'a>,
    extras: Vec<Blk<'a>>,
}

fn read_stx<'a>(body: Blk<'a>, n_extras: usize) -> R<Stx<'a>> {
    let n_classes = body.u32(0)? as usize;
    if n_classes < 4 {
        return Err("nClasses < 4".into());
    }
    let mut offs = Vec::new();
    for i in 0..3 + n_extras {
        let o = body.u32(4 + 4 * i)? as usize;
        if o < 16 + 4 * n_extras {
            return Err("block offset inside header".into());
        }
        offs.push(o);
    }
    let ex = extents(body, &offs)?;
    Ok(Stx { n_classes, class: ex[0], state: ex[1], entry: ex[2], extras: ex[3..].to_vec() })
}

impl<'a> Stx<'a> {
    fn entry_index(&self, state: usize, class: usize) -> R<usize> {
        let n_states = self.state.len() / (2 * self.n_classes);
        if state >= n_states {
            return Err(format!("state {} >= {} states", state, n_states));
        }
        Ok(self.state.u16(2 * (state * self.n_classes + class))? as usize)
    }
}

const MAX_OPS: usize = 10_000;

fn apply_contextual(body: Blk, glyphs: &mut Vec<u16>, num_glyphs: u16, quirks: Quirks) -> R<()> {
    let stx = read_stx(body, 1)?;
    let subst = stx.extras[0];
    let first = subst.u32(0)? as usize;
    let n_tables = first / 4;
    if n_tables == 0 || first != 4 * n_tables {
        return Err("bad first substitution table offset".into());
    }
    let mut toffs = Vec::new();
    for k in 0..n_tables {
        toffs.push(subst.u32(4 * k)? as usize);
    }
    let tables = extents(subst, &toffs)?;
    let mut state = 0usize;
    // (position, glyph id at the time the mark was set)
    let mut mark: Option<(usize, u16)> = None;
    let mut ops = 0;
    for i in 0..glyphs.len() {
        // allsorts reads the current glyph once per position and keeps using that id for the "current glyph"
        // lookup even after a DONT_ADVANCE re-run in which the glyph has already been replaced
        let stale_current = glyphs[i];
        loop {
            ops += 1;
            if ops > MAX_OPS {
                return Err("contextual: too many operations (loop?)".into());
            }
            let class = class_of(stx.class, glyphs[i], num_glyphs, stx.n_classes)?;
            let ei = stx.entry_index(state, class)?;
            let next = stx.entry.u16(8 * ei)? as usize;
            let flags = stx.entry.u16(8 * ei + 2)?;
            let mark_index = stx.entry.u16(8 * ei + 4)?;
            let cur_index = stx.entry.u16(8 * ei + 6)?;
            if flags & 0x3FFF != 0 {
                return Err("contextual: reserved entry flag bits set".into());
            }
            if mark_index != 0xFFFF {
                let t = *tables.get(mark_index as usize).ok_or("mark index beyond substitution tables")?;
                if let Some((mp, stale)) = mark {
                    // allsorts looks up the glyph id remembered when the mark was set, not the current one
                    let key = if quirks.stale_mark { stale } else { glyphs[mp] };
                    if let Some(v) = lookup(t, key, num_glyphs)? {
                        if v >= num_glyphs {
                            return Err("substitute >= num_glyphs".into());
                        }
                        glyphs[mp] = v;
                    }
                }
            }
            if cur_index != 0xFFFF {
                let t = *tables.get(cur_index as usize).ok_or("current index beyond substitution tables")?;
                let key = if quirks.stale_current { stale_current } else { glyphs[i] };
                if let Some(v) = lookup(t, key, num_glyphs)? {
                    if v >= num_glyphs {
                        return Err("substitute >= num_glyphs".into());
                    }
                    glyphs[i] = v;
                }
            }
            if flags & 0x8000 != 0 {
                mark = Some((i, glyphs[i]));
            }
            state = next;
            if flags & 0x4000 == 0 {
                break;
            }
        }
    }
    Ok(())
}

fn apply_ligature(body: Blk, glyphs: &mut Vec<u16>, num_glyphs: u16) -> R<()> {
    let stx = read_stx(body, 3)?;
    let (actions, components, ligatures) = (stx.extras[0], stx.extras[1], stx.extras[2]);
    let mut state = 0usize;
    let mut stack: Vec<usize> = Vec::new();
    let mut ops = 0;
    for i in 0..glyphs.len() {
        loop {
            ops += 1;
            if ops > MAX_OPS {
                return Err("ligature: too many operations (loop?)".into());
            }
            let class = class_of(stx.class, glyphs[i], num_glyphs, stx.n_classes)?;
            let ei = stx.entry_index(state, class)?;
            let next = stx.entry.u16(6 * ei)? as usize;
            let flags = stx.entry.u16(6 * ei + 2)?;
            let action_index = stx.entry.u16(6 * ei + 4)? as usize;
            if flags & 0x1FFF != 0 {
                return Err("ligature: reserved entry flag bits set".into());
            }
            if flags & 0x8000 != 0 {
                if stack.last() == Some(&i) {
                    stack.pop();
                }
                stack.push(i);
            }
            if flags & 0x2000 != 0 {
                let mut ai = action_index;
                let mut lig_idx: usize = 0;
                let mut cursor = stack.len();
                loop {
                    if cursor == 0 {
                        return Err("ligature: component stack underflow".into());
                    }
                    cursor -= 1;
                    let p = stack[cursor];
                    let action = actions.u32(4 * ai)?;
                    ai += 1;
                    let mut off = (action & 0x3FFF_FFFF) as i64;
                    if off & 0x2000_0000 != 0 {
                        off -= 0x4000_0000;
                    }
                    let ci = glyphs[p] as i64 + off;
                    if ci < 0 {
                        return Err("ligature: negative component index".into());
                    }
                    lig_idx += components.u16(2 * ci as usize)? as usize;
                    if action & 0xC000_0000 != 0 {
                        let lg = ligatures.u16(2 * lig_idx)?;
                        if lg >= num_glyphs {
                            return Err("ligature glyph >= num_glyphs".into());
                        }
                        glyphs[p] = lg;
                        while stack.len() - 1 > cursor {
                            let q = stack.pop().unwrap();
                            glyphs[q] = 0xFFFF;
                        }
                    }
                    if action & 0x8000_0000 != 0 {
                        break;
                    }
                }
            }
            state = next;
            if flags & 0x4000 == 0 {
                break;
            }
        }
    }
    Ok(())
}

/// Emulation of allsorts' ligature algorithm (glyph snapshots on the stack, a single `start_pos`, immediate
/// removal of components, stack cleared on DONT_ADVANCE, ligature re-pushed only if the next state is not 0).
fn apply_ligature_allsorts(body: Blk, glyphs: &mut Vec<u16>, num_glyphs: u16) -> R<()> {
    let stx = read_stx(body, 3)?;
    let (actions, components, ligatures) = (stx.extras[0], stx.extras[1], stx.extras[2]);
    let mut state = 0usize;
    let mut stack: Vec<u16> = Vec::new();
    let mut start_pos = 0usize;
    let mut i = 0usize;
    let mut ops = 0;
    while i < glyphs.len() {
        let glyph = glyphs[i];
        let class = class_of(stx.class, glyph, num_glyphs, stx.n_classes)?;
        loop {
            ops += 1;
            if ops > MAX_OPS {
                return Err("ligature: too many operations (loop?)".into());
            }
            let ei = stx.entry_index(state, class)?;
            let next = stx.entry.u16(6 * ei)? as usize;
            let flags = stx.entry.u16(6 * ei + 2)?;
            let mut ai = stx.entry.u16(6 * ei + 4)? as usize;
            state = next;
            if flags & 0x8000 != 0 {
                stack.push(glyph);
                if stack.len() == 1 {
                    start_pos = i;
                }
            }
            if flags & 0x2000 != 0 {
                let end_pos = i;
                let mut lig_idx = 0usize;
                loop {
                    let popped = stack.pop().ok_or("allsorts-emulation: stack underflow")?;
                    let action = actions.u32(4 * ai)?;
                    ai += 1;
                    let mut off = (action & 0x3FFF_FFFF) as i64;
                    if off & 0x2000_0000 != 0 {
                        off -= 0x4000_0000;
                    }
                    let ci = popped as i64 + off;
                    if ci < 0 {
                        return Err("negative component index".into());
                    }
                    lig_idx += components.u16(2 * ci as usize)? as usize;
                    if action & 0xC000_0000 != 0 {
                        let lg = ligatures.u16(2 * lig_idx)?;
                        if end_pos + 1 > glyphs.len() || start_pos > end_pos {
                            return Err("allsorts-emulation: drain out of range".into());
                        }
                        glyphs.drain(start_pos + 1..end_pos + 1);
                        glyphs[start_pos] = lg;
                        i -= end_pos - start_pos;
                        if state != 0 {
                            stack.push(lg);
                        }
                    }
                    if action & 0x8000_0000 != 0 {
                        break;
                    }
                }
            }
            if flags & 0x4000 == 0 {
                break;
            }
            stack.clear();
        }
        i += 1;
    }
    Ok(())
}

fn apply_noncontextual(body: Blk, glyphs: &mut Vec<u16>, num_glyphs: u16) -> R<()> {
    for g in glyphs.iter_mut() {
        if *g == 0xFFFF {
            continue;
        }
        if let Some(v) = lookup(body, *g, num_glyphs)? {
            if v >= num_glyphs {
                return Err("substitute >= num_glyphs".into());
            }
            *g = v;
        }
    }
    Ok(())
}

/// Structure-only check of the two subtable types allsorts does not interpret.
fn lint_other(body: Blk, kind: u8, probe: &[u16], num_glyphs: u16) -> R<()> {
    let stx = read_stx(body, if kind == 5 { 1 } else { 0 })?;
    let esz = if kind == 5 { 8 } else { 4 };
    let n_states = stx.state.len() / (2 * stx.n_classes);
    let n_entries = stx.entry.len() / esz;
    for s in 0..n_states {
        for c in 0..stx.n_classes {
            let ei = stx.entry_index(s, c)?;
            if ei >= n_entries {
                return Err("entry index beyond entry table".into());
            }
            if stx.entry.u16(esz * ei)? as usize >= n_states {
                return Err("newState beyond state array".into());
            }
            if kind == 5 {
                let flags = stx.entry.u16(8 * ei + 2)?;
                let cur = stx.entry.u16(8 * ei + 4)?;
                let mk = stx.entry.u16(8 * ei + 6)?;
                let cur_n = ((flags >> 5) & 0x1F) as usize;
                let mk_n = (flags & 0x1F) as usize;
                let list = stx.extras[0];
                if cur != 0xFFFF {
                    for k in 0..cur_n {
                        if list.u16(2 * (cur as usize + k))? >= num_glyphs {
                            return Err("inserted glyph >= num_glyphs".into());
                        }
                    }
                }
                if mk != 0xFFFF {
                    for k in 0..mk_n {
                        if list.u16(2 * (mk as usize + k))? >= num_glyphs {
                            return Err("inserted glyph >= num_glyphs".into());
                        }
                    }
                }
            }
        }
    }
    for &g in probe {
        class_of(stx.class, g, num_glyphs, stx.n_classes)?;
    }
    Ok(())
}

fn applied_with_default_mask(t: u16, s: u16) -> bool {
    // LIGA, CLIG set; HLIG, FRAC, AFRC, ZERO not set
    matches!((t, s), (1, 2) | (1, 18) | (1, 21) | (11, 0) | (14, 5))
}

pub struct Outcome {
    pub glyphs: Vec<u16>,
    /// kinds of the subtables that were applied, in order
    #[allow(dead_code)]
    pub applied: Vec<u8>,
}

/// Strictly walk the table and apply it to `input` the way a spec-following implementation would.
/// Which of allsorts' known deviations from the spec to emulate.
#[derive(Clone, Copy, Default)]
pub struct Quirks {
    /// ligature: glyph snapshots on the stack, a single `start_pos`, stack cleared on DONT_ADVANCE,
    /// ligature re-pushed only if the next state is not 0
    pub ligature: bool,
    /// contextual: the marked glyph is looked up by the id it had when the mark was set
    pub stale_mark: bool,
    /// contextual: after DONT_ADVANCE the current glyph is looked up by the id it had before substitution
    pub stale_current: bool,
}

impl Quirks {
    pub const NONE: Quirks = Quirks { ligature: false, stale_mark: false, stale_current: false };
    pub const ALL: Quirks = Quirks { ligature: true, stale_mark: true, stale_current: true };
}

/// Strictly walk the table and apply it to `input` the way a spec-following implementation would.
pub fn apply(morx: &[u8], num_glyphs: u16, input: &[u16]) -> R<Outcome> {
    apply_mode(morx, num_glyphs, input, Quirks::NONE)
}

pub fn apply_mode(morx: &[u8], num_glyphs: u16, input: &[u16], quirks: Quirks) -> R<Outcome> {
    let all = Blk(morx);
    let version = all.u16(0)?;
    if version != 2 && version != 3 {
        return Err("version".into());
    }
    if all.u16(2)? != 0 {
        return Err("unused field not zero".into());
    }
    let n_chains = all.u32(4)? as usize;
    let mut glyphs = input.to_vec();
    let mut applied = Vec::new();
    let mut pos = 8usize;
    for _ in 0..n_chains {
        let default_flags = all.u32(pos)?;
        let chain_len = all.u32(pos + 4)? as usize;
        let n_feat = all.u32(pos + 8)? as usize;
        let n_sub = all.u32(pos + 12)? as usize;
        if chain_len % 4 != 0 {
            return Err("chain length not a multiple of 4".into());
        }
        let chain = all.sub(pos, pos + chain_len)?;
        let mut flags = default_flags;
        for f in 0..n_feat {
            let o = 16 + 12 * f;
            let (t, s) = (chain.u16(o)?, chain.u16(o + 2)?);
            let (en, dis) = (chain.u32(o + 4)?, chain.u32(o + 8)?);
            if applied_with_default_mask(t, s) {
                flags = (flags & dis) | en;
            }
        }
        let mut p = 16 + 12 * n_feat;
        for _ in 0..n_sub {
            let length = chain.u32(p)? as usize;
            let coverage = chain.u32(p + 4)?;
            let sff = chain.u32(p + 8)?;
            if length % 4 != 0 || length < 12 {
                return Err("subtable length".into());
            }
            if coverage & 0x0FFF_FF00 != 0 {
                return Err("reserved coverage bits set".into());
            }
            let body = chain.sub(p + 12, p + length)?;
            let kind = (coverage & 0xFF) as u8;
            if kind == 0 || kind == 5 {
                lint_other(body, kind, input, num_glyphs)?;
            }
            if flags & sff != 0 {
                match kind {
                    1 => apply_contextual(body, &mut glyphs, num_glyphs, quirks)?,
                    2 if quirks.ligature => apply_ligature_allsorts(body, &mut glyphs, num_glyphs)?,
                    2 => apply_ligature(body, &mut glyphs, num_glyphs)?,
                    4 => apply_noncontextual(body, &mut glyphs, num_glyphs)?,
                    0 | 5 => {}
                    k => return Err(format!("subtable type {}", k)),
                }
                applied.push(kind);
            } else {
                // still walk inactive subtables strictly, on a scratch copy
                let mut scratch = input.to_vec();
                match kind {
                    1 => apply_contextual(body, &mut scratch, num_glyphs, Quirks::NONE)?,
                    2 => apply_ligature(body, &mut scratch, num_glyphs)?,
                    4 => apply_noncontextual(body, &mut scratch, num_glyphs)?,
                    _ => {}
                }
            }
            p += length;
        }
        if version == 3 {
            let field = (((num_glyphs as usize) + 7) / 8 + 3) & !3;
            for k in 0..n_sub {
                let o = chain.u32(p + 4 * k)? as usize;
                chain.sub(p + o, p + o + field)?;
            }
            p += n_sub * (4 + field);
        }
        if p != chain_len {
            return Err(format!("chain length {} but contents end at {}", chain_len, p));
        }
        pos += chain_len;
    }
    if pos != morx.len() {
        return Err("trailing bytes after last chain".into());
    }
    glyphs.retain(|&g| g != 0xFFFF);
    Ok(Outcome { glyphs, applied })
}

use std::borrow::Cow;
use std::collections::{BTreeMap, HashMap};
use std::panic::{catch_unwind, AssertUnwindSafe};

use allsorts::binary::read::ReadScope;
use allsorts::error::ParseError;
use allsorts::font::MatchingPresentation;
use allsorts::gsub::{FeatureInfo, FeatureMask, Features};
use allsorts::tables::morx::{MorxTable, SubtableType};
use allsorts::tables::FontTableProvider;
use allsorts::{tag, Font};

use morx_dev::morx_build::*;

mod refimpl;

const N_VARIANTS: u64 = 2000;

// ------------------------------------------------------------------------------------------
// in-memory provider: all tables of an sfnt file except GSUB, plus a supplied morx
// ------------------------------------------------------------------------------------------

struct Sfnt {
    tables: HashMap<u32, Vec<u8>>,
}

fn split_sfnt(data: &[u8]) -> Sfnt {
    let u16at = |o: usize| u16::from_be_bytes([data[o], data[o + 1]]) as usize;
    let u32at = |o: usize| u32::from_be_bytes([data[o], data[o + 1], data[o + 2], data[o + 3]]);
    let num_tables = u16at(4);
    let mut tables = HashMap::new();
    for i in 0..num_tables {
        let rec = 12 + 16 * i;
        let tag = u32at(rec);
        let off = u32at(rec + 8) as usize;
        let len = u32at(rec + 12) as usize;
        tables.insert(tag, data[off..off + len].to_vec());
    }
    Sfnt { tables }
}

struct Provider<'a> {
    sfnt: &'a Sfnt,
    morx: Vec<u8>,
}

impl<'a> FontTableProvider for Provider<'a> {
    fn table_data(&self, tag: u32) -> Result<Option<Cow<'_, [u8]>>, ParseError> {
        if tag == tag::GSUB {
            return Ok(None);
        }
        if tag == tag::MORX {
            return Ok(Some(Cow::Borrowed(&self.morx)));
        }
        Ok(self.sfnt.tables.get(&tag).map(|v| Cow::Borrowed(v.as_slice())))
    }
    fn has_table(&self, tag: u32) -> bool {
        tag != tag::GSUB && (tag == tag::MORX || self.sfnt.tables.contains_key(&tag))
    }
    fn table_tags(&self) -> Option<Vec<u32>> {
        let mut v: Vec<u32> = self.sfnt.tables.keys().copied().filter(|t| *t != tag::GSUB).collect();
        v.push(tag::MORX);
        Some(v)
    }
}

struct Case {
    name: &'static str,
    path: &'static str,
    text: &'static str,
    script: u32,
}

const CASES: &[Case] = &[
    Case {
        name: "Klei/latin",
        path: "/repo/tests/fonts/opentype/Klei.otf",
        text: "Shaping in a jiffy: affluent office waffles",
        script: tag::LATN,
    },
    Case {
        name: "OpenSans/short",
        path: "/repo/tests/fonts/opentype/OpenSans-Regular.ttf",
        text: "abba cab",
        script: tag::LATN,
    },
    Case {
        name: "NotoSansJP/mixed",
        path: "/repo/tests/fonts/noto/NotoSansJP-Regular.otf",
        text: "Tokyo 東京都 にほんご カタカナ abc 漢字",
        script: tag::LATN,
    },
    Case { name: "SourceCodePro/two", path: "/repo/tests/fonts/opentype/SourceCodePro-Regular.otf", text: "ababab", script: tag::LATN },
];

fn distinct_nonzero(ids: &[u16]) -> Vec<u16> {
    let mut v = Vec::new();
    for &g in ids {
        if g != 0 && !v.contains(&g) {
            v.push(g);
        }
    }
    v
}

fn input_ids(sfnt: &Sfnt, case: &Case) -> (u16, Vec<u16>) {
    // a font without morx to obtain the cmap mapping
    let provider = Provider { sfnt, morx: build_morx(3, &[1, 2], 0) };
    let mut font = Font::new(provider).expect("font");
    let n = font.num_glyphs();
    let glyphs = font.map_glyphs(case.text, case.script, MatchingPresentation::NotRequired);
    (n, glyphs.iter().map(|g| g.glyph_index).collect())
}

/// Returns Ok(output glyph ids) or Err(description)
fn shape_with(sfnt: &Sfnt, case: &Case, morx: Vec<u8>, features: &Features) -> Result<Vec<u16>, String> {
    let provider = Provider { sfnt, morx };
    let res = catch_unwind(AssertUnwindSafe(|| {
        let mut font = Font::new(provider).map_err(|e| format!("Font::new: {:?}", e))?;
        let glyphs = font.map_glyphs(case.text, case.script, MatchingPresentation::NotRequired);
        match font.shape(glyphs, case.script, None, features, None, true) {
            Ok(infos) => Ok(infos.iter().map(|i| i.glyph.glyph_index).collect::<Vec<u16>>()),
            Err((e, _)) => Err(format!("shape error: {:?}", e)),
        }
    }));
    match res {
        Ok(r) => r,
        Err(p) => {
            let msg = p
                .downcast_ref::<String>()
                .cloned()
                .or_else(|| p.downcast_ref::<&str>().map(|s| s.to_string()))
                .unwrap_or_else(|| "?".into());
            Err(format!("PANIC: {}", msg))
        }
    }
}

// ------------------------------------------------------------------------------------------
// 1. parse: every variant, several synthetic (num_glyphs, glyphs) configurations
// ------------------------------------------------------------------------------------------

fn synthetic_configs() -> Vec<(u16, Vec<u16>)> {
    vec![
        (3, vec![1, 2]),
        (5, vec![4, 1, 3]),
        (64, vec![10, 11, 12, 13, 40, 63]),
        (300, (1..=40).map(|i| i * 7).collect()),
        (1000, vec![999, 1, 500, 250, 251, 252, 998]),
        (5000, (0..30).map(|i| 100 + i * 150).collect()),
        (40000, vec![5, 39999, 20000, 20001, 6, 7, 300, 301, 30000]),
        (65535, vec![65534, 1, 2, 40000, 40001, 3, 4, 65533, 32768]),
    ]
}

fn check_parse(num_glyphs: u16, glyphs: &[u16], variant: u64, seen: &mut Coverage) {
    let bytes = build_morx(num_glyphs, glyphs, variant);
    let again = build_morx(num_glyphs, glyphs, variant);
    assert_eq!(bytes, again, "determinism, variant {}", variant);
    assert_eq!(describe(num_glyphs, glyphs, variant), describe(num_glyphs, glyphs, variant));
    assert_eq!(bytes.len() % 4, 0);
    let morx = match ReadScope::new(&bytes).read_dep::<MorxTable<'_>>(num_glyphs) {
        Ok(m) => m,
        Err(e) => panic!(
            "parse failed n={} glyphs={:?} variant={}: {:?}\n{}",
            num_glyphs,
            glyphs,
            variant,
            e,
            describe(num_glyphs, glyphs, variant)
        ),
    };
    // strict, independent walk of the raw bytes on a synthetic text
    let mut text: Vec<u16> = glyphs.to_vec();
    text.extend(glyphs.iter().rev());
    text.extend(glyphs.iter());
    if let Err(e) = refimpl::apply(&bytes, num_glyphs, &text) {
        panic!(
            "reference walk failed n={} glyphs={:?} variant={}: {}\n{}",
            num_glyphs,
            glyphs,
            variant,
            e,
            describe(num_glyphs, glyphs, variant)
        );
    }
    let summary = subtable_summary(num_glyphs, glyphs, variant);
    assert_eq!(morx.version, variant_version(num_glyphs, glyphs, variant));
    let mut k = 0;
    *seen.chains.entry(morx.chains.len()).or_default() += 1;
    *seen.versions.entry(morx.version).or_default() += 1;
    for (ci, chain) in morx.chains.iter().enumerate() {
        *seen.subtables_per_chain.entry(chain.subtables.len()).or_default() += 1;
        *seen.features_per_chain.entry(chain.feature_array.len()).or_default() += 1;
        for (si, st) in chain.subtables.iter().enumerate() {
            let s = &summary[k];
            k += 1;
            assert_eq!((s.chain, s.index), (ci, si));
            assert_eq!(st.subtable_header.coverage, s.coverage);
            assert_eq!(st.subtable_header.sub_feature_flags, s.sub_feature_flags);
            assert_eq!(
                s.intersects_default_flags,
                chain.chain_header.default_flags & s.sub_feature_flags != 0
            );
            let kind = (s.coverage & 0xFF) as u8;
            assert_eq!(kind, s.kind);
            *seen.kinds.entry(kind).or_default() += 1;
            *seen.cov_flags.entry(s.coverage >> 28).or_default() += 1;
            *seen
                .flag_relation
                .entry((s.intersects_default_flags, s.active_with_default_mask))
                .or_default() += 1;
            match &st.subtable_body {
                SubtableType::Contextual { contextual_subtable } => {
                    assert_eq!(kind, 1);
                    seen.class_fmt(1, &contextual_subtable.class_table.lookup_table);
                    assert!(!contextual_subtable.substitution_subtables.is_empty());
                    for t in &contextual_subtable.substitution_subtables {
                        seen.subst_fmt(1, &t.lookup_table);
                    }
                }
                SubtableType::Ligature { ligature_subtable } => {
                    assert_eq!(kind, 2);
                    seen.class_fmt(2, &ligature_subtable.class_table.lookup_table);
                    assert!(!ligature_subtable.action_table.actions.is_empty());
                }
                SubtableType::NonContextual { noncontextual_subtable } => {
                    assert_eq!(kind, 4);
                    seen.subst_fmt(4, &noncontextual_subtable.lookup_table.lookup_table);
                }
                SubtableType::Other { .. } => assert!(kind == 0 || kind == 5),
            }
        }
    }
    assert_eq!(k, summary.len());
}

#[derive(Default)]
struct Coverage {
    chains: BTreeMap<usize, u32>,
    versions: BTreeMap<u16, u32>,
    subtables_per_chain: BTreeMap<usize, u32>,
    features_per_chain: BTreeMap<usize, u32>,
    kinds: BTreeMap<u8, u32>,
    cov_flags: BTreeMap<u32, u32>,
    /// (intersects chain default flags, active with default mask)
    flag_relation: BTreeMap<(bool, bool), u32>,
    class_fmts: BTreeMap<(u8, u16), u32>,
    subst_fmts: BTreeMap<(u8, u16), u32>,
}

fn fmt_of(t: &allsorts::tables::morx::LookupTable<'_>) -> u16 {
    use allsorts::tables::morx::LookupTable::*;
    match t {
        Format0 { .. } => 0,
        Format2 { .. } => 2,
        Format4 { .. } => 4,
        Format6 { .. } => 6,
        Format8(_) => 8,
        Format10(_) => 10,
    }
}

impl Coverage {
    fn class_fmt(&mut self, kind: u8, t: &allsorts::tables::morx::LookupTable<'_>) {
        *self.class_fmts.entry((kind, fmt_of(t))).or_default() += 1;
    }
    fn subst_fmt(&mut self, kind: u8, t: &allsorts::tables::morx::LookupTable<'_>) {
        *self.subst_fmts.entry((kind, fmt_of(t))).or_default() += 1;
    }
}

#[test]
fn t1_parse_all_variants_synthetic() {
    let mut total = 0u64;
    let mut seen = Coverage::default();
    for (n, glyphs) in synthetic_configs() {
        for v in 0..N_VARIANTS {
            check_parse(n, &glyphs, v, &mut seen);
            total += 1;
        }
    }
    // a few far away seeds
    for v in [u64::MAX, u64::MAX - 1, 1 << 40, 0xdead_beef_0000_0001] {
        check_parse(300, &[5, 6, 7, 8, 250], v, &mut seen);
        total += 1;
    }
    println!("PARSE: {} tables parsed OK", total);
    println!("  chains per table      {:?}", seen.chains);
    println!("  versions              {:?}", seen.versions);
    println!("  subtables per chain   {:?}", seen.subtables_per_chain);
    println!("  features per chain    {:?}", seen.features_per_chain);
    println!("  subtable kinds        {:?}", seen.kinds);
    println!("  coverage top nibble   {:?}", seen.cov_flags);
    println!("  (intersects default flags, active w/ default mask) {:?}", seen.flag_relation);
    println!("  class table formats (kind, fmt)  {:?}", seen.class_fmts);
    println!("  subst table formats (kind, fmt)  {:?}", seen.subst_fmts);
    for k in [0u8, 1, 2, 4, 5] {
        assert!(seen.kinds.contains_key(&k), "kind {} never generated", k);
    }
    for c in 1..=3 {
        assert!(seen.chains.contains_key(&c));
    }
    for c in 1..=4 {
        assert!(seen.subtables_per_chain.contains_key(&c));
    }
    for f in [0u16, 2, 4, 6, 8, 10] {
        for k in [1u8, 2] {
            assert!(seen.class_fmts.contains_key(&(k, f)), "class fmt {} for kind {}", f, k);
        }
        for k in [1u8, 4] {
            assert!(seen.subst_fmts.contains_key(&(k, f)), "subst fmt {} for kind {}", f, k);
        }
    }
    for rel in [(true, true), (true, false), (false, true), (false, false)] {
        assert!(seen.flag_relation.contains_key(&rel), "flag relation {:?}", rel);
    }
    for nib in [0u32, 1, 2, 4, 5, 6, 8] {
        assert!(seen.cov_flags.contains_key(&nib), "coverage nibble {:x}", nib);
    }
}

#[test]
fn t1b_degenerate_inputs_still_parse() {
    for (n, g) in [(0u16, vec![]), (1, vec![0]), (2, vec![1]), (10, vec![]), (10, vec![3]), (10, vec![0, 20, 3, 3])] {
        for v in 0..20 {
            let bytes = build_morx(n, &g, v);
            ReadScope::new(&bytes).read_dep::<MorxTable<'_>>(n).expect("degenerate parse");
        }
    }
}

// ------------------------------------------------------------------------------------------
// 2. shape with real fonts
// ------------------------------------------------------------------------------------------

#[derive(Default, Clone, Copy)]
struct Tally {
    n: u32,
    changed: u32,
}

impl Tally {
    fn add(&mut self, changed: bool) {
        self.n += 1;
        if changed {
            self.changed += 1;
        }
    }
    fn pct(&self) -> f64 {
        if self.n == 0 {
            0.0
        } else {
            100.0 * self.changed as f64 / self.n as f64
        }
    }
}

#[test]
fn t2_shape_real_fonts() {
    let mut grand = Tally::default();
    let mut grand_primary: BTreeMap<u8, Tally> = BTreeMap::new();
    let mut grand_pure: BTreeMap<u8, Tally> = BTreeMap::new();
    let mut grand_with: BTreeMap<u8, Tally> = BTreeMap::new();
    for case in CASES {
        let data = std::fs::read(case.path).expect("font file");
        let sfnt = split_sfnt(&data);
        assert!(!sfnt.tables.contains_key(&tag::MORX));
        let (num_glyphs, input) = input_ids(&sfnt, case);
        let glyphs = distinct_nonzero(&input);
        assert!(glyphs.len() >= 2);
        let default_features = Features::Mask(FeatureMask::default());
        let custom_features = Features::Custom(vec![FeatureInfo { feature_tag: tag::LIGA, alternate: None }]);

        let mut all = Tally::default();
        // variants that contain at least one ACTIVE subtable of the kind
        let mut with_active_kind: BTreeMap<u8, Tally> = BTreeMap::new();
        // variants whose ACTIVE substituting subtables are all of one kind
        let mut pure_kind: BTreeMap<u8, Tally> = BTreeMap::new();
        // by kind of the first subtable of the first chain
        let mut by_primary: BTreeMap<u8, Tally> = BTreeMap::new();
        let mut no_active = Tally::default();
        let mut custom_changed = 0u32;
        let mut seen = Coverage::default();
        let mut agree = 0u32;
        let mut causes: BTreeMap<&'static str, u32> = BTreeMap::new();

        for v in 0..N_VARIANTS {
            check_parse(num_glyphs, &glyphs, v, &mut seen);
            let bytes = build_morx(num_glyphs, &glyphs, v);
            let out = match shape_with(&sfnt, case, bytes.clone(), &default_features) {
                Ok(o) => o,
                Err(e) => panic!("{} variant {}: {}\n{}", case.name, v, e, describe(num_glyphs, &glyphs, v)),
            };
            assert!(
                out.iter().all(|&g| g < num_glyphs),
                "{} variant {}: output glyph out of range",
                case.name,
                v
            );
            let changed = out != input;
            // compare with the strict reference implementation
            let reference = match refimpl::apply(&bytes, num_glyphs, &input) {
                Ok(r) => r,
                Err(e) => panic!("{} variant {}: reference: {}\n{}", case.name, v, e, describe(num_glyphs, &glyphs, v)),
            };
            let emulated = refimpl::apply_mode(&bytes, num_glyphs, &input, refimpl::Quirks::ALL).expect("emulation");
            assert_eq!(
                emulated.glyphs,
                out,
                "{} variant {}: allsorts output differs from the allsorts-emulating reference\n{}",
                case.name,
                v,
                describe(num_glyphs, &glyphs, v)
            );
            if reference.glyphs != out {
                // which single deviation explains the difference?
                let q = |ligature, stale_mark, stale_current| {
                    refimpl::apply_mode(&bytes, num_glyphs, &input, refimpl::Quirks { ligature, stale_mark, stale_current })
                        .expect("emulation")
                        .glyphs
                        == out
                };
                let cause = if q(true, false, false) {
                    if describe(num_glyphs, &glyphs, v).contains("fail=B") {
                        "ligature stack (fail=B subtable present)"
                    } else {
                        "ligature stack (no fail=B subtable!)"
                    }
                } else if q(false, true, false) {
                    "contextual stale mark glyph"
                } else if q(false, false, true) {
                    "contextual stale current glyph after DONT_ADVANCE"
                } else {
                    "combination"
                };
                *causes.entry(cause).or_default() += 1;
            } else {
                agree += 1;
            }
            all.add(changed);
            grand.add(changed);

            let summary = subtable_summary(num_glyphs, &glyphs, v);
            let mut active_kinds: Vec<u8> = summary
                .iter()
                .filter(|s| s.active_with_default_mask && matches!(s.kind, 1 | 2 | 4))
                .map(|s| s.kind)
                .collect();
            active_kinds.sort_unstable();
            active_kinds.dedup();
            for k in &active_kinds {
                with_active_kind.entry(*k).or_default().add(changed);
                grand_with.entry(*k).or_default().add(changed);
            }
            if active_kinds.len() == 1 {
                pure_kind.entry(active_kinds[0]).or_default().add(changed);
                grand_pure.entry(active_kinds[0]).or_default().add(changed);
            }
            if active_kinds.is_empty() {
                no_active.add(changed);
                assert!(
                    !changed,
                    "{} variant {}: changed although no subtable should be active\n{}",
                    case.name,
                    v,
                    describe(num_glyphs, &glyphs, v)
                );
            }
            by_primary.entry(summary[0].kind).or_default().add(changed);
            grand_primary.entry(summary[0].kind).or_default().add(changed);

            // Features::Custom -> chain default flags are used unmodified
            if v % 4 == 0 {
                let out2 = match shape_with(&sfnt, case, bytes, &custom_features) {
                    Ok(o) => o,
                    Err(e) => panic!("{} variant {} (custom): {}", case.name, v, e),
                };
                if out2 != input {
                    custom_changed += 1;
                }
            }
        }
        println!(
            "SHAPE {}: num_glyphs={} text glyphs={} distinct={} variants={} all Ok; changed {}/{} = {:.1}%",
            case.name,
            num_glyphs,
            input.len(),
            glyphs.len(),
            N_VARIANTS,
            all.changed,
            all.n,
            all.pct()
        );
        for (k, t) in &by_primary {
            println!("   first subtable kind {}: changed {}/{} = {:.1}%", k, t.changed, t.n, t.pct());
        }
        for (k, t) in &with_active_kind {
            println!("   has active subtable of kind {}: changed {}/{} = {:.1}%", k, t.changed, t.n, t.pct());
        }
        for (k, t) in &pure_kind {
            println!("   only active substituting kind is {}: changed {}/{} = {:.1}%", k, t.changed, t.n, t.pct());
        }
        println!("   no active substituting subtable: {} variants, changed {}", no_active.n, no_active.changed);
        println!("   allsorts == allsorts-emulating reference for all variants; == strict spec reference for {}; differences by cause: {:?}", agree, causes);
        assert!(!causes.contains_key("ligature stack (no fail=B subtable!)"));
        println!("   Features::Custom (every 4th variant): changed {}/{}", custom_changed, N_VARIANTS / 4);
        assert!(all.pct() >= 40.0, "{}: share of changed variants too low", case.name);
    }
    println!("SHAPE TOTAL: changed {}/{} = {:.1}%", grand.changed, grand.n, grand.pct());
    for (k, t) in &grand_primary {
        println!("   TOTAL first subtable kind {}: changed {}/{} = {:.1}%", k, t.changed, t.n, t.pct());
    }
    for (k, t) in &grand_with {
        println!("   TOTAL has active subtable of kind {}: changed {}/{} = {:.1}%", k, t.changed, t.n, t.pct());
    }
    for (k, t) in &grand_pure {
        println!("   TOTAL only active substituting kind is {}: changed {}/{} = {:.1}%", k, t.changed, t.n, t.pct());
    }
}

// ------------------------------------------------------------------------------------------
// 3. hazards: spec-valid tables that allsorts mishandles (documented in NOTES.md)
// ------------------------------------------------------------------------------------------

fn shape_ids(sfnt: &Sfnt, morx: Vec<u8>, ids: &[u16]) -> Result<Vec<u16>, String> {
    use allsorts::gsub::{GlyphOrigin, RawGlyph, RawGlyphFlags};
    let provider = Provider { sfnt, morx };
    let res = catch_unwind(AssertUnwindSafe(|| {
        let mut font = Font::new(provider).map_err(|e| format!("Font::new: {:?}", e))?;
        let glyphs: Vec<RawGlyph<()>> = ids
            .iter()
            .map(|&g| RawGlyph {
                unicodes: Default::default(),
                glyph_index: g,
                liga_component_pos: 0,
                glyph_origin: GlyphOrigin::Direct,
                flags: RawGlyphFlags::empty(),
                variation: None,
                extra_data: (),
            })
            .collect();
        match font.shape(glyphs, tag::LATN, None, &Features::Mask(FeatureMask::default()), None, false) {
            Ok(infos) => Ok(infos.iter().map(|i| i.glyph.glyph_index).collect::<Vec<u16>>()),
            Err((e, _)) => Err(format!("shape error: {:?}", e)),
        }
    }));
    match res {
        Ok(r) => r,
        Err(p) => {
            let msg = p
                .downcast_ref::<String>()
                .cloned()
                .or_else(|| p.downcast_ref::<&str>().map(|s| s.to_string()))
                .unwrap_or_else(|| "?".into());
            Err(format!("PANIC: {}", msg))
        }
    }
}

#[test]
fn t3_hazards() {
    let data = std::fs::read("/repo/tests/fonts/opentype/Klei.otf").unwrap();
    let sfnt = split_sfnt(&data);
    let (num_glyphs, _) = input_ids(&sfnt, &CASES[0]);
    let (a, b, x) = (40u16, 41u16, 50u16);
    let lig = 1u16;
    // (text, what a spec-following implementation produces)
    let texts: [(Vec<u16>, Vec<u16>); 4] = [
        (vec![a, x], vec![lig, x]),
        (vec![a, a, b], vec![lig]),
        (vec![a, x, a, b], vec![a, x, lig]),
        (vec![a, b], vec![lig]),
    ];
    for h in 0..HAZARD_COUNT {
        let (text, expected) = &texts[h as usize];
        let bytes = build_morx_hazard(num_glyphs, &[a, b], h).unwrap();
        let parsed = ReadScope::new(&bytes).read_dep::<MorxTable<'_>>(num_glyphs);
        assert!(parsed.is_ok());
        // the strict reference accepts the table and produces the expected result: the table is well-formed
        let reference = refimpl::apply(&bytes, num_glyphs, text).expect("hazard tables are valid");
        assert_eq!(&reference.glyphs, expected, "hazard {}", h);
        let r = shape_ids(&sfnt, bytes.clone(), text);
        println!("HAZARD {} ({})\n    input={:?} spec result={:?} allsorts -> {:?}", h, hazard_name(h), text, expected, r);
        match h {
            0 | 1 => assert!(matches!(&r, Err(e) if e.starts_with("PANIC")), "hazard {} no longer panics: {:?}", h, r),
            2 => assert_eq!(r, Ok(vec![lig]), "hazard 2"),
            3 => assert!(matches!(&r, Err(e) if e.contains("MissingValue")), "hazard 3: {:?}", r),
            _ => {}
        }
    }
}

// ------------------------------------------------------------------------------------------
// 4. glyph lists that are NOT in text order / contain glyphs absent from the text
// ------------------------------------------------------------------------------------------

#[test]
fn t4_other_glyph_list_orders() {
    let case = &CASES[0];
    let data = std::fs::read(case.path).unwrap();
    let sfnt = split_sfnt(&data);
    let (num_glyphs, input) = input_ids(&sfnt, case);
    let in_order = distinct_nonzero(&input);
    let mut sorted = in_order.clone();
    sorted.sort_unstable();
    let mut reversed = in_order.clone();
    reversed.reverse();
    let mut with_strangers: Vec<u16> = vec![700, 5, 600];
    with_strangers.extend(in_order.iter().step_by(2));
    let two_only = vec![in_order[3], in_order[1]];
    let features = Features::Mask(FeatureMask::default());
    for (name, list) in
        [("sorted", sorted), ("reversed", reversed), ("with-strangers", with_strangers), ("two-only", two_only)]
    {
        let mut t = Tally::default();
        let mut max_len = 0usize;
        for v in 0..1000u64 {
            let bytes = build_morx(num_glyphs, &list, v);
            max_len = max_len.max(bytes.len());
            let out = match shape_with(&sfnt, case, bytes.clone(), &features) {
                Ok(o) => o,
                Err(e) => panic!("{} variant {}: {}\n{}", name, v, e, describe(num_glyphs, &list, v)),
            };
            let emulated = refimpl::apply_mode(&bytes, num_glyphs, &input, refimpl::Quirks::ALL).expect("reference");
            assert_eq!(emulated.glyphs, out, "{} variant {}", name, v);
            t.add(out != input);
        }
        println!("ORDER {}: {} glyphs listed; changed {}/{} = {:.1}% ; largest table {} bytes", name, list.len(), t.changed, t.n, t.pct(), max_len);
        assert!(t.pct() >= 40.0);
    }
}

#[test]
fn t5_sizes() {
    for (n, glyphs) in synthetic_configs() {
        let mut max_len = 0usize;
        let mut sum = 0usize;
        for v in 0..N_VARIANTS {
            let l = build_morx(n, &glyphs, v).len();
            max_len = max_len.max(l);
            sum += l;
        }
        println!("SIZE num_glyphs={} listed={}: mean {} bytes, max {} bytes", n, glyphs.len(), sum / N_VARIANTS as usize, max_len);
    }
}

//! Acceptance tests for /tmp/builder-woff2/woff2_build.rs against allsorts' WOFF2 decoder.

use std::collections::{BTreeMap, BTreeSet};
use std::path::{Path, PathBuf};
use std::sync::Mutex;

use allsorts::binary::read::ReadScope;
use allsorts::font_data::FontData;
use allsorts::tables::glyf::{CompositeGlyphComponent, CompositeGlyphs, GlyfTable, Glyph};
use allsorts::tables::loca::LocaTable;
use allsorts::tables::{FontTableProvider, IndexToLocFormat};

use dev::woff2_build::*;

const fn tg(b: &[u8; 4]) -> u32 {
    ((b[0] as u32) << 24) | ((b[1] as u32) << 16) | ((b[2] as u32) << 8) | (b[3] as u32)
}
const GLYF: u32 = tg(b"glyf");
const LOCA: u32 = tg(b"loca");
const HEAD: u32 = tg(b"head");
const HHEA: u32 = tg(b"hhea");
const HMTX: u32 = tg(b"hmtx");
const MAXP: u32 = tg(b"maxp");

fn tag_str(t: u32) -> String {
    String::from_utf8_lossy(&t.to_be_bytes()).into_owned()
}
fn be16(d: &[u8], p: usize) -> Option<u16> {
    d.get(p..p + 2).map(|b| u16::from_be_bytes([b[0], b[1]]))
}
fn be32(d: &[u8], p: usize) -> Option<u32> {
    d.get(p..p + 4).map(|b| u32::from_be_bytes([b[0], b[1], b[2], b[3]]))
}

// ---------------------------------------------------------------------------------------------
// sfnt splitting by hand

fn split_sfnt(d: &[u8]) -> Option<(u32, Vec<(u32, Vec<u8>)>)> {
    let flavour = be32(d, 0)?;
    if !(flavour == 0x0001_0000 || flavour == tg(b"OTTO") || flavour == tg(b"true")) {
        return None;
    }
    let n = usize::from(be16(d, 4)?);
    let mut tables = Vec::new();
    for i in 0..n {
        let r = 12 + 16 * i;
        let tag = be32(d, r)?;
        let off = be32(d, r + 8)? as usize;
        let len = be32(d, r + 12)? as usize;
        let data = d.get(off..off.checked_add(len)?)?;
        tables.push((tag, data.to_vec()));
    }
    Some((flavour, tables))
}

fn walk(dir: &Path, out: &mut Vec<PathBuf>) {
    let mut entries: Vec<_> = std::fs::read_dir(dir).unwrap().map(|e| e.unwrap().path()).collect();
    entries.sort();
    for p in entries {
        if p.is_dir() {
            walk(&p, out);
        } else {
            out.push(p);
        }
    }
}

// ---------------------------------------------------------------------------------------------
// Canonical glyph form (via allsorts' GlyfTable)

#[derive(Debug, PartialEq, Clone)]
enum Canon {
    Empty,
    Simple { end_pts: Vec<u16>, pts: Vec<(bool, i16, i16)>, instr: Vec<u8>, bbox: [i16; 4] },
    Composite { bbox: [i16; 4], comps: Vec<CompositeGlyphComponent>, instr: Vec<u8> },
}

fn canon_of(g: &Glyph<'_>, zero_contour_with_data: &mut usize) -> Canon {
    match g {
        Glyph::Empty(_) => Canon::Empty,
        Glyph::Simple(s) => {
            if s.end_pts_of_contours.is_empty() {
                *zero_contour_with_data += 1;
                return Canon::Empty;
            }
            let b = s.bounding_box;
            Canon::Simple {
                end_pts: s.end_pts_of_contours.clone(),
                pts: s.coordinates.iter().map(|(f, p)| (f.is_on_curve(), p.0, p.1)).collect(),
                instr: s.instructions.to_vec(),
                bbox: [b.x_min, b.y_min, b.x_max, b.y_max],
            }
        }
        Glyph::Composite(c) => {
            let b = c.bounding_box;
            Canon::Composite { bbox: [b.x_min, b.y_min, b.x_max, b.y_max], comps: c.glyphs.clone(), instr: c.instructions.to_vec() }
        }
    }
}

fn canon_table(glyf: &[u8], loca: &[u8], ng: usize, fmt: IndexToLocFormat) -> Result<(Vec<Canon>, usize), String> {
    let loca_t = ReadScope::new(loca).read_dep::<LocaTable<'_>>((ng, fmt)).map_err(|e| format!("loca: {:?}", e))?;
    let mut table = ReadScope::new(glyf).read_dep::<GlyfTable<'_>>(&loca_t).map_err(|e| format!("glyf: {:?}", e))?;
    if usize::from(table.num_glyphs()) != ng {
        return Err(format!("glyf has {} records, expected {}", table.num_glyphs(), ng));
    }
    let mut out = Vec::with_capacity(ng);
    let mut z = 0;
    for i in 0..ng {
        let g = table.get_parsed_glyph(i as u16).map_err(|e| format!("glyph {}: {:?}", i, e))?;
        out.push(canon_of(g, &mut z));
    }
    Ok((out, z))
}

fn glyph_ranges(loca: &[u8], ng: usize, long: bool) -> Option<Vec<(usize, usize)>> {
    let off = |i: usize| -> Option<usize> {
        if long {
            be32(loca, i * 4).map(|v| v as usize)
        } else {
            be16(loca, i * 2).map(|v| usize::from(v) * 2)
        }
    };
    (0..ng).map(|i| Some((off(i)?, off(i + 1)?))).collect()
}

/// Raw component flag words of a composite glyph record, None for other glyphs.
fn raw_component_flags(g: &[u8]) -> Option<Vec<u16>> {
    if g.len() < 10 || (be16(g, 0)? as i16) >= 0 {
        return None;
    }
    let mut p = 10;
    let mut out = Vec::new();
    loop {
        let f = be16(g, p)?;
        out.push(f);
        p += 4 + if f & 1 != 0 { 4 } else { 2 } + if f & 8 != 0 { 2 } else if f & 0x40 != 0 { 4 } else if f & 0x80 != 0 { 8 } else { 0 };
        if f & 0x20 == 0 {
            break;
        }
    }
    Some(out)
}

/// OVERLAP_SIMPLE (bit 6) of the first flag of a simple glyph record.
fn raw_overlap_simple(g: &[u8]) -> bool {
    let n = match be16(g, 0) {
        Some(n) if (n as i16) > 0 => usize::from(n),
        _ => return false,
    };
    let p = 10 + 2 * n;
    let ilen = match be16(g, p) {
        Some(l) => usize::from(l),
        None => return false,
    };
    g.get(p + 2 + ilen).map_or(false, |f| f & 0x40 != 0)
}

// ---------------------------------------------------------------------------------------------
// Reference decoder for the transformed tables, written from the specification (independent of
// allsorts except for the component record parser).

struct Rd<'a> {
    d: &'a [u8],
    p: usize,
}
thread_local! {
    static U255_FORMS: std::cell::Cell<[u64; 4]> = std::cell::Cell::new([0; 4]);
}
impl<'a> Rd<'a> {
    fn u8(&mut self) -> Result<u8, String> {
        let v = *self.d.get(self.p).ok_or("eof")?;
        self.p += 1;
        Ok(v)
    }
    fn u16(&mut self) -> Result<u16, String> {
        Ok(u16::from(self.u8()?) << 8 | u16::from(self.u8()?))
    }
    fn u32(&mut self) -> Result<u32, String> {
        Ok(u32::from(self.u16()?) << 16 | u32::from(self.u16()?))
    }
    fn take(&mut self, n: usize) -> Result<&'a [u8], String> {
        let s = self.d.get(self.p..self.p.checked_add(n).ok_or("ovf")?).ok_or("eof")?;
        self.p += n;
        Ok(s)
    }
    fn u255(&mut self) -> Result<u16, String> {
        let c = self.u8()?;
        let form = match c {
            253 => 3,
            254 => 2,
            255 => 1,
            _ => 0,
        };
        U255_FORMS.with(|f| {
            let mut v = f.get();
            v[form] += 1;
            f.set(v);
        });
        Ok(match c {
            253 => self.u16()?,
            255 => u16::from(self.u8()?) + 253,
            254 => u16::from(self.u8()?) + 506,
            c => u16::from(c),
        })
    }
    fn done(&self) -> bool {
        self.p == self.d.len()
    }
}

struct RefGlyf {
    glyphs: Vec<Canon>,
    overlap: Vec<bool>,
    index_format: u16,
    trip_used: [u64; 128],
}

fn ref_decode_glyf(t: &[u8]) -> Result<RefGlyf, String> {
    let trip = triplet_table();
    let mut h = Rd { d: t, p: 0 };
    let reserved = h.u16()?;
    if reserved != 0 {
        return Err("reserved != 0".into());
    }
    let option_flags = h.u16()?;
    if option_flags & !1 != 0 {
        return Err("unknown optionFlags".into());
    }
    let ng = usize::from(h.u16()?);
    let index_format = h.u16()?;
    let mut sizes = [0usize; 7];
    for s in sizes.iter_mut() {
        *s = h.u32()? as usize;
    }
    let mut nc = Rd { d: h.take(sizes[0])?, p: 0 };
    let mut np = Rd { d: h.take(sizes[1])?, p: 0 };
    let mut fl = Rd { d: h.take(sizes[2])?, p: 0 };
    let mut gl = Rd { d: h.take(sizes[3])?, p: 0 };
    let mut co = Rd { d: h.take(sizes[4])?, p: 0 };
    let bbs = h.take(sizes[5])?;
    let bm_len = ((ng + 31) >> 5) << 2;
    let bitmap = bbs.get(..bm_len).ok_or("bbox bitmap")?;
    let mut bb = Rd { d: &bbs[bm_len..], p: 0 };
    let mut ins = Rd { d: h.take(sizes[6])?, p: 0 };
    let ovl = if option_flags & 1 != 0 { Some(h.take((ng + 7) >> 3)?) } else { None };
    if !h.done() {
        return Err(format!("{} trailing bytes in transformed glyf", t.len() - h.p));
    }
    let bit = |m: &[u8], i: usize| m[i >> 3] & (0x80 >> (i & 7)) != 0;
    let mut glyphs = Vec::with_capacity(ng);
    let mut overlap = Vec::with_capacity(ng);
    let mut trip_used = [0u64; 128];
    for gid in 0..ng {
        let n = nc.u16()? as i16;
        let explicit = bit(bitmap, gid);
        let ov = ovl.map_or(false, |m| bit(m, gid));
        let read_bbox = |bb: &mut Rd<'_>| -> Result<[i16; 4], String> { Ok([bb.u16()? as i16, bb.u16()? as i16, bb.u16()? as i16, bb.u16()? as i16]) };
        if n == 0 {
            if explicit {
                return Err(format!("glyph {}: empty glyph with bbox", gid));
            }
            glyphs.push(Canon::Empty);
            overlap.push(false);
        } else if n == -1 {
            let start = co.p;
            let mut have_instr = false;
            loop {
                let f = co.u16()?;
                let len = 2 + if f & 1 != 0 { 4 } else { 2 } + if f & 8 != 0 { 2 } else if f & 0x40 != 0 { 4 } else if f & 0x80 != 0 { 8 } else { 0 };
                co.take(len)?;
                have_instr |= f & 0x100 != 0;
                if f & 0x20 == 0 {
                    break;
                }
            }
            let bytes = &co.d[start..co.p];
            let comps = ReadScope::new(bytes).read::<CompositeGlyphs>().map_err(|e| format!("{:?}", e))?.glyphs;
            let instr = if have_instr {
                let l = usize::from(gl.u255()?);
                ins.take(l)?.to_vec()
            } else {
                Vec::new()
            };
            if !explicit {
                return Err(format!("glyph {}: composite without bbox", gid));
            }
            let bbox = read_bbox(&mut bb)?;
            glyphs.push(Canon::Composite { bbox, comps, instr });
            overlap.push(false);
        } else if n > 0 {
            let mut end_pts = Vec::new();
            let mut total = 0u32;
            for _ in 0..n {
                total += u32::from(np.u255()?);
                if total == 0 || total > 65535 {
                    return Err(format!("glyph {}: bad point count", gid));
                }
                end_pts.push((total - 1) as u16);
            }
            let flags = fl.take(total as usize)?;
            let mut pts = Vec::with_capacity(flags.len());
            let (mut x, mut y) = (0i32, 0i32);
            for &f in flags {
                let e = &trip[usize::from(f & 0x7f)];
                trip_used[usize::from(f & 0x7f)] += 1;
                let bytes = gl.take(usize::from(e.byte_count))?;
                let data = bytes.iter().fold(0u64, |a, b| a << 8 | u64::from(*b));
                let tot = u32::from(e.byte_count) * 8;
                let vx = (data >> (tot - u32::from(e.x_bits))) & ((1u64 << e.x_bits) - 1);
                let vy = (data >> (tot - u32::from(e.x_bits) - u32::from(e.y_bits))) & ((1u64 << e.y_bits) - 1);
                let dx = (vx as i32 + i32::from(e.delta_x)) * if e.x_is_negative { -1 } else { 1 };
                let dy = (vy as i32 + i32::from(e.delta_y)) * if e.y_is_negative { -1 } else { 1 };
                x += dx;
                y += dy;
                let (xi, yi) = (i16::try_from(x).map_err(|_| "x ovf")?, i16::try_from(y).map_err(|_| "y ovf")?);
                pts.push((f & 0x80 == 0, xi, yi));
            }
            let l = usize::from(gl.u255()?);
            let instr = ins.take(l)?.to_vec();
            let bbox = if explicit {
                read_bbox(&mut bb)?
            } else {
                let mut b = [pts[0].1, pts[0].2, pts[0].1, pts[0].2];
                for &(_, px, py) in &pts {
                    b = [b[0].min(px), b[1].min(py), b[2].max(px), b[3].max(py)];
                }
                b
            };
            glyphs.push(Canon::Simple { end_pts, pts, instr, bbox });
            overlap.push(ov);
        } else {
            return Err(format!("glyph {}: nContours {}", gid, n));
        }
    }
    for (name, r) in [("nContour", &nc), ("nPoints", &np), ("flag", &fl), ("glyph", &gl), ("composite", &co), ("bbox", &bb), ("instruction", &ins)] {
        if !r.done() {
            return Err(format!("{} stream not fully consumed ({} of {})", name, r.p, r.d.len()));
        }
    }
    Ok(RefGlyf { glyphs, overlap, index_format, trip_used })
}

fn ref_decode_hmtx(t: &[u8], ng: usize, nh: usize, x_min: &[i16]) -> Result<Vec<u8>, String> {
    let mut r = Rd { d: t, p: 0 };
    let flags = r.u8()?;
    if flags & !3 != 0 || flags == 0 {
        return Err(format!("bad hmtx flags {:#x}", flags));
    }
    let aw = r.take(2 * nh)?;
    let lsb: Vec<i16> = if flags & 1 == 0 { (0..nh).map(|_| r.u16().map(|v| v as i16)).collect::<Result<_, _>>()? } else { x_min[..nh].to_vec() };
    let tail: Vec<i16> = if flags & 2 == 0 { (nh..ng).map(|_| r.u16().map(|v| v as i16)).collect::<Result<_, _>>()? } else { x_min[nh..ng].to_vec() };
    if !r.done() {
        return Err("trailing bytes in transformed hmtx".into());
    }
    let mut out = Vec::new();
    for i in 0..nh {
        out.extend_from_slice(&aw[2 * i..2 * i + 2]);
        out.extend_from_slice(&lsb[i].to_be_bytes());
    }
    for v in tail {
        out.extend_from_slice(&v.to_be_bytes());
    }
    Ok(out)
}

fn x_min_of(c: &Canon) -> i16 {
    match c {
        Canon::Empty => 0,
        Canon::Simple { bbox, .. } | Canon::Composite { bbox, .. } => bbox[0],
    }
}

// ---------------------------------------------------------------------------------------------
// Statistics

#[derive(Default)]
struct Stats {
    fonts_seen: usize,
    fonts_tested: Vec<String>,
    fonts_skipped: Vec<String>,
    builds: usize,
    builds_glyf_tx: usize,
    builds_hmtx_tx: usize,
    glyphs_compared: u64,
    glyphs_ref_compared: u64,
    unique_glyphs: u64,
    points_compared: u64,
    zero_contour_with_data: BTreeMap<String, usize>,
    fallback_reasons: BTreeMap<String, String>,
    head_diffs: BTreeMap<String, usize>,
    comp_flag_xor: u16,
    hmtx_lsb_legal_fonts: BTreeSet<String>,
    hmtx_tail_legal_nonempty_fonts: BTreeSet<String>,
    hmtx_tail_empty_fonts: BTreeSet<String>,
    hmtx_applicable_fonts: BTreeSet<String>,
    hmtx_not_applicable: BTreeMap<String, String>,
    hmtx_flags_seen: BTreeMap<u8, usize>,
    hmtx_identical: usize,
    hmtx_known_bug: usize,
    hmtx_known_bug_by_flags: BTreeMap<u8, usize>,
    loca_format_switched: BTreeSet<String>,
    overlap_fonts: BTreeMap<String, usize>,
    modes_seen: BTreeSet<String>,
    trip_used: Vec<u64>,
    u255_forms: [u64; 4],
    n_explicit_bbox_simple: u64,
    n_required_bbox_simple: u64,
    n_alt_triplets: u64,
    n_alt_255: u64,
    n_composite: u64,
    n_simple: u64,
    n_empty: u64,
    explicit_tag_entries: u64,
    hmtx_nonvacuous_fonts: BTreeSet<String>,
    failures: Vec<String>,
}

fn fail(st: &Mutex<Stats>, msg: String) {
    let mut s = st.lock().unwrap();
    if s.failures.len() < 200 {
        s.failures.push(msg);
    }
}

struct Font {
    name: String,
    flavour: u32,
    tables: Vec<(u32, Vec<u8>)>,
    ng: usize,
    nh: usize,
    long: bool,
    canon: Vec<Canon>,
    ranges: Vec<(usize, usize)>,
}

impl Font {
    fn table(&self, tag: u32) -> Option<&[u8]> {
        self.tables.iter().find(|(t, _)| *t == tag).map(|(_, d)| d.as_slice())
    }
}

/// Returns the hmtx flags when the hmtx transform was applied.
fn check_one(font: &Font, opts: &Woff2Options, st: &Mutex<Stats>) -> Option<u8> {
    let ctx = format!("{} v{} glyf={} hmtx={} avoid={:#x}", font.name, opts.variant, opts.transform_glyf, opts.transform_hmtx, opts.avoid);
    let (file, info) = match build_woff2_with_info(&font.tables, font.flavour, opts) {
        Some(x) => x,
        None => {
            fail(st, format!("{}: build returned None", ctx));
            return None;
        }
    };
    // 4. determinism
    let again = build_woff2(&font.tables, font.flavour, opts).unwrap();
    if again != file {
        fail(st, format!("{}: not deterministic", ctx));
    }
    let desc = describe(&font.tables, font.flavour, opts);
    if desc != describe(&font.tables, font.flavour, opts) || desc.is_empty() {
        fail(st, format!("{}: describe not deterministic", ctx));
    }
    {
        let mut s = st.lock().unwrap();
        s.builds += 1;
        if info.glyf_transformed {
            s.builds_glyf_tx += 1;
        }
        if info.hmtx_transformed {
            s.builds_hmtx_tx += 1;
            *s.hmtx_flags_seen.entry(info.hmtx_flags).or_default() += 1;
        }
        s.modes_seen.insert(format!("v{}: {}", opts.variant, info.choices));
        s.n_explicit_bbox_simple += info.n_explicit_bbox_simple as u64;
        s.n_required_bbox_simple += info.n_required_bbox_simple as u64;
        s.n_alt_triplets += info.n_alt_triplets as u64;
        s.n_alt_255 += info.n_alt_255 as u64;
        s.n_composite += info.n_composite as u64;
        s.n_simple += info.n_simple as u64;
        s.n_empty += info.n_empty as u64;
        s.explicit_tag_entries += info.explicit_tags.len() as u64;
        if opts.transform_glyf && !info.glyf_transformed {
            s.fallback_reasons.insert(font.name.clone(), info.glyf_reason.clone());
        }
        if opts.transform_glyf && opts.transform_hmtx && info.glyf_transformed {
            if info.hmtx_lsb_legal {
                s.hmtx_lsb_legal_fonts.insert(font.name.clone());
            }
            if font.ng == font.nh {
                s.hmtx_tail_empty_fonts.insert(font.name.clone());
            } else if info.hmtx_tail_legal {
                s.hmtx_tail_legal_nonempty_fonts.insert(font.name.clone());
            }
            if info.hmtx_lsb_legal || (info.hmtx_tail_legal && font.ng > font.nh) {
                s.hmtx_nonvacuous_fonts.insert(font.name.clone());
            }
            if info.hmtx_transformed {
                s.hmtx_applicable_fonts.insert(font.name.clone());
            } else if opts.avoid == 0 {
                s.hmtx_not_applicable.insert(font.name.clone(), info.hmtx_reason.clone());
            }
        }
        if info.n_overlap_source > 0 {
            s.overlap_fonts.insert(font.name.clone(), info.n_overlap_source);
        }
    }
    if opts.transform_hmtx && info.hmtx_transformed && !info.glyf_transformed {
        fail(st, format!("{}: hmtx transformed without glyf", ctx));
    }

    // 1. load through allsorts
    let fd = match ReadScope::new(&file).read::<FontData<'_>>() {
        Ok(fd) => fd,
        Err(e) => {
            fail(st, format!("{}: FontData read failed: {:?}\n{}", ctx, e, desc));
            return None;
        }
    };
    let woff = match &fd {
        FontData::Woff2(w) => w,
        _ => {
            fail(st, format!("{}: not recognised as WOFF2", ctx));
            return None;
        }
    };
    if woff.woff_header.length as usize != file.len() || woff.woff_header.total_sfnt_size != info.total_sfnt_size {
        fail(st, format!("{}: header length/totalSfntSize mismatch", ctx));
    }
    let expect_sfnt: usize = 12 + 16 * font.tables.len() + font.tables.iter().map(|(_, d)| (d.len() + 3) & !3).sum::<usize>();
    if woff.woff_header.total_sfnt_size as usize != expect_sfnt {
        fail(st, format!("{}: totalSfntSize {} != {}", ctx, woff.woff_header.total_sfnt_size, expect_sfnt));
    }
    let provider = match fd.table_provider(0) {
        Ok(p) => p,
        Err(e) => {
            fail(st, format!("{}: table_provider failed: {:?}\n{}", ctx, e, desc));
            return None;
        }
    };
    let mut got_tags = provider.table_tags().unwrap();
    got_tags.sort_unstable();
    let mut want_tags: Vec<u32> = font.tables.iter().map(|(t, _)| *t).collect();
    want_tags.sort_unstable();
    if got_tags != want_tags {
        fail(st, format!("{}: tag set differs", ctx));
    }
    let get = |tag: u32| provider.table_data(tag).ok().flatten().map(|c| c.into_owned());
    for (tag, data) in &font.tables {
        let got = match get(*tag) {
            Some(g) => g,
            None => {
                fail(st, format!("{}: table {} missing", ctx, tag_str(*tag)));
                continue;
            }
        };
        match *tag {
            GLYF | LOCA if info.glyf_transformed => {}
            HMTX if info.hmtx_transformed => {}
            HEAD if info.glyf_transformed || info.hmtx_transformed => {
                if got.len() != data.len() {
                    fail(st, format!("{}: head length differs", ctx));
                    continue;
                }
                let mut s = st.lock().unwrap();
                for (i, (a, b)) in data.iter().zip(got.iter()).enumerate() {
                    if a != b {
                        let key = if i == 16 {
                            format!("head byte 16 (flags hi): xor {:#04x}", a ^ b)
                        } else if i == 51 {
                            format!("head byte 51 (indexToLocFormat lo): {} -> {}", a, b)
                        } else {
                            format!("head byte {}", i)
                        };
                        *s.head_diffs.entry(key).or_default() += 1;
                        if i == 51 {
                            s.loca_format_switched.insert(font.name.clone());
                        }
                    }
                }
                drop(s);
                if got[16] & 0x08 == 0 {
                    fail(st, format!("{}: head.flags bit 11 not set", ctx));
                }
                if got[8..12] != [0, 0, 0, 0] {
                    fail(st, format!("{}: reconstructed head.checkSumAdjustment is not 0", ctx));
                }
                for (i, (a, b)) in data.iter().zip(got.iter()).enumerate() {
                    let allowed = (8..12).contains(&i) || (i == 16 && a ^ b == 0x08) || (i == 51 && *a == 0 && *b == 1);
                    if a != b && !allowed {
                        fail(st, format!("{}: head byte {} differs unexpectedly", ctx, i));
                    }
                }
            }
            _ => {
                if &got != data {
                    fail(st, format!("{}: table {} differs ({} vs {} bytes)", ctx, tag_str(*tag), got.len(), data.len()));
                }
            }
        }
    }

    if !info.glyf_transformed {
        return None;
    }

    // 2. glyf + loca
    let (r_glyf, r_loca, r_head) = match (get(GLYF), get(LOCA), get(HEAD)) {
        (Some(g), Some(l), Some(h)) => (g, l, h),
        _ => return None,
    };
    let r_long = be16(&r_head, 50) == Some(1);
    let esz = if r_long { 4 } else { 2 };
    if r_loca.len() != (font.ng + 1) * esz {
        fail(st, format!("{}: loca has {} bytes, expected {}", ctx, r_loca.len(), (font.ng + 1) * esz));
        return None;
    }
    let r_ranges = glyph_ranges(&r_loca, font.ng, r_long).unwrap();
    let mut prev = 0;
    for (i, &(a, b)) in r_ranges.iter().enumerate() {
        if a != prev || b < a {
            fail(st, format!("{}: loca not monotone at {}", ctx, i));
            return None;
        }
        prev = b;
    }
    if r_ranges.first().map(|r| r.0) != Some(0) || prev != r_glyf.len() {
        fail(st, format!("{}: loca ends at {} but glyf has {} bytes", ctx, prev, r_glyf.len()));
    }
    let fmt = if r_long { IndexToLocFormat::Long } else { IndexToLocFormat::Short };
    let (r_canon, _) = match canon_table(&r_glyf, &r_loca, font.ng, fmt) {
        Ok(c) => c,
        Err(e) => {
            fail(st, format!("{}: reconstructed glyf does not parse: {}", ctx, e));
            return None;
        }
    };
    let mut bad = 0;
    let mut pts = 0u64;
    for (gid, (a, b)) in font.canon.iter().zip(r_canon.iter()).enumerate() {
        if a != b {
            bad += 1;
            if bad <= 3 {
                fail(st, format!("{}: glyph {} differs:\n  orig  {:?}\n  recon {:?}", ctx, gid, a, b));
            }
        }
        if let Canon::Simple { pts: p, .. } = a {
            pts += p.len() as u64;
        }
    }
    // which composite flag bits does the decoder normalise?
    let o_glyf = font.table(GLYF).unwrap();
    let mut xor = 0u16;
    for gid in 0..font.ng {
        let (a, b) = font.ranges[gid];
        if let Some(of) = raw_component_flags(&o_glyf[a..b]) {
            let (ra, rb) = r_ranges[gid];
            match raw_component_flags(&r_glyf[ra..rb]) {
                Some(rf) if rf.len() == of.len() => {
                    for (x, y) in of.iter().zip(rf.iter()) {
                        xor |= x ^ y;
                    }
                }
                _ => fail(st, format!("{}: glyph {} component list differs", ctx, gid)),
            }
        }
    }

    // reference decode of the transformed stream (spec validity of what we emitted)
    let entry = woff.find_table_entry(GLYF, 0).unwrap();
    let tbuf = entry.read_table(&woff.table_data_block_scope()).unwrap();
    let mut ref_ok = false;
    let mut ref_xmin: Vec<i16> = Vec::new();
    U255_FORMS.with(|f| f.set([0; 4]));
    match ref_decode_glyf(tbuf.scope().data()) {
        Err(e) => fail(st, format!("{}: reference decoder rejects the transformed glyf: {}", ctx, e)),
        Ok(r) => {
            ref_ok = true;
            if r.glyphs.len() != font.ng || r.index_format != u16::from(font.long) {
                fail(st, format!("{}: reference decode: numGlyphs/indexFormat mismatch", ctx));
            }
            let mut rbad = 0;
            for (gid, (a, b)) in font.canon.iter().zip(r.glyphs.iter()).enumerate() {
                if a != b {
                    rbad += 1;
                    if rbad <= 3 {
                        fail(st, format!("{}: reference decode of glyph {} differs:\n  orig {:?}\n  ref  {:?}", ctx, gid, a, b));
                    }
                }
            }
            for gid in 0..font.ng.min(r.overlap.len()) {
                let (a, b) = font.ranges[gid];
                let src = raw_overlap_simple(&o_glyf[a..b]);
                let exact = info.n_overlap_emitted == info.n_overlap_source;
                if (src && !r.overlap[gid]) || (exact && src != r.overlap[gid]) {
                    fail(st, format!("{}: overlap bit of glyph {}: source {} emitted {}", ctx, gid, src, r.overlap[gid]));
                    break;
                }
            }
            ref_xmin = r.glyphs.iter().map(x_min_of).collect();
            let mut s = st.lock().unwrap();
            if s.trip_used.is_empty() {
                s.trip_used = vec![0; 128];
            }
            for (a, b) in s.trip_used.iter_mut().zip(r.trip_used.iter()) {
                *a += b;
            }
            let forms = U255_FORMS.with(|f| f.get());
            for k in 0..4 {
                s.u255_forms[k] += forms[k];
            }
        }
    }
    {
        let mut s = st.lock().unwrap();
        s.glyphs_compared += font.ng as u64;
        s.points_compared += pts;
        if ref_ok {
            s.glyphs_ref_compared += font.ng as u64;
        }
        s.comp_flag_xor |= xor;
    }

    // 3. hmtx
    if !info.hmtx_transformed {
        return None;
    }
    let o_hmtx = font.table(HMTX).unwrap();
    let hentry = woff.find_table_entry(HMTX, 0).unwrap();
    let hbuf = hentry.read_table(&woff.table_data_block_scope()).unwrap();
    let t = hbuf.scope().data();
    if t[0] != info.hmtx_flags {
        fail(st, format!("{}: hmtx flags byte", ctx));
    }
    // legality, checked independently: lsb == xMin (of the allsorts-parsed ORIGINAL glyphs) for every elided entry
    let lsb_of = |g: usize| -> i16 {
        if g < font.nh {
            be16(o_hmtx, 4 * g + 2).unwrap() as i16
        } else {
            be16(o_hmtx, 4 * font.nh + 2 * (g - font.nh)).unwrap() as i16
        }
    };
    if t[0] & 1 != 0 && !(0..font.nh).all(|g| lsb_of(g) == x_min_of(&font.canon[g])) {
        fail(st, format!("{}: lsb[] elided illegally", ctx));
    }
    if t[0] & 2 != 0 && !(font.nh..font.ng).all(|g| lsb_of(g) == x_min_of(&font.canon[g])) {
        fail(st, format!("{}: leftSideBearing[] elided illegally", ctx));
    }
    if ref_ok {
        match ref_decode_hmtx(t, font.ng, font.nh, &ref_xmin) {
            Ok(h) if h == o_hmtx => {}
            Ok(_) => fail(st, format!("{}: reference decode of hmtx differs from the original", ctx)),
            Err(e) => fail(st, format!("{}: reference decoder rejects hmtx: {}", ctx, e)),
        }
    }
    let r_hmtx = get(HMTX).unwrap();
    if r_hmtx == o_hmtx {
        st.lock().unwrap().hmtx_identical += 1;
        if t[0] & 2 != 0 {
            fail(st, format!("{}: leftSideBearing[] elided and allsorts got it right?! (known bug expected)", ctx));
        }
    } else if t[0] & 2 != 0 {
        // Known allsorts defect: the elided leftSideBearing[] is rebuilt from ALL glyphs starting at glyph 0.
        let mut expect = o_hmtx[..4 * font.nh].to_vec();
        for g in 0..font.ng {
            expect.extend_from_slice(&x_min_of(&font.canon[g]).to_be_bytes());
        }
        if r_hmtx == expect {
            let mut s = st.lock().unwrap();
            s.hmtx_known_bug += 1;
            *s.hmtx_known_bug_by_flags.entry(t[0]).or_default() += 1;
        } else {
            fail(st, format!("{}: hmtx differs, but not in the shape of the known leftSideBearing[] defect ({} vs {} bytes)", ctx, r_hmtx.len(), o_hmtx.len()));
        }
    } else {
        fail(st, format!("{}: reconstructed hmtx differs from the original (flags {:#x}, {} vs {} bytes)", ctx, t[0], r_hmtx.len(), o_hmtx.len()));
    }
    Some(t[0])
}

fn load_font(path: &Path, st: &Mutex<Stats>) -> Option<Font> {
    let name = path.strip_prefix("/repo/tests").unwrap().display().to_string();
    let bytes = std::fs::read(path).ok()?;
    let (flavour, tables) = split_sfnt(&bytes)?;
    let find = |tag: u32| tables.iter().find(|(t, _)| *t == tag).map(|(_, d)| d.as_slice());
    find(GLYF)?;
    st.lock().unwrap().fonts_seen += 1;
    let skip = |why: String| {
        st.lock().unwrap().fonts_skipped.push(format!("{}: {}", name, why));
    };
    let (head, maxp, loca, glyf) = match (find(HEAD), find(MAXP), find(LOCA), find(GLYF)) {
        (Some(h), Some(m), Some(l), Some(g)) if h.len() >= 54 && m.len() >= 6 => (h, m, l, g),
        _ => {
            skip("head/maxp/loca missing or short".into());
            return None;
        }
    };
    let ng = usize::from(be16(maxp, 4).unwrap());
    let long = match be16(head, 50).unwrap() {
        0 => false,
        1 => true,
        v => {
            skip(format!("indexToLocFormat {}", v));
            return None;
        }
    };
    let nh = find(HHEA).and_then(|h| be16(h, 34)).map(usize::from).unwrap_or(0);
    let fmt = if long { IndexToLocFormat::Long } else { IndexToLocFormat::Short };
    let (canon, z) = match canon_table(glyf, loca, ng, fmt) {
        Ok(c) => c,
        Err(e) => {
            skip(format!("allsorts cannot parse the ORIGINAL glyf/loca: {}", e));
            return None;
        }
    };
    let ranges = glyph_ranges(loca, ng, long)?;
    {
        let mut s = st.lock().unwrap();
        if z > 0 {
            s.zero_contour_with_data.insert(name.clone(), z);
        }
        s.unique_glyphs += ng as u64;
        s.fonts_tested.push(name.clone());
    }
    Some(Font { name, flavour, tables, ng, nh, long, canon, ranges })
}

#[test]
fn acceptance() {
    let mut files = Vec::new();
    walk(Path::new("/repo/tests"), &mut files);
    let st = Mutex::new(Stats::default());
    let queue = Mutex::new(files.into_iter());
    let threads = std::thread::available_parallelism().map(|n| n.get()).unwrap_or(4).min(16);
    std::thread::scope(|sc| {
        for _ in 0..threads {
            sc.spawn(|| loop {
                let path = match queue.lock().unwrap().next() {
                    Some(p) => p,
                    None => break,
                };
                let font = match load_font(&path, &st) {
                    Some(f) => f,
                    None => continue,
                };
                for variant in 0..=8u64 {
                    for (tgf, thm) in [(false, false), (false, true), (true, false), (true, true)] {
                        let opts = Woff2Options { transform_glyf: tgf, transform_hmtx: thm, variant, avoid: 0 };
                        let flags = check_one(&font, &opts, &st);
                        if flags.map_or(false, |f| f & 2 != 0) {
                            // the construct allsorts gets wrong was used: the avoid option must give a clean result
                            let opts = Woff2Options { avoid: AVOID_HMTX_ELIDE_TAIL, ..opts };
                            if let Some(f) = check_one(&font, &opts, &st) {
                                if f & 2 != 0 {
                                    fail(&st, format!("{}: AVOID_HMTX_ELIDE_TAIL not honoured", font.name));
                                }
                            }
                        }
                    }
                }
            });
        }
    });
    let s = st.into_inner().unwrap();
    let mut r = String::new();
    r.push_str(&format!("sfnt files with glyf seen: {}\n", s.fonts_seen));
    r.push_str(&format!("fonts tested: {}\n", s.fonts_tested.len()));
    r.push_str(&format!("fonts skipped: {}\n", s.fonts_skipped.len()));
    for f in &s.fonts_skipped {
        r.push_str(&format!("  SKIP {}\n", f));
    }
    r.push_str(&format!("builds (font x variant x flags [+ avoid reruns]): {}\n", s.builds));
    r.push_str(&format!("  with glyf transformed: {}\n  with hmtx transformed: {}\n", s.builds_glyf_tx, s.builds_hmtx_tx));
    r.push_str(&format!("unique glyphs in tested fonts: {}\n", s.unique_glyphs));
    r.push_str(&format!("glyph comparisons orig vs allsorts-reconstructed: {} ({} points)\n", s.glyphs_compared, s.points_compared));
    r.push_str(&format!("glyph comparisons orig vs reference decoder: {}\n", s.glyphs_ref_compared));
    r.push_str(&format!("glyf transform fallbacks (requested, not applied): {:?}\n", s.fallback_reasons));
    r.push_str(&format!("zero-contour glyphs WITH data (encoded as empty): {:?}\n", s.zero_contour_with_data));
    r.push_str(&format!("fonts with OVERLAP_SIMPLE glyphs: {:?}\n", s.overlap_fonts));
    r.push_str(&format!("head differences (count over builds): {:?}\n", s.head_diffs));
    r.push_str(&format!("fonts whose indexToLocFormat was switched by the decoder: {:?}\n", s.loca_format_switched));
    r.push_str(&format!("composite component flag bits changed by the decoder (xor mask): {:#06x}\n", s.comp_flag_xor));
    r.push_str(&format!("hmtx: fonts where lsb[] (0..numberOfHMetrics) is elidable: {}\n", s.hmtx_lsb_legal_fonts.len()));
    r.push_str(&format!("hmtx: fonts where a NON-EMPTY leftSideBearing[] is elidable: {} {:?}\n", s.hmtx_tail_legal_nonempty_fonts.len(), s.hmtx_tail_legal_nonempty_fonts));
    r.push_str(&format!("hmtx: fonts with numberOfHMetrics == numGlyphs (empty leftSideBearing[]): {}\n", s.hmtx_tail_empty_fonts.len()));
    r.push_str(&format!("hmtx: fonts where the transform was applied in at least one build: {}\n", s.hmtx_applicable_fonts.len()));
    let never: Vec<_> = s.hmtx_not_applicable.iter().filter(|(k, _)| !s.hmtx_applicable_fonts.contains(*k)).collect();
    r.push_str(&format!("hmtx: fonts where it was never applicable: {}\n", never.len()));
    for (k, v) in never {
        r.push_str(&format!("  {}: {}\n", k, v));
    }
    r.push_str(&format!("hmtx flags used (builds): {:?}\n", s.hmtx_flags_seen));
    r.push_str(&format!("hmtx byte-identical after allsorts decode: {} builds\n", s.hmtx_identical));
    r.push_str(&format!("hmtx KNOWN allsorts leftSideBearing[] defect reproduced: {} builds, by flags {:?}\n", s.hmtx_known_bug, s.hmtx_known_bug_by_flags));
    r.push_str(&format!("hmtx: fonts where a NON-VACUOUS transform is legal (lsb[] legal, or non-empty leftSideBearing[] legal): {}\n", s.hmtx_nonvacuous_fonts.len()));
    let vac: Vec<_> = s.fonts_tested.iter().filter(|f| !s.hmtx_nonvacuous_fonts.contains(*f)).collect();
    r.push_str(&format!("hmtx: fonts where only the vacuous (empty leftSideBearing[]) elision is legal: {} {:?}\n", vac.len(), vac));
    r.push_str(&format!("encoder totals over builds: simple {} composite {} empty {} explicit simple bboxes {} (required {}) alt triplets {} alt 255UInt16 {} explicit-tag dir entries {}\n",
        s.n_simple, s.n_composite, s.n_empty, s.n_explicit_bbox_simple, s.n_required_bbox_simple, s.n_alt_triplets, s.n_alt_255, s.explicit_tag_entries));
    let unused: Vec<usize> = s.trip_used.iter().enumerate().filter(|(_, c)| **c == 0).map(|(i, _)| i).collect();
    r.push_str(&format!("triplet indices emitted: {} of 128 (unused: {:?})\n", 128 - unused.len(), unused));
    r.push_str(&format!("255UInt16 forms decoded [1-byte, 255, 254, 253]: {:?}\n", s.u255_forms));
    r.push_str("choice modes per variant:\n");
    for m in &s.modes_seen {
        r.push_str(&format!("  {}\n", m));
    }
    r.push_str(&format!("FAILURES: {}\n", s.failures.len()));
    for f in &s.failures {
        r.push_str(&format!("  FAIL {}\n", f));
    }
    std::fs::write("/tmp/builder-woff2/dev/summary.txt", &r).unwrap();
    println!("{}", r);
    assert!(s.failures.is_empty(), "{} failures", s.failures.len());
    assert!(s.fonts_tested.len() > 40);
}

// ---------------------------------------------------------------------------------------------
// Unit tests of the building blocks

/// The generated triplet table equals the one in allsorts' (private) lut.rs, parsed from its source text.
#[test]
fn triplet_table_matches_allsorts_lut() {
    let src = std::fs::read_to_string("/repo/src/woff2/lut.rs").unwrap();
    let mut rows = Vec::new();
    for line in src.lines() {
        let line = line.trim();
        if !line.starts_with("XYTriplet {") {
            continue;
        }
        let field = |name: &str| -> String {
            let p = line.find(&format!("{}:", name)).unwrap() + name.len() + 1;
            line[p..].trim_start().split(|c: char| c == ',' || c == ' ' || c == '}').next().unwrap().to_string()
        };
        rows.push(Triplet {
            byte_count: field("byte_count").parse().unwrap(),
            x_bits: field("x_bits").parse().unwrap(),
            y_bits: field("y_bits").parse().unwrap(),
            delta_x: field("delta_x").parse().unwrap(),
            delta_y: field("delta_y").parse().unwrap(),
            x_is_negative: field("x_is_negative").parse().unwrap(),
            y_is_negative: field("y_is_negative").parse().unwrap(),
        });
    }
    assert_eq!(rows.len(), 128);
    assert_eq!(rows, triplet_table());
}

/// The canonical triplet always fits and is one of the shortest candidates.
#[test]
fn canonical_triplet_is_shortest() {
    let t = triplet_table();
    let fits = |e: &Triplet, dx: i32, dy: i32| -> bool {
        let ax = |bits: u8, delta: u16, neg: bool, d: i32| -> bool {
            if bits == 0 {
                return d == 0;
            }
            if (d < 0 && !neg) || (d > 0 && neg) {
                return false;
            }
            d.abs() >= i32::from(delta) && d.abs() - i32::from(delta) < (1 << bits)
        };
        ax(e.x_bits, e.delta_x, e.x_is_negative, dx) && ax(e.y_bits, e.delta_y, e.y_is_negative, dy)
    };
    let mut vals: Vec<i32> = (-70..=70).collect();
    for base in [255, 256, 257, 511, 512, 513, 767, 768, 769, 770, 1023, 1024, 1025, 1279, 1280, 1281, 4095, 4096, 4097, 32767, 32768, 65535] {
        vals.push(base);
        vals.push(-base);
    }
    for &dx in &vals {
        for &dy in &vals {
            let c = canonical_triplet_index(dx, dy);
            let e = &t[usize::from(c)];
            assert!(fits(e, dx, dy), "canonical {} does not fit ({}, {})", c, dx, dy);
            let min = t.iter().filter(|e| fits(e, dx, dy)).map(|e| e.byte_count).min().unwrap();
            assert_eq!(e.byte_count, min, "({}, {})", dx, dy);
        }
    }
}

#[test]
fn brotli_stored_round_trips() {
    // through allsorts' own dependency path: wrap a 1-table font and read it back
    for (len, chunk) in [(0usize, 65536usize), (1, 65536), (65536, 65536), (65537, 65536), (200_000, 4096), (200_000, 65535), (5, 1)] {
        let data: Vec<u8> = (0..len).map(|i| (i * 7 + i / 251) as u8).collect();
        let tables = vec![(tg(b"DATA"), data.clone())];
        let opts = Woff2Options { transform_glyf: false, transform_hmtx: false, variant: 0, avoid: 0 };
        let _ = chunk;
        let file = build_woff2(&tables, 0x0001_0000, &opts).unwrap();
        let fd = ReadScope::new(&file).read::<FontData<'_>>().unwrap();
        let p = fd.table_provider(0).unwrap();
        assert_eq!(p.table_data(tg(b"DATA")).unwrap().unwrap().as_ref(), &data[..]);
        // and the raw block writer with other chunk sizes, decoded by hand (stored blocks only)
        let s = brotli_stored(&data, chunk);
        assert_eq!(unstore(&s), data, "len {} chunk {}", len, chunk);
    }
}

/// Minimal decoder for streams consisting of stored meta-blocks only.
fn unstore(s: &[u8]) -> Vec<u8> {
    let mut bitpos = 0usize;
    let bits = |n: usize, bitpos: &mut usize| -> u32 {
        let mut v = 0u32;
        for i in 0..n {
            let b = (s[*bitpos >> 3] >> (*bitpos & 7)) & 1;
            v |= u32::from(b) << i;
            *bitpos += 1;
        }
        v
    };
    assert_eq!(bits(1, &mut bitpos), 0); // WBITS 16
    let mut out = Vec::new();
    loop {
        if bits(1, &mut bitpos) == 1 {
            assert_eq!(bits(1, &mut bitpos), 1); // ISLASTEMPTY
            break;
        }
        assert_eq!(bits(2, &mut bitpos), 0);
        let mlen = bits(16, &mut bitpos) as usize + 1;
        assert_eq!(bits(1, &mut bitpos), 1);
        bitpos = (bitpos + 7) & !7;
        out.extend_from_slice(&s[bitpos >> 3..(bitpos >> 3) + mlen]);
        bitpos += mlen * 8;
    }
    assert_eq!((bitpos + 7) >> 3, s.len());
    out
}

/// A synthetic font exercising the corners the corpus may lack: overlap bit, zero-contour glyph with data,
/// explicit-bbox-required glyph, big deltas, composite with instructions, numGlyphs > numberOfHMetrics.
#[test]
fn synthetic_corner_cases() {
    let (tables, ng, nh) = synthetic_font();
    let head = tables.iter().find(|(t, _)| *t == HEAD).unwrap().1.clone();
    let long = be16(&head, 50) == Some(1);
    let glyf = &tables.iter().find(|(t, _)| *t == GLYF).unwrap().1;
    let loca = &tables.iter().find(|(t, _)| *t == LOCA).unwrap().1;
    let fmt = if long { IndexToLocFormat::Long } else { IndexToLocFormat::Short };
    let (canon, z) = canon_table(glyf, loca, ng, fmt).unwrap();
    assert_eq!(z, 1);
    let font = Font { name: "synthetic".into(), flavour: 0x0001_0000, ranges: glyph_ranges(loca, ng, long).unwrap(), tables, ng, nh, long, canon };
    let st = Mutex::new(Stats::default());
    let mut flags_seen = BTreeSet::new();
    for variant in 0..=40u64 {
        for (tgf, thm) in [(false, false), (false, true), (true, false), (true, true)] {
            for avoid in [0, AVOID_HMTX_ELIDE_TAIL, AVOID_OVERLAP_BITMAP, AVOID_NON_MINIMAL_ENCODINGS | AVOID_GRATUITOUS_OVERLAP_BITMAP] {
                let opts = Woff2Options { transform_glyf: tgf, transform_hmtx: thm, variant, avoid };
                if let Some(f) = check_one(&font, &opts, &st) {
                    flags_seen.insert(f);
                    if avoid & AVOID_HMTX_ELIDE_TAIL != 0 {
                        assert_eq!(f & 2, 0);
                    }
                }
            }
        }
    }
    let s = st.into_inner().unwrap();
    println!("synthetic: builds {} hmtx flags {:?} identical {} known-bug {} head diffs {:?} xor {:#x}", s.builds, flags_seen, s.hmtx_identical, s.hmtx_known_bug, s.head_diffs, s.comp_flag_xor);
    // AVOID_OVERLAP_BITMAP legitimately drops source overlap bits: those "failures" are expected only there
    let unexpected: Vec<_> = s.failures.iter().filter(|f| !(f.contains("overlap bit") && f.contains("avoid=0x8"))).collect();
    assert!(unexpected.is_empty(), "{:#?}", unexpected);
    assert_eq!(flags_seen, [1u8, 2, 3].into_iter().collect());
}

fn synthetic_font() -> (Vec<(u32, Vec<u8>)>, usize, usize) {
    fn simple(contours: &[&[(bool, i16, i16)]], instr: &[u8], bbox: Option<[i16; 4]>, overlap: bool) -> Vec<u8> {
        let pts: Vec<(bool, i16, i16)> = contours.iter().flat_map(|c| c.iter().copied()).collect();
        let mut g = Vec::new();
        g.extend_from_slice(&(contours.len() as i16).to_be_bytes());
        let b = bbox.unwrap_or_else(|| {
            [pts.iter().map(|p| p.1).min().unwrap(), pts.iter().map(|p| p.2).min().unwrap(), pts.iter().map(|p| p.1).max().unwrap(), pts.iter().map(|p| p.2).max().unwrap()]
        });
        for v in b {
            g.extend_from_slice(&v.to_be_bytes());
        }
        let mut e = 0u16;
        for c in contours {
            e += c.len() as u16;
            g.extend_from_slice(&(e - 1).to_be_bytes());
        }
        g.extend_from_slice(&(instr.len() as u16).to_be_bytes());
        g.extend_from_slice(instr);
        for (i, p) in pts.iter().enumerate() {
            g.push(u8::from(p.0) | if i == 0 && overlap { 0x40 } else { 0 });
        }
        let mut prev = 0i16;
        for p in &pts {
            g.extend_from_slice(&(p.1.wrapping_sub(prev)).to_be_bytes());
            prev = p.1;
        }
        prev = 0;
        for p in &pts {
            g.extend_from_slice(&(p.2.wrapping_sub(prev)).to_be_bytes());
            prev = p.2;
        }
        g
    }
    let mut glyphs: Vec<Vec<u8>> = Vec::new();
    // 0: plain triangle
    glyphs.push(simple(&[&[(true, 10, 0), (false, 300, 700), (true, 600, 0)]], &[], None, false));
    // 1: empty
    glyphs.push(Vec::new());
    // 2: zero contours but a header (and a bbox)
    glyphs.push(vec![0, 0, 0, 1, 0, 2, 0, 3, 0, 4, 0, 0]);
    // 3: overlap bit, instructions (300 bytes: 255UInt16 two-byte form), big deltas
    glyphs.push(simple(
        &[&[(true, -16000, -16000), (true, 16000, 16000), (false, 16000, -16000), (true, 0, 0), (true, 0, 1279), (true, 1279, 1279), (true, 1280, 1279), (true, 1280, 2559)]],
        &vec![0x4b; 300],
        None,
        true,
    ));
    // 4: stored bbox differs from the computed one (explicit bbox REQUIRED), 600 instructions (254 form), lsb != xMin later
    glyphs.push(simple(&[&[(true, 5, 5), (true, 70, 5), (true, 70, 70)], &[(false, 100, 100), (true, 900, 100), (true, 900, 900)]], &vec![1; 600], Some([0, 0, 1000, 1000]), false));
    // 5: composite with instructions, reserved flag bits, all three transform kinds and both arg widths
    {
        let mut g = Vec::new();
        g.extend_from_slice(&(-1i16).to_be_bytes());
        for v in [1i16, 2, 3, 4] {
            g.extend_from_slice(&v.to_be_bytes());
        }
        // comp A: words, xy, scale, more, reserved bits 4 + 13
        g.extend_from_slice(&(0x0001u16 | 0x0002 | 0x0008 | 0x0020 | 0x0010 | 0x2000).to_be_bytes());
        g.extend_from_slice(&0u16.to_be_bytes());
        g.extend_from_slice(&(-300i16).to_be_bytes());
        g.extend_from_slice(&400i16.to_be_bytes());
        g.extend_from_slice(&0x2000u16.to_be_bytes());
        // comp B: bytes, points, xy-scale, more
        g.extend_from_slice(&(0x0040u16 | 0x0020).to_be_bytes());
        g.extend_from_slice(&3u16.to_be_bytes());
        g.extend_from_slice(&[1, 2]);
        g.extend_from_slice(&[0x40, 0, 0x20, 0]);
        // comp C: bytes, xy, 2x2, instructions, last
        g.extend_from_slice(&(0x0002u16 | 0x0080 | 0x0100 | 0x0200 | 0x0400).to_be_bytes());
        g.extend_from_slice(&4u16.to_be_bytes());
        g.extend_from_slice(&[0xfe, 0x05]);
        g.extend_from_slice(&[0x40, 0, 0, 1, 0xff, 0xff, 0x40, 0]);
        g.extend_from_slice(&3u16.to_be_bytes());
        g.extend_from_slice(&[9, 8, 7]);
        glyphs.push(g);
    }
    // 6: composite without instructions
    {
        let mut g = Vec::new();
        g.extend_from_slice(&(-1i16).to_be_bytes());
        for v in [-7i16, -8, 9, 10] {
            g.extend_from_slice(&v.to_be_bytes());
        }
        g.extend_from_slice(&0x0002u16.to_be_bytes());
        g.extend_from_slice(&0u16.to_be_bytes());
        g.extend_from_slice(&[3, 4]);
        glyphs.push(g);
    }
    // 7..: many-contour glyph with a contour of 253, 506, 762 points (255UInt16 corner values)
    {
        let mk = |n: usize, x0: i16| -> Vec<(bool, i16, i16)> { (0..n).map(|i| (i % 3 != 1, x0 + (i as i16 % 50), (i as i16) * 2)).collect() };
        let a = mk(253, 0);
        let b = mk(506, 100);
        let c = mk(762, 200);
        let d = mk(508, 300);
        let e = mk(252, 400);
        glyphs.push(simple(&[&a, &b, &c, &d, &e], &[], None, false));
    }
    // 8, 9: monospace tail glyphs
    glyphs.push(simple(&[&[(true, 50, 0), (true, 60, 10), (true, 70, 0)]], &[], None, false));
    glyphs.push(Vec::new());
    let ng = glyphs.len();
    let nh = ng - 2;
    let mut glyf = Vec::new();
    let mut loca = Vec::new();
    for g in &glyphs {
        loca.extend_from_slice(&(glyf.len() as u32).to_be_bytes());
        glyf.extend_from_slice(g);
        while glyf.len() % 4 != 0 {
            glyf.push(0);
        }
    }
    loca.extend_from_slice(&(glyf.len() as u32).to_be_bytes());
    let xmins: Vec<i16> = glyphs.iter().map(|g| if g.len() < 10 || be16(g, 0) == Some(0) { 0 } else { be16(g, 2).unwrap() as i16 }).collect();
    let mut hmtx = Vec::new();
    for g in 0..nh {
        hmtx.extend_from_slice(&(500u16 + g as u16).to_be_bytes());
        hmtx.extend_from_slice(&xmins[g].to_be_bytes());
    }
    for g in nh..ng {
        hmtx.extend_from_slice(&xmins[g].to_be_bytes());
    }
    let mut head = vec![0u8; 54];
    head[0..4].copy_from_slice(&0x0001_0000u32.to_be_bytes());
    head[4..8].copy_from_slice(&0x0002_8000u32.to_be_bytes());
    head[8..12].copy_from_slice(&0xDEAD_BEEFu32.to_be_bytes());
    head[12..16].copy_from_slice(&0x5F0F_3CF5u32.to_be_bytes());
    head[16..18].copy_from_slice(&0x0003u16.to_be_bytes());
    head[18..20].copy_from_slice(&1000u16.to_be_bytes());
    head[50..52].copy_from_slice(&1u16.to_be_bytes());
    let mut maxp = vec![0u8; 32];
    maxp[0..4].copy_from_slice(&0x0001_0000u32.to_be_bytes());
    maxp[4..6].copy_from_slice(&(ng as u16).to_be_bytes());
    let mut hhea = vec![0u8; 36];
    hhea[0..4].copy_from_slice(&0x0001_0000u32.to_be_bytes());
    hhea[34..36].copy_from_slice(&(nh as u16).to_be_bytes());
    let tables = vec![
        (tg(b"zzzz"), vec![1, 2, 3]),
        (HMTX, hmtx),
        (GLYF, glyf),
        (HEAD, head),
        (tg(b"cvt "), vec![0, 1, 0, 2, 0]),
        (LOCA, loca),
        (MAXP, maxp),
        (HHEA, hhea),
        (tg(b"OS/2"), vec![7; 96]),
    ];
    (tables, ng, nh)
}

/// allsorts needs `hhea` (and a fully parseable `maxp`/`head`) to load a font whose glyf is transformed,
/// although the glyf/loca reconstruction does not depend on it. The same font loads with null transforms.
#[test]
fn glyf_transform_without_hhea() {
    let (mut tables, _, _) = synthetic_font();
    tables.retain(|(t, _)| *t != HHEA && *t != HMTX);
    let load = |opts: &Woff2Options| -> Result<(), String> {
        let (file, info) = build_woff2_with_info(&tables, 0x0001_0000, opts).unwrap();
        let fd = ReadScope::new(&file).read::<FontData<'_>>().map_err(|e| format!("{:?}", e))?;
        fd.table_provider(0).map(|_| ()).map_err(|e| format!("glyf_transformed={} {:?}", info.glyf_transformed, e))
    };
    let null = load(&Woff2Options { transform_glyf: false, transform_hmtx: false, variant: 0, avoid: 0 });
    let tx = load(&Woff2Options { transform_glyf: true, transform_hmtx: false, variant: 0, avoid: 0 });
    let avoided = load(&Woff2Options { transform_glyf: true, transform_hmtx: false, variant: 0, avoid: AVOID_GLYF_TRANSFORM_WITHOUT_HHEA });
    println!("no hhea: null transform {:?}; glyf transform {:?}; avoided {:?}", null, tx, avoided);
    assert!(null.is_ok());
    assert!(avoided.is_ok());
    assert!(tx.is_err(), "allsorts now loads a glyf-transformed font without hhea: update NOTES.md");
}

/// Writes the minimal reproduction of the known leftSideBearing[] defect for NOTES.md.
#[test]
fn write_hmtx_repro() {
    let path = "/repo/tests/fonts/opentype/SymbolTest-Regular.ttf";
    let bytes = std::fs::read(path).unwrap();
    let (flavour, tables) = split_sfnt(&bytes).unwrap();
    let opts = Woff2Options { transform_glyf: true, transform_hmtx: true, variant: 0, avoid: 0 };
    let (file, info) = build_woff2_with_info(&tables, flavour, &opts).unwrap();
    std::fs::create_dir_all("/tmp/builder-woff2/repro").unwrap();
    std::fs::write("/tmp/builder-woff2/repro/SymbolTest-hmtx-flags3.woff2", &file).unwrap();
    let fd = ReadScope::new(&file).read::<FontData<'_>>().unwrap();
    let p = fd.table_provider(0).unwrap();
    let got = p.table_data(HMTX).unwrap().unwrap().into_owned();
    let want = &tables.iter().find(|(t, _)| *t == HMTX).unwrap().1;
    println!("{}", describe(&tables, flavour, &opts));
    println!("numGlyphs {} numberOfHMetrics {} hmtx flags {:#x}", info.num_glyphs, info.num_h_metrics, info.hmtx_flags);
    println!("original hmtx      ({} bytes): {:02x?}", want.len(), want);
    println!("allsorts' hmtx     ({} bytes): {:02x?}", got.len(), got);
    let opts = Woff2Options { avoid: AVOID_HMTX_ELIDE_TAIL, ..opts };
    let (file, info) = build_woff2_with_info(&tables, flavour, &opts).unwrap();
    std::fs::write("/tmp/builder-woff2/repro/SymbolTest-hmtx-flags1.woff2", &file).unwrap();
    let fd = ReadScope::new(&file).read::<FontData<'_>>().unwrap();
    let p = fd.table_provider(0).unwrap();
    let got = p.table_data(HMTX).unwrap().unwrap().into_owned();
    println!("with AVOID_HMTX_ELIDE_TAIL: flags {:#x}, identical: {}", info.hmtx_flags, &got == want);
    assert_eq!(&got, want);
}

/// allsorts ignores optionFlags / overlapSimpleBitmap: OVERLAP_SIMPLE of the source glyph is not restored.
#[test]
fn overlap_simple_is_dropped_by_allsorts() {
    let (tables, ng, _) = synthetic_font();
    let opts = Woff2Options { transform_glyf: true, transform_hmtx: false, variant: 0, avoid: 0 };
    let (file, info) = build_woff2_with_info(&tables, 0x0001_0000, &opts).unwrap();
    assert_eq!(info.option_flags, 1);
    assert_eq!(info.n_overlap_source, 1);
    let fd = ReadScope::new(&file).read::<FontData<'_>>().unwrap();
    let p = fd.table_provider(0).unwrap();
    let glyf = p.table_data(GLYF).unwrap().unwrap().into_owned();
    let loca = p.table_data(LOCA).unwrap().unwrap().into_owned();
    let r = glyph_ranges(&loca, ng, true).unwrap();
    let o_glyf = &tables.iter().find(|(t, _)| *t == GLYF).unwrap().1;
    let o_loca = &tables.iter().find(|(t, _)| *t == LOCA).unwrap().1;
    let o = glyph_ranges(o_loca, ng, true).unwrap();
    let src = raw_overlap_simple(&o_glyf[o[3].0..o[3].1]);
    let got = raw_overlap_simple(&glyf[r[3].0..r[3].1]);
    println!("glyph 3 OVERLAP_SIMPLE: source {} after allsorts {}", src, got);
    assert!(src);
    assert!(!got, "allsorts now restores OVERLAP_SIMPLE: update NOTES.md");
}

/// The encoder never panics on damaged tables (falls back to null transforms), and whatever it emits
/// never panics allsorts either.
#[test]
fn damaged_tables_do_not_panic() {
    let mut seeds: Vec<(u32, Vec<(u32, Vec<u8>)>)> = vec![(0x0001_0000, synthetic_font().0)];
    for p in ["/repo/tests/fonts/opentype/SFNT-TTF-Composite.ttf", "/repo/tests/fonts/opentype/test-font.ttf", "/repo/tests/fonts/variable/Zycon.ttf"] {
        seeds.push(split_sfnt(&std::fs::read(p).unwrap()).unwrap());
    }
    let mut x = 0x1234_5678_9abc_def0u64;
    let mut next = move || {
        x ^= x << 13;
        x ^= x >> 7;
        x ^= x << 17;
        x
    };
    let (mut built, mut tx, mut loaded) = (0, 0, 0);
    let mut only_tx_fails: BTreeMap<String, Vec<String>> = BTreeMap::new();
    let mut only_tx_count: BTreeMap<String, usize> = BTreeMap::new();
    let mut changed_sets: BTreeMap<String, usize> = BTreeMap::new();
    for iter in 0..6000u64 {
        let (flavour, base) = &seeds[(iter % seeds.len() as u64) as usize];
        let mut tables = base.clone();
        let n_faults = 1 + next() % 3;
        for _ in 0..n_faults {
            let targets = [GLYF, LOCA, HEAD, MAXP, HHEA, HMTX];
            let t = targets[(next() % 6) as usize];
            if let Some((_, d)) = tables.iter_mut().find(|(tag, _)| *tag == t) {
                match next() % 4 {
                    0 if !d.is_empty() => {
                        let i = (next() % d.len() as u64) as usize;
                        d[i] ^= 1 << (next() % 8);
                    }
                    1 if !d.is_empty() => {
                        let i = (next() % d.len() as u64) as usize;
                        d[i] = [0u8, 0xff, 0x7f, 0x80][(next() % 4) as usize];
                    }
                    2 => {
                        let l = (next() % (d.len() as u64 + 1)) as usize;
                        d.truncate(l);
                    }
                    _ => {
                        if next() % 8 == 0 {
                            tables.retain(|(tag, _)| *tag != t);
                        }
                    }
                }
            }
        }
        let opts = Woff2Options { transform_glyf: true, transform_hmtx: true, variant: iter % 11, avoid: if iter % 3 == 0 { AVOID_HMTX_ELIDE_TAIL } else { 0 } };
        if let Some((file, info)) = build_woff2_with_info(&tables, *flavour, &opts) {
            built += 1;
            if info.glyf_transformed {
                tx += 1;
            }
            let _ = describe(&tables, *flavour, &opts);
            if let Ok(fd) = ReadScope::new(&file).read::<FontData<'_>>() {
                match fd.table_provider(0) {
                    Ok(_) => loaded += 1,
                    Err(e) if info.glyf_transformed => {
                        // does the same damaged font load with null transforms?
                        let nopts = Woff2Options { transform_glyf: false, transform_hmtx: false, ..opts };
                        let nfile = build_woff2(&tables, *flavour, &nopts).unwrap();
                        let nfd = ReadScope::new(&nfile).read::<FontData<'_>>().unwrap();
                        if nfd.table_provider(0).is_ok() {
                            let lens: Vec<String> = [HEAD, MAXP, HHEA, HMTX].iter().map(|t| format!("{}={:?}", tag_str(*t), tables.iter().find(|(tag, _)| tag == t).map(|(_, d)| d.len()))).collect();
                            let changed: Vec<String> = base.iter().filter(|(t, d)| tables.iter().find(|(tt, _)| tt == t).map(|(_, dd)| dd) != Some(d)).map(|(t, _)| tag_str(*t)).collect();
                            *changed_sets.entry(format!("{:?} changed {:?}", e, changed)).or_insert(0usize) += 1;
                            *only_tx_fails.entry(format!("{:?} hmtx_tx={}", e, info.hmtx_transformed)).or_insert_with(Vec::new) = lens;
                            *only_tx_count.entry(format!("{:?} hmtx_tx={}", e, info.hmtx_transformed)).or_insert(0usize) += 1;
                        }
                    }
                    Err(_) => {}
                }
            }
        }
    }
    println!("{:#?}", changed_sets);
    println!("loads with null transforms but not with the transforms: {:#?} {:#?}", only_tx_count, only_tx_fails);
    println!("damaged tables: built {} (glyf transformed {}), loaded by allsorts {}", built, tx, loaded);
    assert_eq!(built, 6000);
}

#!/bin/bash
# Run checks against a seeded change without touching /repo:
#   mutrun.sh <name> <patch.diff> "<props>" [tier]
# Creates /tmp/mw-<name> (worktree of /repo HEAD + patch), a simulator copy built against it, runs
# ./check <prop> <tier> for each prop with outputs under /tmp/mw-<name>-out, prints exit codes and
# VIOLATION lines, then removes everything (KEEP=1 keeps it).
set -u
N=$1; PATCH=$2; PROPS=$3; TIER=${4:-quick}
WT=/tmp/mw-$N; SIMD=/tmp/mw-$N-sim; OUTD=/tmp/mw-$N-out; MIRID=/tmp/mw-$N-miri
cleanup() {
  [ "${KEEP:-0}" = 1 ] && return
  git -C /repo worktree remove --force $WT 2>/dev/null; rm -rf $WT $SIMD $OUTD $MIRID
}
trap cleanup EXIT
git -C /repo worktree remove --force $WT 2>/dev/null; rm -rf $WT $SIMD $OUTD $MIRID
git -C /repo worktree add -q --detach $WT HEAD || exit 2
# (later fix: commits move lines; fall back to reduced context, then to patch(1) with fuzz)
git -C $WT apply "$PATCH" 2>/dev/null || git -C $WT apply -C1 "$PATCH" 2>/dev/null || patch -s -p1 -F3 -d $WT < "$PATCH" || { echo "PATCH-DOES-NOT-APPLY $PATCH"; exit 2; }
mkdir -p $SIMD $OUTD
# sources from the committed state of /verif (work in progress may not compile), build cache from the live tree
git -C /verif archive HEAD sim | tar -x -C $SIMD --strip-components=1
rsync -a /verif/sim/target $SIMD/ 2>/dev/null
sed -i "s|path = \"/repo\"|path = \"$WT\"|" $SIMD/Cargo.toml
if [ "${MIRI:-0}" = 1 ]; then
  mkdir -p $MIRID; rsync -a --exclude target /verif/sim-miri/ $MIRID/
  sed -i "s|path = \"/repo\"|path = \"$WT\"|" $MIRID/Cargo.toml
  sed -i "s|../../sim/src/|$SIMD/src/|" $MIRID/src/main.rs
fi
rc_all=0
for p in $PROPS; do
  t0=$(date +%s)
  out=$(VERIF_MINIMISE_S=${VERIF_MINIMISE_S:-0} VERIF_REPO=$WT VERIF_SIM_DIR=$SIMD VERIF_OUT_DIR=$OUTD VERIF_MIRI_DIR=$MIRID /verif/check $p $TIER 2>&1); rc=$?
  echo "== mutant=$N prop=$p tier=$TIER exit=$rc secs=$(( $(date +%s) - t0 )) at=$(date +%s) verif=$(git -C /verif rev-parse --short HEAD)"
  echo "$out" | grep -E "VIOLATION|HARNESS|KNOWN-FINDING|NOTE|^  " | cut -c1-300 | head -12
  [ $rc -ne 0 ] && rc_all=$rc
done
exit $rc_all

#!/usr/bin/env python3
"""Collect independently seeded property-breaking changes into /verif/seeded/<id>/.

Reads the sub-agents' deliverables (/tmp/mut-<P>-<w>/_deliver/<k>/), my confirmation runs
(mutverify.sh logs) and my detection runs (mutrun.sh logs) and writes patch.diff, the demonstration,
the author's notes and meta.json. Descriptions come from seeded/descriptions.json."""
import glob, json, os, re, shutil, sys

ROOT = os.path.dirname(os.path.abspath(__file__))
DESC = json.load(open(os.path.join(ROOT, "seeded", "descriptions.json")))
verify, detect = {}, {}
for f in sorted(glob.glob("/tmp/mutverify*.log")):
    for line in open(f, errors="replace"):
        m = re.match(r"VERIFY /tmp/mut-(C\d\d)-(\w) (\d) \| clean-demo: (.*?) \| mutant-demo: (.*?) \| suite: (.*?) \|", line)
        if m:
            verify["%s-%s%s" % (m.group(1), m.group(2), m.group(3))] = {
                "demo_on_clean_tree": m.group(4).strip()[:160], "demo_with_change": m.group(5).strip()[:260],
                "suite_with_change": m.group(6).strip()}
for f in sorted(glob.glob("/tmp/mutrun*.log"), key=os.path.getmtime):
    cur = None
    for line in open(f, errors="replace"):
        m = re.match(r"== mutant=(C\d\d)(\w)(\d)\w* prop=(C\d\d) tier=(\w+) exit=(\d+) secs=(\d+)(?: at=(\d+) verif=(\w+))?", line)
        if m:
            cur = "%s-%s%s" % (m.group(1), m.group(2), m.group(3))
            detect.setdefault(cur, []).append({"check": "./check %s %s" % (m.group(4), m.group(5)), "exit": int(m.group(6)),
                                               "secs": int(m.group(7)), "signatures": [], "log": os.path.basename(f),
                                               "at": int(m.group(8) or 0), "verif_commit": m.group(9)})
        elif cur and line.startswith("  C") and "|" in line:
            sig = line.strip().split(": ")[0]
            sig = re.sub(r"mw-\w+/", "", sig)
            if sig not in detect[cur][-1]["signatures"] and len(detect[cur][-1]["signatures"]) < 4:
                detect[cur][-1]["signatures"].append(sig[:200])
for mid, d in sorted(DESC.items()):
    prop, rest = mid.split("-")
    wave, k = rest[0], rest[1]
    src = "/tmp/mut-%s-%s/_deliver/%s" % (prop, wave, k)
    dst = os.path.join(ROOT, "seeded", mid)
    if os.path.isdir(src):
        os.makedirs(dst, exist_ok=True)
        for name in ("patch.diff", "mutant_demo.rs", "NOTES.md"):
            if os.path.exists(os.path.join(src, name)):
                shutil.copy(os.path.join(src, name), os.path.join(dst, name))
    elif not os.path.isdir(dst):
        print("missing deliverable", mid)
        continue
    # The logs under /tmp do not survive a sandbox restore: a change that has a meta.json and no
    # log of this session keeps its meta.json as it is.
    if os.path.exists(os.path.join(dst, "meta.json")) and mid not in detect and mid not in verify:
        continue
    # chronological: runs with a timestamp after those without (older log format)
    runs = sorted(detect.get(mid, []), key=lambda r: r["at"])
    meta = {
        "id": mid, "property": prop,
        "author": "independent sub-agent given only the property text and a scratch worktree of /repo",
        "breaks": d["breaks"], "needs_to_manifest": d["needs"], "files": d.get("files"),
        "confirmed_by_me": verify.get(mid, "not yet re-run"),
        "detection_runs": runs,
        "caught": (runs[-1]["exit"] == 1) if runs else None,
        "how_run": "mutrun.sh: scratch worktree of /repo HEAD + patch under /tmp, simulator copy built against it, ./check <prop> quick; removed afterwards",
        "note": d.get("note", ""),
    }
    if d.get("neutralised"):
        meta["neutralised"] = d["neutralised"]
        meta["caught"] = None
    json.dump(meta, open(os.path.join(dst, "meta.json"), "w"), indent=1)
    print(mid, "caught" if meta["caught"] else ("MISSED" if meta["caught"] is False else "not run"), [r["exit"] for r in runs])

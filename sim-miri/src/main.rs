//! Miri tier: runs reader-API programs (same generator, same reference cursor as the C14R
//! campaign) with every window in its own exact-size allocation.
//!
//!   allsorts-sim-miri <seed> <start> <count> <stride>
//!   allsorts-sim-miri trace <file.json>        (replay one explicit reader trace)
//!
//! Exit 0: all programs agreed with the reference cursor and Miri saw no undefined behaviour
//! (Miri itself aborts the process with an error report otherwise); 1: oracle disagreement.

#[path = "../../sim/src/reader_sim.rs"]
mod reader_sim;
#[path = "../../sim/src/rng.rs"]
mod rng;
#[path = "../../sim/src/util.rs"]
mod util;

use std::collections::BTreeSet;

fn main() {
    let a: Vec<String> = std::env::args().collect();
    if a.get(1).map(|s| s == "trace").unwrap_or(false) {
        util::install_hook();
        let text = std::fs::read_to_string(&a[2]).expect("read trace");
        let mut t: reader_sim::ReaderTrace = serde_json::from_str(&text).expect("parse trace");
        t.exact = true;
        let mut cov = BTreeSet::new();
        println!("MIRI-RUN run={}", t.run);
        let (problems, _d) = reader_sim::run_program(&t, &mut cov, false);
        for p in &problems {
            println!("MIRI-ORACLE run={} op={} {} {}: {}", t.run, p.op_index, p.op_kind, p.name, p.msg);
        }
        println!("MIRI-DONE problems={}", problems.len());
        std::process::exit(if problems.is_empty() { 0 } else { 1 });
    }
    let num = |i: usize, d: u64| a.get(i).and_then(|s| s.parse::<u64>().ok()).unwrap_or(d);
    let (seed, start, count, stride) = (num(1, 1), num(2, 0), num(3, 16), num(4, 1).max(1));
    util::install_hook();
    let mut cov = BTreeSet::new();
    let mut bad = 0u64;
    let mut ops = 0u64;
    for k in 0..count {
        let run = start + k * stride;
        let t = reader_sim::generate(seed, run, true);
        println!("MIRI-RUN run={}", run);
        ops += t.ops.len() as u64;
        let (problems, _digest) = reader_sim::run_program(&t, &mut cov, false);
        for p in &problems {
            bad += 1;
            println!(
                "MIRI-ORACLE run={} op={} {} {}: {}",
                run, p.op_index, p.op_kind, p.name, p.msg
            );
        }
    }
    println!("MIRI-DONE seed={} start={} count={} stride={} ops={} tuples={} problems={}", seed, start, count, stride, ops, cov.len(), bad);
    std::process::exit(if bad == 0 { 0 } else { 1 });
}

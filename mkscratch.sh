#!/bin/bash
# Usage: mkscratch.sh <name>   -> /tmp/<name> (git worktree of /repo HEAD) + /tmp/<name>-sim (simulator built against it)
set -e
N=$1
git -C /repo worktree add -q --detach /tmp/$N HEAD
mkdir -p /tmp/$N-sim
rsync -a --exclude target /verif/sim/ /tmp/$N-sim/
sed -i "s|path = \"/repo\"|path = \"/tmp/$N\"|" /tmp/$N-sim/Cargo.toml
(cd /tmp/$N-sim && CARGO_NET_OFFLINE=true cargo build --release --offline 2>&1 | tail -1)
echo "worktree: /tmp/$N   simulator: /tmp/$N-sim/target/release/allsorts-sim (rebuild with: cd /tmp/$N-sim && cargo build --release --offline)"
echo "replay:   /tmp/$N-sim/target/release/allsorts-sim run --trace <file.json> --tests /tmp/$N/tests"

#!/usr/bin/env python3
"""Regenerate DESIGN.md section 20 (seeded changes and which checks catch them) from seeded/*/meta.json."""
import glob, json, os, re
ROOT = os.path.dirname(os.path.abspath(__file__))
rows, caught, missed, pending, neutral = [], 0, 0, 0, 0
for f in sorted(glob.glob(os.path.join(ROOT, "seeded", "C*", "meta.json"))):
    m = json.load(open(f))
    runs = m.get("detection_runs") or []
    if m.get("neutralised"):
        verdict, neutral = "no longer breaks the property: " + m["neutralised"], neutral + 1
    elif not runs:
        verdict, pending = "not run yet", pending + 1
    elif runs[-1]["exit"] == 1:
        sig = (runs[-1]["signatures"] or ["?"])[0]
        sig = re.sub(r"@allsorts::[^:]*(::[^:|]*)*", "", sig)
        verdict = "caught by `%s`: `%s`" % (runs[-1]["check"].replace("./check ", ""), sig[:110])
        if any(r["exit"] == 0 for r in runs[:-1]):
            verdict += " (missed before the check was strengthened)"
        caught += 1
    else:
        verdict, missed = "**missed** (%s)" % (m.get("note") or "see below"), missed + 1
    rows.append("| %s | %s | %s | %s |" % (m["id"], m.get("files") or "", m["breaks"].replace("|", "/"), verdict))
table = ["| id | where | what the change breaks | outcome of `./check <property> quick` |", "|---|---|---|---|"] + rows
summary = "%d seeded changes: %d caught, %d missed, %d neutralised by a later repair, %d not run yet." % (len(rows), caught, missed, neutral, pending)
text = summary + "\n\n" + "\n".join(table) + "\n"
p = os.path.join(ROOT, "DESIGN.md")
s = open(p).read()
a, b = "<!-- SEEDED-TABLE-BEGIN -->", "<!-- SEEDED-TABLE-END -->"
if a in s:
    s = s[:s.index(a) + len(a)] + "\n" + text + s[s.index(b):]
    open(p, "w").write(s)
# ---- fix list
import subprocess
kf = json.load(open(os.path.join(ROOT, "known_findings.json")))
byc = {e["commit"][:7]: e for e in kf["fixed"]}
log = subprocess.run(["git", "-C", "/repo", "log", "--reverse", "--format=%h %s"], capture_output=True, text=True).stdout
lines = []
for l in log.split("\n"):
    c, _, msg = l.partition(" ")
    if not msg.startswith("fix:"):
        continue
    e = byc.get(c[:7])
    lines.append("* `%s` %s - %s%s" % (c, e["property"] if e else "-", msg[5:], " (replay: `%s`)" % e["replay"] if e and e.get("replay") else ""))
fx = "%d repairs:\n\n" % len(lines) + "\n".join(lines) + "\n"
s = open(p).read()
a, b = "<!-- FIXES-BEGIN -->", "<!-- FIXES-END -->"
if a in s:
    s = s[:s.index(a) + len(a)] + "\n" + fx + s[s.index(b):]
    open(p, "w").write(s)
print(summary, "|", len(lines), "fixes")

#!/bin/bash
# Multi-seed sweep on the current tree: every property, several base seeds, thorough-size plans
# under a per-campaign time cap. Prints one line per (property, seed) and any VIOLATION lines.
SECS=${SWEEP_SECS:-120}
SEEDS=${SWEEP_SEEDS:-"101 102 103 104"}
PROPS=${SWEEP_PROPS:-"C01 C02 C03 C09 C14"}
rc=0
for s in $SEEDS; do
  for p in $PROPS; do
    out=$(VERIF_SEED=$s VERIF_SECS=$SECS ./check $p thorough 2>&1); code=$?
    echo "== $p seed=$s exit=$code $(echo "$out" | grep -c VIOLATION) violations"
    echo "$out" | grep -E "VIOLATION|KNOWN-FINDING|HARNESS|NOTE|^  " | head -40
    [ $code -ne 0 ] && rc=1
  done
done
exit $rc
